"""C10 — regenerated profile text preserves every token of the parsed profile.

Sentence generator over the GENERATED grammar table (tools/gen/grammar.py, the same data the Lean obligations are
proved about) + adapters to the real library (`C2Profile.from_text`, `.as_text()`, Lark's lexer and Reconstructor).

streams
  rt    valid sentences: parse, serialise the Lark tree, regenerate, re-lex, re-parse       (property itself)
  txt   the same sentences: exact text of as_text()                                          (correspondence only)
  tree  arbitrary / hand-made / mutated trees through the Reconstructor                      (correspondence only)
  lex   token soups through Lark's lexer vs `lexProfile`                                     (correspondence only)
  pp    arbitrary item lists through `postproc` + `Reconstructor.reconstruct`'s join         (correspondence only)
  bad   malformed sentences: accepted / rejected (`lark.exceptions.LarkError` -> `exc LarkError`)
  hist  HISTORIES: 2-6 from_text / as_text / tree-edit steps inside ONE impl() call on families of sources that are
        whitespace variants of each other (between tokens: same tokens; inside literals / at the end of a comment:
        different tokens), in both orders, repeated sources, object reuse.  The specification is stateless
        (theorem parse_history_independent): every step must answer as that step's source alone would.
  g-pp g-txt g-tree   every case of pp / txt / tree once more, with the generator `postproc` TRANSLATED from its source
        (Gen/PyC2Text.lean, tools/gen/py_c2text.py) in place of the model's `postproc`               (correspondence only)
  g-pparg  `list(postproc(x))` for arguments of every kind vs the translated definition             (correspondence only)
"""
from __future__ import annotations

import os
import re
import signal
import types

from pathlib import Path

import lark
from lark import Token, Tree
from lark.reconstruct import Reconstructor

from gen import grammar as GG

from . import common as C

# A grammar that Lark refuses to load (LALR conflict, syntax error) makes `import c2profile` itself fail.  That is a
# total failure of the code under test, not of this harness: it is turned into failing `rt` cases below instead of an
# import error of the harness (which check.py would report as a machinery error).
LOAD_ERROR = None
try:
    from dissect.cobaltstrike import c2profile as c2p
    from dissect.cobaltstrike.c2profile import C2Profile, c2profile_parser
except Exception as _e:  # noqa: BLE001
    LOAD_ERROR = _e
    c2p = C2Profile = c2profile_parser = None

ID = "C10"
DRIVER = "drv_c10"
GEN = ["grammar"]
GEN += ["py_c2text"]
EXTRA_PROP_FILES = ["Props/C10Gen.lean"]
G_STREAMS = ("pp", "txt", "tree")
STREAMS = {
    "rt": {"relevant": True, "desc": "from_text(src).tree, Reconstructor items, re-lex and re-parse of as_text()"},
    "txt": {"relevant": False, "desc": "as_text() character for character (indentation, blank lines) vs asText"},
    "tree": {"relevant": False, "desc": "Reconstructor on arbitrary trees (mutated, hand-made) vs printTree/asText"},
    "lex": {"relevant": False, "desc": "c2profile_parser.lex(text) vs lexProfile"},
    "pp": {"relevant": False, "desc": "as_text's postproc closure + Reconstructor.reconstruct join vs postproc/joinItems"},
    **{"g-" + s_: {"relevant": False, "desc": f"the generator postproc TRANSLATED from its source (Gen/PyC2Text.lean) in place of the model's "
                                              f"postproc, vs the real as_text / closure, on every case of {s_}"} for s_ in ("pp", "txt", "tree")},
    "g-pparg": {"relevant": False, "desc": "list(postproc(x)) for arguments of every kind (not a list, items that are not str) vs the translated definition"},
    "bad": {"relevant": False, "desc": "malformed sentences: accept / reject"},
    "hist": {"relevant": True, "desc": "several from_text/as_text/tree-edit steps in one process; each step vs the stateless model"},
}
TRUSTED = [
    "tools/gen/grammar.py (folding of Lark's compiled rules, cross-checked by re-expansion) and tools/harness/c10.py",
    "Lark's LALR(1) table construction and contextual lexer: from_text is compared with the model's recursive-descent "
    "parser (parseText) on every case, not verified",
    "lark.reconstruct.Reconstructor / tree_matcher (Earley over the children): modelled by printTree (greedy, first "
    "matching form) and by the relation ReconsTree (any form with the label, any split); compared on every case",
    "Python str / re semantics of the STRING, WS, SH_COMMENT, NEWLINE patterns (pinned to the generated pattern texts)",
    "tools/py2leanu.py + lean/CsVerif/Model/PyU.lean, PyU_T12.lean, PyU_T15.lean (untyped translation of the generator postproc of "
    "as_text: Props/C10Gen.lean proves the translated definition equal to the hand-written postproc; the g-* streams run it "
    "against the real closure / as_text)",
]
ASSUMPTIONS = [
    "profile text is a sequence of Unicode code points without lone surrogates",
    "the keyword `#` of `\"#\" \"dns_resolver\" string \";\"` cannot be lexed (SH_COMMENT wins): that production is only "
    "reachable through hand-made trees (stream `tree`), never through from_text",
    "model lexer = longest match over all words; Lark's contextual lexer = first match among the words the LALR state "
    "accepts; generated sources never glue two word-like tokens together, where the two could differ",
]
RULE = ("histories of whitespace-variant sources (stream hist) + every form of the generated table in a minimal context, every block empty/with variant/repeated, all forms of a "
        "rule in one block in random order, ordered pairs of forms, seeded random profiles with nasty literals and "
        "whitespace/comments; distinct = hash of input line; non-trivial = accepted sentence with at least one statement "
        "(rt), printable tree (tree), lexable text (lex), non-empty output (pp), rejected input (bad)")

# The table the Lean obligations are about.  When the translator cannot fold the loaded grammar (unknown construct)
# there is nothing to generate sentences from: the run then consists of the broken proof obligation alone.
try:
    TAB = GG.load(c2profile_parser) if LOAD_ERROR is None else None
except GG.GrammarError:
    TAB = None
KW = TAB.keywords if TAB else []
NAMES = TAB.names if TAB else []
KWID = {k: i for i, k in enumerate(KW)}
NAMEID = {n: i for i, n in enumerate(NAMES)}
STRING_T = NAMEID.get("STRING")
OPTION_T = NAMEID.get("OPTION")
FORMS_OF = {}
UNLEXABLE = set()
PARENTS = {}
if TAB:
    for _f in TAB.forms:
        FORMS_OF.setdefault(_f.origin, []).append(_f)
    # forms that contain a keyword the lexer can never produce (starts a comment)
    UNLEXABLE = {f.id for f in TAB.forms if any(k == "kw" and KW[a].startswith("#") for k, a in f.lean_items())}
    # where can a nonterminal occur: origin -> [(form, item index)]
    for _f in TAB.forms:
        for _i, (_k, _a) in enumerate(_f.lean_items()):
            if _k in ("nt", "star", "opt"):
                PARENTS.setdefault(_a, []).append((_f, _i))

# Sentences of the profile language as the pinned grammar defines it (every form of the table in a minimal context, plain and
# with awkward literals), written once by tools/harness/c10.py --write-reference and committed.  They run first in every run
# and are ALL that can run when the grammar of the tree under test cannot be loaded or folded (the model driver and the sentence
# generator both need the table): "every statement form the grammar supports is accepted and printed under its own keyword".
REFERENCE_FILE = Path(__file__).resolve().parent.parent.parent / "corpus" / "C10" / "reference_rt.txt"


def reference_sources():
    try:
        return [unhx(x) for x in REFERENCE_FILE.read_text().split()]
    except OSError:
        return []


def _reference_names():
    try:
        import json as _json
        return {n: i for i, n in enumerate(_json.loads((REFERENCE_FILE.parent / "reference_names.json").read_text()))}
    except (OSError, ValueError):
        return {}


def _reference_kws():
    try:
        import json as _json
        return {n: i for i, n in enumerate(_json.loads((REFERENCE_FILE.parent / "reference_keywords.json").read_text()))}
    except (OSError, ValueError):
        return {}


REFERENCE_NAMEID = _reference_names() if TAB is None else {}
REFERENCE_KWID = _reference_kws() if TAB is None else {}

FALLBACK_SOURCES = ['set sleeptime "1";', 'stage { set userwx "false"; }', 'http-get { set uri "/a"; client { metadata { base64; header "Cookie"; } } }']


# ------------------------------------------------------------------------------------------------------
# sentence generator (derivations as nested token lists)
# ------------------------------------------------------------------------------------------------------

PLAIN = "abcXYZ019 _-./:=+*()[]<>,!?@$%^&|~`'"
NASTY_UNITS = ['\\"', "\\\\", "#", ";", "{", "}", "\n", "\\n", "\\x41", "\\u0041", "'", "\\'", " ", "\t", "# x", "/*", "é", "ı", "日", "\U0001F600",
               "\\r", "\\t", "set", "}\n", "\\\\\\\\", '\\\\\\"', "\r",
               "\\u1242", "\\uff21", "\\u00ff", "\\u0100", "\\xff", "\\x00", "\\x7f", "\\u2603"]


def gen_literal(rng, nasty=0.35) -> str:
    if rng.random() < 0.06:
        # words that mean something to some consumer of the tree (as_dict treats the variant "default" specially, …)
        return rng.choice(['"default"', '"default"', '"Default"', '"default "', '"true"', '"false"', '"None"', '""'])
    n = rng.choice([0, 1, 1, 2, 3, 5, 8, 13])
    if rng.random() < 0.03:
        n = rng.choice([120, 240, 260, 400, 1100])       # statements wider than any line-length limit a formatter might apply
    body = []
    for _ in range(n):
        if rng.random() < nasty:
            body.append(rng.choice(NASTY_UNITS))
        else:
            body.append(rng.choice(PLAIN))
    return '"' + "".join(body) + '"'


class SGen:
    """random derivations; a sentence is a list of (kind, text) with kind in kw / STRING / OPTION"""

    def __init__(self, rng, nasty=0.35, star_max=3, avoid_unlexable=True):
        self.rng = rng
        self.nasty = nasty
        self.star_max = star_max
        self.avoid = avoid_unlexable
        self.used = set()

    def forms(self, n):
        fs = FORMS_OF[n]
        if self.avoid:
            fs = [f for f in fs if f.id not in UNLEXABLE]
        return fs

    def tok(self, t):
        if t == STRING_T:
            return ("STRING", gen_literal(self.rng, self.nasty))
        if t == OPTION_T:
            return ("OPTION", self.rng.choice(TAB.option_alts))
        raise RuntimeError("unknown named terminal")

    def form(self, f, depth, forced=None):
        """tokens of a derivation by form f; forced = (item index, callable producing the tokens of that item)"""
        self.used.add(f.id)
        out = []
        for i, (k, a) in enumerate(f.lean_items()):
            if forced is not None and forced[0] == i:
                pre = self.star(a, depth) if k == "star" and self.rng.random() < 0.5 else []
                post = self.star(a, depth) if k == "star" and self.rng.random() < 0.5 else []
                out += pre + forced[1]() + post
            elif k == "kw":
                out.append(("kw", KW[a]))
            elif k == "tok":
                out.append(self.tok(a))
            elif k == "nt":
                out += self.nt(a, depth)
            elif k == "star":
                out += self.star(a, depth)
            elif k == "opt":
                if self.rng.random() < 0.5:
                    out += self.nt(a, depth)
        return out

    def star(self, n, depth):
        r = self.rng.random()
        if depth <= 0:
            cnt = 0 if r < 0.6 else 1
        else:
            cnt = 0 if r < 0.15 else self.rng.randint(1, self.star_max)
        out = []
        for _ in range(cnt):
            out += self.nt(n, depth - 1)
        return out

    def nt(self, n, depth):
        fs = self.forms(n)
        if depth <= 0:
            # prefer forms without repetition when the budget is used up
            flat = [f for f in fs if not any(k in ("star",) for k, _ in f.lean_items())]
            fs = flat or fs
        return self.form(self.rng.choice(fs), depth)

    def cover(self, f, depth=1):
        """a sentence from the start symbol that uses form f (random context around it)"""
        def build(form, inner):
            # wrap `inner` (tokens of a derivation of form.origin) into a derivation from the start symbol
            if form.origin == TAB.start:
                return inner()
            cands = [(g, i) for g, i in PARENTS[form.origin] if g.id not in UNLEXABLE]
            g, i = self.rng.choice(cands)
            return build(g, lambda: self.form(g, depth, forced=(i, inner)))
        if f.origin == TAB.start:
            return self.form(f, depth)
        return build(f, lambda: self.form(f, depth))


SEPS = [" ", " ", " ", "\n", "\t", "  ", "\r\n", " \n ", "\f", " # c\n", "\n# set x \"y\";\n", " #\n", "\n\n",
        # comments whose text looks like syntax (the one commented-out statement the grammar knows, block punctuation), lone CR
        " # dns_resolver \"8.8.8.8\";\n", "\n#dns_resolver\n", " # dns_resolver\n", "\n# }\n", " # {\n", "\r", " \r "]


def render(rng, toks, tight=0.3, messy=True) -> str:
    """source text of a token list with random white space / comments between tokens"""
    out = []
    prev = None
    for kind, text in toks:
        if prev is not None:
            punct = text in "{};" or prev[1] in "{};" or kind == "STRING" or prev[0] == "STRING"
            if punct and rng.random() < tight:
                sep = ""
            elif messy:
                sep = rng.choice(SEPS)
                if rng.random() < 0.1:
                    sep += rng.choice(SEPS)
            else:
                sep = " "
            out.append(sep)
        elif messy and rng.random() < 0.3:
            out.append(rng.choice(SEPS))
        out.append(text)
        prev = (kind, text)
    if messy:
        r = rng.random()
        if r < 0.3:
            out.append(rng.choice(SEPS))
        elif r < 0.4:
            out.append(" # trailing comment without newline")
    return "".join(out)


# ------------------------------------------------------------------------------------------------------
# encodings
# ------------------------------------------------------------------------------------------------------

def hx(s: str) -> str:
    return "x" + s.encode("utf-8").hex()


def unhx(t: str) -> str:
    return bytes.fromhex(t[1:]).decode("utf-8")


def _nid(name) -> str:
    # without a table (translator plug-in failed) the ids of the pinned grammar's table are used (committed with the reference
    # sentences: the model driver then still runs on the last table that could be generated); unknown names are written out
    if TAB:
        return str(NAMEID[name])
    i = REFERENCE_NAMEID.get(str(name))
    return str(i) if i is not None else "<" + str(name) + ">"


def enc_tree(t) -> list:
    if isinstance(t, Token):
        return [f"t{_nid(t.type)}:{hx(str(t))}"]
    out = [f"n{_nid(str(t.data))}:{len(t.children)}"]
    for c in t.children:
        out += enc_tree(c)
    return out


def dec_tree(words):
    """inverse of enc_tree (used by the `tree` stream adapters)"""
    pos = 0

    def rd():
        nonlocal pos
        w = words[pos]
        pos += 1
        a, b = w[1:].split(":")
        if w[0] == "t":
            return Token(NAMES[int(a)], unhx(b))
        return Tree(NAMES[int(a)], [rd() for _ in range(int(b))])
    t = rd()
    assert pos == len(words)
    return t


def enc_items(items) -> str:
    out = []
    for it in items:
        if isinstance(it, Token):
            out.append(f"t{_nid(it.type)}:{hx(str(it))}")
        else:
            i = KWID.get(str(it)) if TAB else REFERENCE_KWID.get(str(it))
            out.append(f"k{i}" if i is not None else "k<" + str(it) + ">")
    return " ".join(out)


# ------------------------------------------------------------------------------------------------------
# generation
# ------------------------------------------------------------------------------------------------------

PPARG_FIXED = [None, 5, True, "ab;", "{x}", "", [], [1], ["a", 5, ";"], [b"a"], ("a", ";"), {"a": 1, ";": 2}, [["a"], ";"], [None], b"ab",
               [";", ";"], ["{", "}", ";"], ["a", "{", "b", ";", "}"], ["}", "}", "x"], [";", None], ("{", ("a",), "}"), ["\u20ac", ";", "\U0001f600", "{"]]


def gen(tier, rng, shard, nshards):
    """every case whose answer shows the regenerated text is also run with the postproc translated from its source"""
    from . import pyuval_t12
    for stream, line in gen0(tier, rng, shard, nshards):
        yield stream, line
        if stream in G_STREAMS:
            yield "g-" + stream, "g" + line
    if LOAD_ERROR is not None:
        return
    for i, a in enumerate(PPARG_FIXED):
        if i % nshards == shard:
            yield "g-pparg", "gppv " + pyuval_t12.pshow(a)
    for _ in range((4000 if tier == "thorough" else 400) // nshards):
        r = rng.random()
        if r < 0.5:
            a = [rng.choice(PP_ITEMS) if rng.random() < 0.9 else pyuval_t12.value(rng, 1) for _ in range(rng.choice([0, 1, 2, 3, 5, 8]))]
            if rng.random() < 0.3:
                a = tuple(a)
        else:
            a = pyuval_t12.value(rng)
        if pyuval_t12._has(a, pyuval_t12._obj):
            continue            # a Token is a str (not modelled)
        yield "g-pparg", "gppv " + pyuval_t12.pshow(a)


def gen0(tier, rng, shard, nshards):
    thorough = tier == "thorough"
    k = 0
    if LOAD_ERROR is not None:
        if shard == 0:
            for src in FALLBACK_SOURCES:
                yield "rt", "rt " + hx(src)
        return
    for i, src in enumerate(reference_sources()):
        if i % nshards == shard:
            yield "rt", "rt " + hx(src)
    if TAB is None:
        return

    def mine():
        nonlocal k
        k += 1
        return (k % nshards) == shard

    def rt(toks, **kw):
        h = hx(render(rng, toks, **kw))
        yield "rt", "rt " + h
        yield "txt", "txt " + h

    # (a) every form in a minimal context: plain rendering and messy rendering
    for f in TAB.forms:
        for rep in range(3 if thorough else 2):
            if not mine():
                continue
            if f.id in UNLEXABLE:
                continue
            g = SGen(rng, nasty=0.2 if rep == 0 else 0.5, star_max=2)
            toks = g.cover(f, depth=0 if rep == 0 else 1)
            yield from rt(toks, messy=rep > 0)
    # (a2) profiles with MANY top-level statements (batch sizes of a formatter: 33, 34, 65, 97, 129 = 1 and 2 modulo 32 …)
    tops = [f for f in TAB.forms if f.id not in UNLEXABLE]
    for n_top in ([33, 34, 65, 97, 129, 64, 32] if thorough else [33, 65, 34]):
        if not mine():
            continue
        def n_statements(ts):
            # top-level statements: tokens at depth 0 ending in ';' or '}'
            depth = cnt = 0
            for kind, text in ts:
                if kind == "kw" and text == "{":
                    depth += 1
                elif kind == "kw" and text == "}":
                    depth -= 1
                    cnt += depth == 0
                elif kind == "kw" and text == ";" and depth == 0:
                    cnt += 1
            return cnt

        toks, have = [], 0
        for _try in range(20 * n_top):
            if have == n_top:
                break
            g = SGen(rng, nasty=0.1, star_max=1)
            part = g.cover(rng.choice(tops), depth=0)
            c = n_statements(part)
            if 0 < c <= n_top - have:
                toks += part
                have += c
        if have == n_top:
            yield from rt(toks, messy=False)
    # (b) blocks: empty, with / without variant, repeated
    for f in TAB.forms:
        items = f.lean_items()
        if not any(kk == "star" for kk, _ in items) or f.origin == TAB.start:
            continue
        if not mine():
            continue
        g = SGen(rng, star_max=2)
        empty = [("kw", KW[a]) for kk, a in items if kk == "kw"]
        withvar = []
        for kk, a in items:
            if kk == "kw":
                withvar.append(("kw", KW[a]))
            elif kk == "opt":
                withvar += g.nt(a, 0)
        for body in (empty, withvar, empty + empty, withvar + empty):
            yield from rt(_wrap(rng, f, body), messy=False)
    # (c) all forms of a rule in one block, random order; ordered pairs
    for n, fs in FORMS_OF.items():
        if n == TAB.start or n not in PARENTS:
            continue
        lex = [f for f in fs if f.id not in UNLEXABLE]
        star_parents = [(g, i) for g, i in PARENTS[n] if g.lean_items()[i][0] == "star" and g.id not in UNLEXABLE]
        if not star_parents:
            continue
        for rep in range(4 if thorough else 1):
            if not mine():
                continue
            g = SGen(rng, star_max=1)
            order = lex[:]
            rng.shuffle(order)
            body = []
            for f in order:
                body += g.form(f, 0)
            yield from rt(_wrap_nt(rng, n, body), messy=rep > 0)
        pairs = [(a, b) for a in lex for b in lex]
        if not thorough:
            pairs = rng.sample(pairs, min(len(pairs), 12))
        for a, b in pairs:
            if not mine():
                continue
            g = SGen(rng, star_max=1, nasty=0.1)
            yield from rt(_wrap_nt(rng, n, g.form(a, 0) + g.form(b, 0)), messy=False)
    # (d) random profiles
    nrand = (52000 if thorough else 1900) // nshards
    for _ in range(nrand):
        g = SGen(rng, nasty=rng.choice([0.0, 0.2, 0.5]), star_max=rng.choice([1, 2, 2, 3, 4]))
        depth = rng.choice([0, 1, 1, 2, 2, 3])
        if rng.random() < 0.5:
            toks = g.cover(rng.choice([f for f in TAB.forms if f.id not in UNLEXABLE]), depth=depth)
        else:
            toks = g.nt(TAB.start, depth)
        if len(toks) > 400:
            continue
        yield from rt(toks, tight=rng.choice([0.0, 0.3, 0.9]))

    # ---- tree stream: parsed trees, mutated trees, hand-made trees
    ntree = (3000 if thorough else 260) // nshards
    for j in range(ntree):
        g = SGen(rng, nasty=0.2, star_max=2)
        toks = g.cover(rng.choice([f for f in TAB.forms if f.id not in UNLEXABLE]), depth=rng.choice([0, 1]))
        try:
            t = c2profile_parser.parse(render(rng, toks, messy=False))
        except lark.exceptions.LarkError:
            continue
        if j % 3:
            t = mutate_tree(rng, t)
        yield "tree", "tree " + " ".join(enc_tree(t))
    if shard == 0:
        for t in handmade_trees():
            yield "tree", "tree " + " ".join(enc_tree(t))

    # ---- lex stream
    for _ in range((6000 if thorough else 500) // nshards):
        yield "lex", "lex " + hx(gen_soup(rng))

    # ---- pp stream
    for _ in range((6000 if thorough else 500) // nshards):
        n = rng.choice([0, 1, 2, 3, 5, 8, 13, 21])
        items = [rng.choice(PP_ITEMS) for _ in range(n)]
        yield "pp", "pp " + " ".join(hx(i) for i in items) if items else "pp"

    # ---- histories
    for _ in range((5600 if thorough else 360) // nshards):
        yield "hist", "hist " + " ".join(gen_history(rng))

    # ---- malformed stream
    for _ in range((8000 if thorough else 700) // nshards):
        g = SGen(rng, nasty=0.2, star_max=2)
        toks = g.cover(rng.choice([f for f in TAB.forms if f.id not in UNLEXABLE]), depth=rng.choice([0, 1, 2]))
        yield "bad", "bad " + hx(malform(rng, toks))


LIT_WS = [" ", "  ", "\t", "\n", " \n", "\r\n", "   ", "\t ", "\f", " \t"]


def gen_history(rng):
    """steps of one history (see module doc): `p:x<src>` from_text, `a` as_text again, `d:<k>` delete a child,
    `t:x<src>` replace the tree of the same object"""
    g = SGen(rng, nasty=rng.choice([0.0, 0.2]), star_max=2)
    lexable = [f for f in TAB.forms if f.id not in UNLEXABLE]

    def sentence():
        if rng.random() < 0.5:
            return g.cover(rng.choice(lexable), depth=rng.choice([0, 1]))
        return g.nt(TAB.start, rng.choice([0, 1]))

    def toplevel():
        return g.nt(TAB.start, 1) or g.cover(rng.choice(FORMS_OF[TAB.forms[1].origin]), 0)

    kind = rng.choice(["between", "literal", "literal", "comment", "comment", "repeat", "mutate", "mixed"])
    toks = sentence()
    srcs = []
    if kind == "between":
        srcs = [render(rng, toks, tight=rng.choice([0.0, 0.5]), messy=rng.random() < 0.8) for _ in range(rng.randint(2, 4))]
    elif kind in ("literal", "mixed"):
        idx = [i for i, (k, _) in enumerate(toks) if k == "STRING"]
        if not idx:
            toks = toks + g.form(TAB.forms[1], 0)
            idx = [i for i, (k, _) in enumerate(toks) if k == "STRING"]
        i = rng.choice(idx)
        left, right = rng.choice(["/a", "", "x y", "#", "q;"]), rng.choice(["b", "", "{", "z z"])
        variants = rng.sample(LIT_WS, rng.randint(2, 3))
        same_layout = rng.random() < 0.6
        seed = rng.getrandbits(32)
        for wsv in variants:
            tv = list(toks)
            tv[i] = ("STRING", '"' + left + wsv + right + '"')
            import random as _r
            rr = _r.Random(seed) if same_layout else rng
            srcs.append(render(rr, tv, tight=0.0, messy=not same_layout or rng.random() < 0.3))
        if rng.random() < 0.6:
            srcs.append(srcs[0])  # first variant again: both orders within one history
        if kind == "mixed":
            srcs.insert(rng.randrange(len(srcs) + 1), render(rng, sentence()))
    elif kind == "comment":
        a, b = toplevel(), toplevel()
        sa, sb = render(rng, a, messy=False), render(rng, b, messy=False)
        c = rng.choice(["# c", "#", "# set x \"y\";", "#c #d", '# "'])
        cand = [sa + " " + c + "\n" + sb, sa + " " + c + " " + sb, sa + "\n" + c + "\n\n" + sb, sa + " " + c + "\t" + sb,
                sa + " " + c + "\r\n" + sb]
        if rng.random() < 0.3 and a and a[-1][1] == "}":
            # comment inside a block: the one-line variant swallows the closing brace (rejected by the parser)
            inner = render(rng, a[:-1], messy=False)
            cand += [inner + " " + c + "\n}", inner + " " + c + " }"]
        srcs = rng.sample(cand, rng.randint(2, 3))
        if rng.random() < 0.6:
            srcs.append(srcs[0])
    elif kind == "repeat":
        s0 = render(rng, toks)
        srcs = [s0] * rng.randint(2, 3)
    if kind == "mutate":
        steps = ["p:" + hx(render(rng, toks))]
        for _ in range(rng.randint(2, 5)):
            r = rng.random()
            if r < 0.35:
                steps.append("a")
            elif r < 0.7:
                steps.append(f"d:{rng.randrange(6)}")
            elif r < 0.9:
                steps.append("t:" + hx(render(rng, sentence())))
            else:
                steps.append("p:" + hx(render(rng, sentence())))
        if rng.random() < 0.2:
            steps.insert(0, rng.choice(["a", "d:0", "t:" + hx('set sleeptime "1";')]))
        return steps
    steps = []
    for src in srcs[:5]:
        steps.append("p:" + hx(src))
        if rng.random() < 0.2:
            steps.append(rng.choice(["a", "a", f"d:{rng.randrange(4)}"]))
    return steps


def _wrap_nt(rng, n, body):
    """sentence from the start symbol with `body` (tokens of derivations of nonterminal n) inside a block"""
    cands = [(g, i) for g, i in PARENTS[n] if g.lean_items()[i][0] == "star" and g.id not in UNLEXABLE]
    g, i = rng.choice(cands)
    sg = SGen(rng, star_max=1)
    toks = []
    for j, (k, a) in enumerate(g.lean_items()):
        if j == i:
            toks += body
        elif k == "kw":
            toks.append(("kw", KW[a]))
        elif k == "tok":
            toks.append(sg.tok(a))
        elif k == "nt":
            toks += sg.nt(a, 0)
        elif k == "opt" and rng.random() < 0.5:
            toks += sg.nt(a, 0)
    return _wrap(rng, g, toks)


def _wrap(rng, f, toks):
    """wrap the tokens of ONE derivation by form f into a sentence from the start symbol (minimal context)"""
    while f.origin != TAB.start:
        cands = [(g, i) for g, i in PARENTS[f.origin] if g.id not in UNLEXABLE]
        # prefer the shortest way up
        g, i = rng.choice(cands)
        sg = SGen(rng, star_max=1)
        out = []
        for j, (k, a) in enumerate(g.lean_items()):
            if j == i:
                out += toks
            elif k == "kw":
                out.append(("kw", KW[a]))
            elif k == "tok":
                out.append(sg.tok(a))
            elif k == "nt":
                out += sg.nt(a, 0)
        toks, f = out, g
    return toks


PP_ITEMS = ["{", "}", ";", "{", "}", ";", ";", "set", "uri", '"a b"', '"x;y"', '"{"', "http-get", "x", "", "{}", "};", "{};", "é", "a_b", "9", ";;",
            '"q\\""', "日本", "header", "}{", " "]


def gen_soup(rng) -> str:
    n = rng.choice([0, 1, 2, 3, 5, 8])
    out = []
    for _ in range(n):
        r = rng.random()
        if r < 0.45:
            out.append(rng.choice(KW))
        elif r < 0.6:
            out.append(rng.choice(TAB.option_alts))
        elif r < 0.8:
            out.append(gen_literal(rng, 0.4))
        elif r < 0.9:
            out.append(rng.choice(['"unterminated', '"a\\"', "foo", "Set", "c", "-", "=", "0", '"', "\\", "'x'", "é", "\x0b", "\xa0", "\u2028",
                                   "\x85", "\x00"]))
        else:
            out.append(rng.choice(KW) + rng.choice(KW))
        s = rng.random()
        out.append("" if s < 0.3 else rng.choice(SEPS))
    return "".join(out)


def malform(rng, toks) -> str:
    toks = list(toks)
    for _ in range(rng.choice([1, 1, 1, 2])):
        m = rng.randrange(10)
        if not toks:
            toks = [("kw", rng.choice(KW))]
            continue
        i = rng.randrange(len(toks))
        if m == 0:
            del toks[i]
        elif m == 1:
            toks.insert(i, toks[i])
        elif m == 2 and len(toks) > 1:
            j = min(i + 1, len(toks) - 1)
            toks[i], toks[j] = toks[j], toks[i]
        elif m == 3:
            toks.insert(i, ("kw", rng.choice(KW)))
        elif m == 4:
            toks[i] = ("kw", rng.choice(KW))
        elif m == 5:
            toks = toks[:i]
        elif m == 6:
            toks.insert(i, ("kw", rng.choice(["{", "}", ";"])))
        elif m == 7:
            toks[i] = ("x", rng.choice(['"open', "bogus", "SET", '"a\\"', "\\", "'", "set_", "C N"]))
        elif m == 8:
            toks[i] = ("OPTION", rng.choice(TAB.option_alts))
        else:
            toks[i] = ("STRING", gen_literal(rng))
    return render(rng, toks, tight=0.2, messy=rng.random() < 0.5)


def mutate_tree(rng, t):
    """small random damage to a parsed tree (labels, arity, order)"""
    nodes = [n for n in t.iter_subtrees()]
    n = rng.choice(nodes)
    m = rng.randrange(6)
    labels = sorted({NAMES[TAB.label(f)] for f in TAB.forms})
    if m == 0:
        n.data = rng.choice(labels)
    elif m == 1 and n.children:
        del n.children[rng.randrange(len(n.children))]
    elif m == 2 and n.children:
        n.children.append(n.children[rng.randrange(len(n.children))])
    elif m == 3 and len(n.children) > 1:
        rng.shuffle(n.children)
    elif m == 4:
        n.children.insert(rng.randrange(len(n.children) + 1), Tree("string", [Token("STRING", '"m"')]))
    else:
        # same label family: label with the same spelling in another rule is the interesting case
        same = [l for l in labels if l.split("_")[0] == str(n.data).split("_")[0]]
        n.data = rng.choice(same or labels)
    return t


def handmade_trees():
    s = lambda v: Tree("string", [Token("STRING", v)])
    yield Tree("start", [Tree("dns_beacon", [Tree("comment_dns_resolver", [s('"1.2.3.4"')])])])
    yield Tree("start", [Tree("dns_beacon", [Tree("dns_idle", [s('"1"')]), Tree("comment_dns_resolver", [s('"x"')])])])
    yield Tree("start", [])
    yield Tree("start", [Tree("value", [])])
    yield Tree("start", [Tree("stage", [Tree("stage_options", [])])])
    yield Tree("start", [Tree("stage", [Tree("cleanup", [s('"a"')]), Tree("beacon_gate", [Tree("cleanup", [])])])])
    yield Tree("start", [Tree("stage", [Tree("string", [s('"a"')])])])
    yield Tree("string", [Token("STRING", '"a"')])
    yield Tree("string", [s('"a"')])
    yield Tree("header", [s('"a"'), s('"b"')])
    yield Tree("header", [s('"a"')])
    yield Tree("header", [])
    yield Tree("http_get", [Tree("variant", [s('"v"')]), Tree("variant", [s('"v"')])])
    yield Tree("http_get", [Tree("uri", [s('"v"')]), Tree("variant", [s('"v"')])])
    yield Tree("client", [Tree("metadata", []), Tree("header", [s('"a"'), s('"b"')])])
    yield Tree("client", [Tree("output", [Tree("data_transform", [Tree("steps", []), Tree("termination", [Tree("print", [])])])])])
    yield Tree("data_transform", [Tree("steps", [Tree("print", [])]), Tree("termination", [Tree("base64", [])])])
    yield Tree("option", [Token("OPTION", "sleeptime"), s('"1"')])
    yield Tree("option", [Token("STRING", '"sleeptime"'), s('"1"')])
    yield Tree("start", [Tree("option", [s('"1"'), Token("OPTION", "sleeptime")])])


# ------------------------------------------------------------------------------------------------------
# adapters to the real library
# ------------------------------------------------------------------------------------------------------

class _TeeReconstructor(Reconstructor):
    """the real Reconstructor; the top-level item stream is copied into `seen` on its way to postproc"""
    seen: list = []

    def reconstruct(self, tree, postproc=None, insert_spaces=True):
        def tee(t):
            # only the outermost call is wrapped: the recursive calls go to the class method again
            self.__dict__.pop("_reconstruct", None)
            for it in Reconstructor._reconstruct(self, t):
                _TeeReconstructor.seen.append(it)
                yield it
        self._reconstruct = tee
        try:
            return Reconstructor.reconstruct(self, tree, postproc, insert_spaces)
        finally:
            self.__dict__.pop("_reconstruct", None)


def lark_tokens(text):
    """tokens as the contextual lexer hands them to the LALR parser"""
    return [(t.type, str(t)) for t in c2profile_parser.parse_interactive(text).iter_parse()]


def as_text_with_items(prof):
    saved = c2p.Reconstructor
    _TeeReconstructor.seen = []
    c2p.Reconstructor = _TeeReconstructor
    try:
        text = prof.as_text()
    finally:
        c2p.Reconstructor = saved
    return text, list(_TeeReconstructor.seen)


_RT_CACHE = {"src": None, "res": None}


def run_rt(src: str):
    """(rt answer, txt answer) for one source; the last result is kept so that the `txt` line that follows an `rt`
    line does not pay for a second as_text()"""
    if _RT_CACHE["src"] == src:
        return _RT_CACHE["res"]
    res = _run_rt(src)
    _RT_CACHE["src"], _RT_CACHE["res"] = src, res
    return res


def _run_rt(src: str):
    try:
        prof = C2Profile.from_text(src)
    except lark.exceptions.LarkError:
        return "exc LarkError", "exc LarkError"
    tree = prof.tree
    text, items = as_text_with_items(prof)
    src_toks = lark_tokens(src)
    yield_ok = [v for _, v in src_toks] == [str(i) for i in items]
    try:
        relex = lark_tokens(text) == src_toks and [(t.type, str(t)) for t in c2profile_parser.lex(text)] == [(t.type, str(t)) for t in c2profile_parser.lex(src)]
    except lark.exceptions.LarkError:
        relex = False
    try:
        reparse = C2Profile.from_text(text).tree == tree
    except lark.exceptions.LarkError:
        reparse = False
    return (f"ok wf=T yield={C.tf(yield_ok)} tree {' '.join(enc_tree(tree))} print {enc_items(items)} "
            f"relex={C.tf(relex)} reparse={C.tf(reparse)}"), "text " + hx(text)


def _hist_answer(prof, src_toks) -> str:
    tree = prof.tree
    try:
        text, items = as_text_with_items(prof)
    except (lark.exceptions.LarkError, AssertionError, StopIteration, KeyError):
        return f"ok tree {' '.join(enc_tree(tree))} print none"
    printed = [str(i) for i in items]
    flag = "-" if src_toks is None else C.tf(src_toks == printed)
    try:
        relex = [v for _, v in lark_tokens(text)] == printed
    except lark.exceptions.LarkError:
        relex = False
    try:
        reparse = C2Profile.from_text(text).tree == tree
    except lark.exceptions.LarkError:
        reparse = False
    return (f"ok yield={flag} tree {' '.join(enc_tree(tree))} print {enc_items(items)} "
            f"relex={C.tf(relex)} reparse={C.tf(reparse)}")


def _failed_as_text(k: int):
    """as_text() on an UNRELATED, deliberately damaged profile object (a plain str / an unknown subtree where a STRING token belongs):
    it raises part-way through a statement.  A stateless implementation is unaffected by it; whatever it leaves behind in
    module- or class-level state shows up in the steps that follow.  Invisible to the model (which is stateless)."""
    try:
        p = C2Profile.from_text('set sleeptime "1"; http-get { set uri "/a"; client { header "A" "b"; metadata { base64; print; } } } set jitter "2";')
        slots = []

        def walk(t):
            for i, c in enumerate(t.children):
                if isinstance(c, Token) and c.type == "STRING":
                    slots.append((t, i))
                elif isinstance(c, Tree):
                    walk(c)
        walk(p.tree)
        t, i = slots[k % len(slots)]
        t.children[i] = "plain-str" if k % 2 == 0 else Tree("no_such_statement", [])
        p.as_text()
    except Exception:  # noqa: BLE001
        pass


def impl_hist(words) -> str:
    cur = None
    out = []
    salt = sum(len(w) for w in words)
    for wi, w in enumerate(words):
        if (salt + wi) % 3 == 0:
            _failed_as_text(salt + wi)
        src_toks = None
        try:
            if w.startswith("p:"):
                src = unhx(w[2:])
                cur_new = C2Profile.from_text(src)
                cur = cur_new
                try:
                    src_toks = [v for _, v in lark_tokens(src)]
                except lark.exceptions.LarkError:
                    src_toks = ["<source does not lex/parse>"]
            elif cur is None:
                out.append("nop")
                continue
            elif w == "a":
                pass
            elif w.startswith("d:"):
                ch = cur.tree.children
                if ch:
                    del ch[int(w[2:]) % len(ch)]
            elif w.startswith("t:"):
                src = unhx(w[2:])
                cur.tree = C2Profile.from_text(src).tree
                try:
                    src_toks = [v for _, v in lark_tokens(src)]
                except lark.exceptions.LarkError:
                    src_toks = ["<source does not lex/parse>"]
            else:
                raise RuntimeError("bad history step " + w)
        except lark.exceptions.LarkError:
            out.append("exc LarkError")
            continue
        out.append(_hist_answer(cur, src_toks))
    return " | ".join(out)


def impl_hist_isolated(words) -> str:
    """Run one history in a forked child: whatever process-level state the code under test keeps (caches, ...),
    the answer depends on THIS history only, so a shrunk history replays identically in a fresh process."""
    r, w = os.pipe()
    pid = os.fork()
    if pid == 0:
        try:
            os.close(r)
            signal.alarm(0)
            try:
                out = impl_hist(words)
            except BaseException as e:  # noqa: BLE001
                out = "exc " + type(e).__name__
            data = out.encode("utf-8")
            while data:
                n = os.write(w, data)
                data = data[n:]
        finally:
            os._exit(0)
    os.close(w)
    chunks = []
    try:
        while True:
            b = os.read(r, 1 << 16)
            if not b:
                break
            chunks.append(b)
    except BaseException:
        try:
            os.kill(pid, signal.SIGKILL)
        except OSError:
            pass
        raise
    finally:
        os.close(r)
        try:
            os.waitpid(pid, 0)
        except OSError:
            pass
    out = b"".join(chunks).decode("utf-8")
    if not out:
        raise RuntimeError("history child died without an answer")
    return out


def _postproc_fn():
    """the `postproc` closure of C2Profile.as_text (it has no free variables)"""
    for c in C2Profile.as_text.__code__.co_consts:
        if isinstance(c, types.CodeType) and c.co_name == "postproc":
            if c.co_freevars:
                raise RuntimeError("postproc has free variables")
            return types.FunctionType(c, c2p.__dict__)
    raise RuntimeError("postproc not found in as_text")


def impl(stream, line):
    if LOAD_ERROR is not None:
        raise LOAD_ERROR
    if stream == "g-pparg":
        from . import pyuval_t12
        return "ok " + pyuval_t12.pshow(list(_postproc_fn()(pyuval_t12.pparse(line.split(" ")[1]))))
    if stream.startswith("g-"):
        return impl(stream[2:], line[1:])       # the same real function
    w = line.split(" ")
    if stream == "rt":
        return run_rt(unhx(w[1]))[0]
    if stream == "txt":
        return run_rt(unhx(w[1]))[1]
    if stream == "hist":
        return impl_hist_isolated(w[1:])
    if stream == "bad":
        try:
            C2Profile.from_text(unhx(w[1]))
        except lark.exceptions.LarkError:
            return "exc LarkError"
        return "ok"
    if stream == "tree":
        t = dec_tree(w[1:])
        prof = C2Profile()
        prof.tree = t
        try:
            text, items = as_text_with_items(prof)
        except (lark.exceptions.LarkError, AssertionError, StopIteration, RuntimeError, KeyError):
            return "none"
        return f"print {enc_items(items)} text {hx(text)}"
    if stream == "lex":
        try:
            toks = [str(t) for t in c2profile_parser.lex(unhx(w[1]))]
        except lark.exceptions.LarkError:
            return "none"
        return " ".join(["ok"] + [hx(t) for t in toks])
    if stream == "pp":
        items = [unhx(x) for x in w[1:]]
        r = Reconstructor(c2profile_parser)
        r._reconstruct = lambda tree: iter(items)
        return hx(r.reconstruct(None, _postproc_fn()))
    raise RuntimeError("unknown stream " + stream)


def nontrivial(stream, line, out):
    if stream == "g-pparg":
        return not out.startswith("exc ")
    if stream.startswith("g-"):
        return nontrivial(stream[2:], line[1:], out)
    if stream == "rt":
        return out.startswith("ok ") and " tree n0:0 " not in out
    if stream == "txt":
        return out.startswith("text ") and out != "text x"
    if stream == "tree":
        return out != "none"
    if stream == "lex":
        return out.startswith("ok x")
    if stream == "pp":
        return out != "x"
    if stream == "bad":
        return out.startswith("exc ")
    if stream == "hist":
        return out.count("ok yield=") >= 2
    return True


def oracle(stream, line, out):
    """The property on the implementation's own outputs: a generated sentence is accepted, the regenerated text has
    the same tokens, and re-parses to the same tree (all three flags are computed from Lark alone in impl_rt)."""
    if stream == "hist":
        # every step that produced a profile: its regenerated text re-lexes to the tokens of THAT step's source
        # (yield), to the printed items (relex) and re-parses to the tree the object holds (reparse)
        if out.startswith("exc "):
            return None
        for a in out.split(" | "):
            if a.startswith("ok ") and " print none" not in a:
                if " yield=F " in a or " relex=T " not in a or not a.endswith(" reparse=T"):
                    return False
        return True
    if stream != "rt":
        return None
    if out.startswith("exc Timeout"):
        return None
    if not out.startswith("ok "):
        return False
    return " yield=T " in out and " relex=T " in out and out.endswith(" reparse=T")


# ------------------------------------------------------------------------------------------------------
# shrinking: drop statements / blocks from the source
# ------------------------------------------------------------------------------------------------------

_TOKRE = re.compile(r'"(?:.|\n)*?(?<!\\)(?:\\\\)*?"|#[^\n]*|[{};]|[^\s{};"#]+', re.S)


def shrink(stream, line):
    if stream.startswith("g-"):
        return
    w = line.split(" ")
    if stream in ("rt", "txt", "bad") and len(w) == 2:
        src = unhx(w[1])
        toks = [t for t in _TOKRE.findall(src) if not t.startswith("#")]
        # statement spans: [start, end) ending at ';' or at the matching '}'
        spans = []
        stack = []
        start = 0
        for i, t in enumerate(toks):
            if t == "{":
                stack.append(start)
                start = i + 1
            elif t == "}":
                if stack:
                    s0 = stack.pop()
                    spans.append((s0, i + 1))
                start = i + 1
            elif t == ";":
                spans.append((start, i + 1))
                start = i + 1
        spans.sort(key=lambda ab: ab[0] - ab[1])
        for a, b in spans:
            yield w[0] + " " + hx(" ".join(toks[:a] + toks[b:]))
        yield w[0] + " " + hx(" ".join(toks))
        for i, t in enumerate(toks):
            if t.startswith('"') and len(t) > 2:
                yield w[0] + " " + hx(" ".join(toks[:i] + ['"a"'] + toks[i + 1:]))
    elif stream == "hist":
        for i in range(1, len(w)):
            yield " ".join(w[:i] + w[i + 1:])
        for i in range(1, len(w)):
            if w[i][:2] in ("p:", "t:"):
                src = unhx(w[i][2:])
                for cand in shrink("rt", "rt " + hx(src)):
                    yield " ".join(w[:i] + [w[i][:2] + cand.split(" ")[1]] + w[i + 1:])
    elif stream in ("tree", "pp", "lex"):
        if stream == "pp":
            for i in range(1, len(w)):
                yield " ".join(w[:i] + w[i + 1:])
        yield from C.shrink_tokens(line)


def known(stream, line, known_list):
    return None


# ------------------------------------------------------------------------------------------------------
# witnesses for broken table obligations (only consulted when a Lean obligation failed)
# ------------------------------------------------------------------------------------------------------

def colliding_pairs():
    """pairs of forms with the same tree label and the same child shapes but different keyword texts, and pairs of
    forms of one rule with the same alias but different keywords"""
    def shape(f):
        return tuple((k, a) for k, a in f.lean_items() if k != "kw")

    def kws(f):
        return tuple(a for k, a in f.lean_items() if k == "kw")
    out = []
    for f in TAB.forms:
        for g in TAB.forms:
            if f.id < g.id and TAB.label(f) == TAB.label(g) and kws(f) != kws(g):
                if shape(f) == shape(g) or (f.origin == g.origin and f.alias is not None):
                    out.append((f, g))
    return out


def extra_checks(tier, rng, lean):
    if lean.get("ok", True) or TAB is None:
        return
    for f, g in colliding_pairs():
        for h in (f, g):
            if h.id in UNLEXABLE:
                continue
            sg = SGen(rng, nasty=0.0, star_max=1)
            line = "rt " + hx(render(rng, sg.cover(h, depth=0), messy=False))
            out = impl("rt", line)
            if oracle("rt", line, out) is False:
                yield {"stream": "rt", "line": line, "impl": out, "model": None, "oracle_failed": True,
                       "note": f"forms {f.id} and {g.id} share the tree label {NAMES[TAB.label(f)]} but not their keywords"}


def write_reference():
    """python -m harness.c10 --write-reference : regenerate corpus/C10/reference_rt.txt from the CURRENT table (run on the unchanged tree only)"""
    import random as _r
    rng = _r.Random(20260930)
    out = []
    for f in TAB.forms:
        if f.id in UNLEXABLE:
            continue
        for rep in range(2):
            g = SGen(rng, nasty=0.0 if rep == 0 else 0.4, star_max=1 if rep == 0 else 2)
            toks = g.cover(f, depth=0)
            src = render(rng, toks, messy=rep > 0)
            line = "rt " + hx(src)
            ans = impl("rt", line)
            if oracle("rt", line, ans) is True:
                out.append(hx(src))
    for src in ['# dns_resolver "8.8.8.8";\nset sleeptime "1";', 'set sleeptime "1"; # dns_resolver\n', 'stage { # dns_resolver x\n set userwx "false"; }',
                '#dns_resolver\nhttp-get { set uri "/a"; }', 'set jitter "1";\r# {\n', 'dns-beacon { # }\n set dns_idle "1.2.3.4"; }',
                '#\nset sleeptime "1";', 'set sleeptime\f"1"\r;']:
        line = "rt " + hx(src)
        if oracle("rt", line, impl("rt", line)) is True:
            out.append(hx(src))
    for opt in TAB.option_alts:      # every word of the OPTION terminal
        for lit in ('"x"', '"a b\\n"'):
            src = f"set {opt} {lit};"
            line = "rt " + hx(src)
            if oracle("rt", line, impl("rt", line)) is True:
                out.append(hx(src))
    REFERENCE_FILE.parent.mkdir(parents=True, exist_ok=True)
    REFERENCE_FILE.write_text("\n".join(out) + "\n")
    import json as _json
    (REFERENCE_FILE.parent / "reference_names.json").write_text(_json.dumps(list(NAMES)))
    (REFERENCE_FILE.parent / "reference_keywords.json").write_text(_json.dumps(list(KW)))
    print(len(out), "reference sentences written")


if __name__ == "__main__":
    import sys as _sys
    if "--write-reference" in _sys.argv:
        write_reference()

"""`pyu` stream of C04: the run-time operations the untyped translator got for `HttpDataTransform` (lean/CsVerif/Model/PyU_T04.lean:
`liftBytes1`, `liftBytes2`, `liftIntBytes`, i.e. the calls of `utils.netbios_encode / netbios_decode / xor / p32be` on dynamic values)
against the real functions, on operands of all kinds.  Notation and random operands: tools/harness/pyuval.py.
"""
from __future__ import annotations

from dissect.cobaltstrike import utils

from . import pyuval

OPS = {"nbenc": utils.netbios_encode, "nbdec": utils.netbios_decode, "xor": utils.xor, "p32be": utils.p32be}
ARITY = {"nbenc": 1, "nbdec": 1, "xor": 2, "p32be": 1}


def modelled(op, args) -> bool:
    """operand kinds PyU_T04.lean states as 'not modelled' (they answer TypeError there) are left out"""
    a = args[0]
    if op == "nbenc":
        return a is None or type(a) in (bytes, str)
    if op == "nbdec":
        return a is None or type(a) in (bytes, bool, int) or (type(a) is str and a != "")
    if op == "xor":
        k = args[1]
        if type(a) is bytes and type(k) is bytes:
            return True
        if k is None or type(k) in (bool, int) or (type(k) is str and k != ""):
            return True        # `sum(key)` is a TypeError
        if type(k) is bytes and any(k):
            return a is None or type(a) in (bool, int, str)
        return False
    if op == "p32be":
        return not (type(a) is int and abs(a) > 2 ** 70)
    return False


def case(rng):
    op = rng.choice(sorted(OPS))
    r = rng.random()
    if op == "p32be":
        a = rng.choice([0, 1, 255, 256, 0x01020304, 2 ** 32 - 1, 2 ** 32, -1, True, False, rng.getrandbits(32), rng.getrandbits(33)]) if r < 0.7 else pyuval.value(rng)
        args = [a]
    elif op == "xor":
        a = bytes(rng.getrandbits(8) for _ in range(rng.choice([0, 1, 3, 4, 5, 8, 9, 17]))) if r < 0.7 else pyuval.value(rng)
        k = rng.choice([b"", b"\x00", b"\x00\x00\x00\x00", b"\x01", b"\x00\x00\x00\x01", bytes(rng.getrandbits(8) for _ in range(4)),
                        bytes(rng.getrandbits(8) for _ in range(rng.choice([1, 2, 3, 7, 20])))]) if rng.random() < 0.75 else pyuval.value(rng)
        args = [a, k]
    else:
        if r < 0.35:
            a = bytes(rng.getrandbits(8) for _ in range(rng.choice([0, 1, 2, 3, 4, 7, 16])))
        elif r < 0.7:
            a = bytes(rng.choice(b"ABCDEFGHIJKLMNOPabcdefghijklmnop@Q`q") for _ in range(rng.choice([0, 1, 2, 3, 4, 6, 9])))
        else:
            a = pyuval.value(rng)
        args = [a]
    if not modelled(op, args):
        return None
    try:
        return "pyu " + op + " " + " ".join(pyuval.pshow(x) for x in args)
    except RuntimeError:
        return None


def run(line: str) -> str:
    w = line.split()
    return "ok " + pyuval.pshow(OPS[w[1]](*[pyuval.pparse(t) for t in w[2:]]))

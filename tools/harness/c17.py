"""C17 — Guardrails: independent builder of protected payloads, generators, adapters to the real library."""
from __future__ import annotations

import io
import itertools
import struct
import zipfile
from pathlib import Path

from dissect.cobaltstrike import guardrails as G
from dissect.cobaltstrike.beacon import BeaconConfig

from . import common as C
from . import pyuval, pyuval_t15, pyuval_t17

ID = "C17"
DRIVER = "drv_c17"
GEN = ["guardrails", "py_utils", "py_guard", "py_guardu"]
EXTRA_PROP_FILES = ["Props/C17Gen.lean"]
STREAMS = {
    "ff": {"relevant": True, "desc": "BeaconConfig.from_bytes(payload): guardrails metadata + config block / ValueError"},
    "ffx": {"relevant": True, "desc": "BeaconConfig.from_bytes(XorEncoded container of payload); model runs on the decoded view"},
    "wb": {"relevant": True, "desc": "iter_guardrail_configs_with_beacon(BytesIO(payload)) with io.DEFAULT_BUFFER_SIZE patched"},
    "scan": {"relevant": True, "desc": "iter_guardrail_configs(BytesIO(payload), xorkey): offsets, unmasked guard config, settings, checksum"},
    "cands": {"relevant": False, "desc": "find_xor_key_candidates(BytesIO(data)) with io.DEFAULT_BUFFER_SIZE patched (Counter/most_common model)"},
    "cks": {"relevant": False, "desc": "payload_checksum(data)"},
    "g-cks": {"relevant": False, "desc": "payload_checksum translated from its source text (Gen/PyGuard.lean) vs the function"},
    "g-scan": {"relevant": False, "desc": "iter_guardrail_configs TRANSLATED from its source (Gen/PyGuardU.lean, untyped translator) vs the function, "
               "on every case of scan and on the payloads of wb (up to 24 KiB); also the final file position and sums of the masked areas"},
    "g-cands": {"relevant": False, "desc": "translated find_xor_key_candidates vs the function on every case of cands"},
    "g-wb": {"relevant": False, "desc": "translated iter_guardrail_configs_with_beacon over the other two translated definitions vs the function, "
             "on every case of wb (payloads up to 24 KiB) and on the ff payloads up to 24 KiB"},
    "g-sel": {"relevant": False, "desc": "the translated selection loop alone: iter_guardrail_configs / find_xor_key_candidates replaced (in the "
              "module, for the call) by stubs that answer the records / candidates of the line — fields and keys of ANY kind"},
    "g-arg": {"relevant": False, "desc": "translated iter_guardrail_configs / find_xor_key_candidates vs the functions on arguments of ANY kind "
              "(None / str / int where bytes or a file object is expected, files of both kinds at any position)"},
    "pyu": {"relevant": False, "desc": "the operations of Model/PyU_T17.lean (range(a, b), utils.grouper, bytes(x), Counter.update / most_common, "
            "BufferedReader.peek + GuardrailSetting(reader), payload_checksum on any value) vs CPython / dissect.cstruct on random operands"},
}
TRUSTED = [
    "tools/harness/c17.py (independent builder, generators, adapters, oracle); line protocol parsing in lean/CsVerif/Driver/C17.lean",
    "tools/gen/guardrails.py (introspection of GUARD_CONFIG_STARTS, patch sizes, enums, struct layout, default keys; "
    "the 0x2e literals are read from the functions' AST)",
    "the three generator functions and payload_checksum are ALSO translated from their source text on every run (plug-ins gen/py_guard.py, "
    "gen/py_guardu.py -> Gen/PyGuard.lean, Gen/PyGuardU.lean) and proved equal to the model for all arguments (Props/C17Gen.lean); trusted "
    "for that tie: tools/py2lean.py, tools/py2leanu.py (+ the T17 hooks), Model/PyRt.lean, Model/PyU.lean, PyU_T15.lean (file objects), "
    "PyU_T02.lean (cstruct structure read, try/except), PyU_T17.lean (for-else, range(a, b), BufferedReader.peek, utils.grouper, bytes(), "
    "Counter.update / most_common) - validated by the g-* / pyu streams on every run; in compiled code the typed translations of "
    "payload_checksum / utils.xor inside Gen/PyGuardU.lean are replaced by proved-equal linear versions (Model/C17Fast.lean, csimp)",
    "modelled, not verified: dissect.cstruct struct/enum reading (EOFError on short data, unknown enum values accepted), "
    "io.BufferedReader.peek over a 2048-byte BytesIO, collections.Counter.most_common(2) (= heapq.nlargest: count desc, ties by "
    "first insertion), itertools.zip_longest grouping, utils.xor (C20 byte-wise model) — each exercised by a stream",
]
ASSUMPTIONS = [
    "the payload is not found by the ordinary (non-Guardrails) extraction path first and XorEncodedFile.from_file rejects it "
    "(raw payloads; generators keep the 7-byte CONFIG_HEADER out); the XorEncoded view itself is C09's subject",
    "pe.find_compile_stamps / pe.find_architecture (called after the Guardrails hit) do not raise (C18); "
    "BeaconConfig(config_block) = iter_settings does not raise (C02/C08)",
    "generators are eager lists in the model: equivalent to the lazy Python generators because the scan never raises "
    "(theorem iterGuardrailConfigs_total)",
    "io.DEFAULT_BUFFER_SIZE = 8192 in production; other values only via patching inside impl",
    "translation: a generator is the list of its yields (consumed completely); the external generator handed a file parameter is run to "
    "its end before the first run of the loop body (exact here: the scan never raises, gen_scan_total); utils.grouper's result is used "
    "once; the yielded GuardrailMetadata objects are not referenced by the generator afterwards (checked by the translator)",
]
RULE = ("builder-made protected payloads over key lengths 2..256 × option subsets × positions × corruptions, plus crafted "
        "scan/candidate/checksum inputs; distinct = hash of input line; non-trivial = at least one guardrail metadata "
        "record was reported (ff: a configuration was recovered; cands/cks: non-empty data)")

BSIZE = 6144
GSIZE = 2048
STARTS = [bytes.fromhex(x) for x in ("000500010002", "000600010002", "000700010002", "000800020004")]

# --------------------------------------------------------------------------------------
# independent builder (no library calls)
# --------------------------------------------------------------------------------------


def bx(data: bytes, key: bytes) -> bytes:
    """plain byte-wise xor with a tiled key (independent of utils.xor)"""
    if not key:
        return bytes(data)
    n = len(key)
    return bytes(b ^ key[i % n] for i, b in enumerate(data))


def cks(data: bytes) -> int:
    """independent checksum: sum of byte * weight(1,2,3 cycling), reduced mod 99999999"""
    s = sum(data[0::3]) + 2 * sum(data[1::3]) + 3 * sum(data[2::3])
    if len(data) * 765 < 99999999:
        return s
    n = 0
    for i, b in enumerate(data):
        n = (n + b * (i % 3 + 1)) % 99999999
    return n


def enc_setting(opt: int, typ: int, value: bytes, length=None) -> bytes:
    return struct.pack(">HHH", opt, typ, len(value) if length is None else length) + value


def guard_settings(opts, checksum, rng=None, vals=None):
    """opts ⊆ {5,6,7,8}: user/computer/domain as TYPE_SHORT hashes, local ip as TYPE_INT; then the checksum setting."""
    out = b""
    for o in (5, 6, 7, 8):
        if o in opts:
            if o == 8:
                v = (vals or {}).get(o) or (C.rbytes(rng, 4) if rng else b"\x0a\x00\x00\x01")
                out += enc_setting(8, 2, v)
            else:
                v = (vals or {}).get(o) or (C.rbytes(rng, 2) if rng else b"\x12\x34")
                out += enc_setting(o, 1, v)
    if checksum is not None:
        out += enc_setting(9, 2, struct.pack(">I", checksum & 0xFFFFFFFF))
    return out


def guard_config(settings: bytes, pad: bytes = b"", terminate=True) -> bytes:
    g = settings + (b"\x00\x00" if terminate else b"")
    g = g + pad[: max(0, GSIZE - len(g))]
    return (g + bytes(GSIZE))[:GSIZE]


def protect(cfg: bytes, key: bytes, gcfg: bytes, bkey=b"\x2e", gkey=b"\x8a") -> bytes:
    """masked_beacon ++ masked_guard (inverse of the extraction code)"""
    assert len(cfg) == BSIZE
    guarded = bx(cfg, key)
    mb = bx(guarded, bkey)
    rev = mb[::-1]
    mg = bytes(a ^ b for a, b in zip(bx(gcfg, gkey), rev))
    return mb + mg


def enc_cfg(settings, size=BSIZE) -> bytes:
    raw = b"".join(struct.pack(">HHH", i, t, len(v)) + v for i, t, v in settings)
    assert len(raw) + 2 <= size
    return raw + bytes(size - len(raw))


def make_cfg(rng, nonzero=None):
    """a plausible beacon configuration block: leading settings, zero padded to 6144 bytes"""
    st = [(1, 1, struct.pack(">H", rng.choice([0, 1, 2, 8, 10]))), (2, 1, struct.pack(">H", rng.choice([80, 443, 8080, 53]))),
          (3, 2, struct.pack(">I", rng.randrange(1, 120000))), (4, 2, struct.pack(">I", rng.randrange(1, 4000000))),
          (5, 1, struct.pack(">H", rng.randrange(0, 100)))]
    target = rng.choice([60, 200, 700, 1500, 2600]) if nonzero is None else nonzero
    idx = 7
    used = sum(6 + len(v) for _, _, v in st)
    while used < target and idx < 60:
        if idx == 9:
            idx += 1
            continue
        n = rng.choice([16, 64, 128, 256, 256])
        n = min(n, max(2, target - used))
        st.append((idx, 3, C.rbytes(rng, n)))
        used += 6 + n
        idx += 1
    return enc_cfg(st), b"".join(struct.pack(">HHH", i, t, len(v)) + v for i, t, v in st)


def make_key(rng, n, kind=None):
    kind = kind or rng.choice(["host", "host", "bytes", "bytes", "zeroend", "periodic", "same", "nearsame", "nearsame"])
    if kind == "nearsame" and n >= 3:
        # internally repetitive but primitive keys: one shorter aligned n-gram dominates the padded configuration
        # (host names such as SRV-000000000001): every shorter key length yields a wrong candidate first
        c = bytes([rng.choice(b"A0az") if rng.random() < 0.7 else rng.randrange(1, 256)])
        if rng.random() < 0.5 or n < 8:
            k = c * (n - 1) + bytes([c[0] ^ rng.randrange(1, 256)])
        else:
            k = b"SRV-"[: max(1, min(4, n - 3))] + c * (n - max(1, min(4, n - 3)) - 1) + bytes([c[0] ^ 1])
    elif kind == "host":
        k = bytes(rng.choice(b"abcdefghijklmnopqrstuvwxyz0123456789-") for _ in range(n))
    elif kind == "zeroend":
        k = C.rbytes(rng, n - 1) + b"\x00"
    elif kind == "periodic" and n >= 4:
        ds = [d for d in range(2, n) if n % d == 0]
        if ds:
            p = rng.choice(ds)
            k = bytes(rng.randrange(1, 256) for _ in range(p)) * (n // p)
        else:
            k = bytes(rng.randrange(1, 256) for _ in range(n))
    elif kind == "same":
        k = bytes([rng.choice([0x41, 0x07, 0xFF])]) * n
    else:
        k = bytes(rng.randrange(1, 256) for _ in range(n))
    if not any(k):
        k = b"\x01" * n
    return k


NORMAL_HEADERS = [bx(b"\x00\x01\x00\x01\x00\x02\x00", k) for k in (b"\x69", b"\x2e", b"\x00")]


def clean(payload: bytes) -> bool:
    """the ordinary extraction path must not fire (assumption of the ff stream)"""
    return not any(h in payload for h in NORMAL_HEADERS)


def dos_header() -> bytes:
    """minimal IMAGE_DOS_HEADER + PE signature + IMAGE_FILE_HEADER.Machine = AMD64 (what XorEncodedFile.from_file looks for)"""
    h = bytearray(96)
    h[0:2] = b"MZ"
    h[60:64] = struct.pack("<I", 64)
    h[64:68] = b"PE\0\0"
    h[68:70] = struct.pack("<H", 0x8664)
    return bytes(h)


def xorencode(payload: bytes, nonce: bytes) -> bytes:
    """independent XorEncoded container: nonce | size ^ nonce | 4-byte chained xor of the payload"""
    out = bytearray()
    prev = nonce
    for i in range(0, len(payload), 4):
        c = bytes(a ^ b for a, b in zip(payload[i:i + 4], prev))
        out += c
        prev = c
    return nonce + bytes(a ^ b for a, b in zip(struct.pack("<I", len(out)), nonce)) + bytes(out)


def filler(rng, n):
    """random bytes without accidental guard markers or config headers (checked by the caller where it matters)"""
    return C.rbytes(rng, n)


# --------------------------------------------------------------------------------------
# rendering of the implementation's results (same format as Driver/C17.lean)
# --------------------------------------------------------------------------------------


def ob(b):
    return "none" if b is None else C.hx(b)


def show_meta(m) -> str:
    parts = [str(m.beacon_config_offset), str(m.guard_config_offset), str(len(m.masked_beacon_config)),
             str(len(m.masked_guard_config)), C.hx(m.beacon_xor_key), C.hx(m.guardrail_xor_key), str(m.checksum),
             ob(m.payload_xor_key), ob(m.unmasked_beacon_config), C.hx(m.unmasked_guard_config), str(len(m.settings))]
    for s in m.settings:
        parts += [str(int(s.option.value)), str(int(s.type.value)), str(int(s.length)), C.hx(s.value)]
    return " ".join(parts)


def show_metas(ms) -> str:
    return " | ".join([str(len(ms))] + [show_meta(m) for m in ms])


class _BufSize:
    def __init__(self, n):
        self.n = n

    def __enter__(self):
        self.saved = io.DEFAULT_BUFFER_SIZE
        io.DEFAULT_BUFFER_SIZE = self.n

    def __exit__(self, *a):
        io.DEFAULT_BUFFER_SIZE = self.saved


def impl(stream, line):
    """The runner arms a 10 s SIGALRM around this call.  On a heavily loaded machine a 0.3 s extraction can exceed that;
    a first timeout is therefore retried once under a 90 s alarm (a real hang still ends as `exc Timeout`)."""
    try:
        return _impl(stream, line)
    except Exception as e:  # noqa: BLE001
        if type(e).__name__ != "Timeout":
            raise
    import signal

    signal.alarm(90)
    return _impl(stream, line)


def _impl(stream, line):
    w = line.split()
    if stream == "scan":
        ms = list(G.iter_guardrail_configs(io.BytesIO(C.unhx(w[1])), **C.drop_defaults(line, {"xorkey": b"\x8a"}, xorkey=C.unhx(w[2]))))
        return "ok " + show_metas(ms)
    if stream == "wb":
        with _BufSize(int(w[2])):
            ms = list(G.iter_guardrail_configs_with_beacon(io.BytesIO(C.unhx(w[1]))))
        return "ok " + show_metas(ms)
    if stream in ("ff", "ffx"):
        data = C.unhx(w[1])
        if stream == "ffx":
            data = (C.unhx(w[5]) if len(w) > 5 else b"") + xorencode(data, C.unhx(w[4]))
        elif len(w) > 4:
            try:
                with _BufSize(int(w[2])):
                    BeaconConfig.from_bytes(C.unhx(w[4]))
            except ValueError:
                pass
        with _BufSize(int(w[2])):
            bc = BeaconConfig.from_bytes(data)
        if bc.guardrails is None:
            return "ordinary-path " + C.hx(bc.config_block[:16])
        m = bc.guardrails
        if bc.config_block != m.unmasked_beacon_config or bc.xorkey != m.beacon_xor_key:
            return "inconsistent-beaconconfig"
        return "ok " + show_meta(m)
    if stream == "cands":
        with _BufSize(int(w[2])):
            cs = list(G.find_xor_key_candidates(io.BytesIO(C.unhx(w[1]))))
        return " ".join([str(len(cs))] + [C.hx(c) for c in cs])
    if stream == "cks":
        return str(G.payload_checksum(C.unhx(w[1])))
    if stream == "g-cks":
        return "ok " + str(G.payload_checksum(C.unhx(w[1])))
    if stream == "g-scan":
        fh = io.BytesIO(C.unhx(w[1]))
        ms = list(G.iter_guardrail_configs(fh, C.unhx(w[2])))
        return "ok " + gshow_metas(ms) + f" @{fh.tell()}"
    if stream == "g-wb":
        fh = io.BytesIO(C.unhx(w[1]))
        with _BufSize(int(w[2])):
            ms = list(G.iter_guardrail_configs_with_beacon(fh))
        return "ok " + gshow_metas(ms) + f" @{fh.tell()}"
    if stream == "g-cands":
        fh = io.BytesIO(C.unhx(w[1]))
        with _BufSize(int(w[2])):
            cs = list(G.find_xor_key_candidates(fh))
        return "ok " + " ".join([str(len(cs))] + [C.hx(c) for c in cs]) + f" @{fh.tell()}"
    if stream == "g-sel":
        f, recs, cands = (pyuval_t17.parse(t) for t in w[1:4])
        saved = (G.iter_guardrail_configs, G.find_xor_key_candidates)
        G.iter_guardrail_configs = lambda fh: iter(recs)
        G.find_xor_key_candidates = lambda fh: iter(cands)
        try:
            with pyuval_t15.Opened([f]) as a:
                ms = list(G.iter_guardrail_configs_with_beacon(a[0]))
                return "ok " + gshow_any(ms) + f" @{a[0].tell()}"
        finally:
            G.iter_guardrail_configs, G.find_xor_key_candidates = saved
    if stream == "g-arg":
        args = [pyuval_t17.parse(t) for t in w[2:]]
        if w[1] == "scan":
            with pyuval_t15.Opened(args) as a:
                ms = list(G.iter_guardrail_configs(a[0], a[1]))
                return "ok " + gshow_any(ms) + f" @{a[0].tell()}"
        with pyuval_t15.Opened(args) as a:
            with _BufSize(a[0]):
                cs = list(G.find_xor_key_candidates(a[1]))
            if all(type(c) is bytes for c in cs):
                return "ok " + " ".join([str(len(cs))] + [C.hx(c) for c in cs]) + f" @{a[1].tell()}"
            return "ok " + pyuval_t17.show(cs) + f" @{a[1].tell()}"
    if stream == "pyu":
        return pyuval_t17.run(line)
    raise RuntimeError("unknown stream " + stream)


def sums(b: bytes) -> str:
    s1 = s2 = 0
    for x in b:
        s2 = (s2 + s1 + x) % 65521
        s1 = (s1 + x) % 65521
    return f"{len(b)}:{s1}:{s2}"


def gshow_meta(m) -> str:
    parts = [str(m.beacon_config_offset), str(m.guard_config_offset), sums(m.masked_beacon_config), sums(m.masked_guard_config),
             C.hx(m.beacon_xor_key), C.hx(m.guardrail_xor_key), str(m.checksum), ob(m.payload_xor_key), ob(m.unmasked_beacon_config),
             C.hx(m.unmasked_guard_config), str(len(m.settings))]
    for s in m.settings:
        parts += [str(int(s.option.value)), str(int(s.type.value)), str(int(s.length)), C.hx(s.value)]
    return " ".join(parts)


def gshow_metas(ms) -> str:
    return " | ".join([str(len(ms))] + [gshow_meta(m) for m in ms])


def _plain_meta(m) -> bool:
    """a record of the shape the driver prints in the `showMeta` format (anything else is printed in the generic notation)"""
    def nn(x):
        return type(x) is int
    return (type(m) is G.GuardrailMetadata and nn(m.beacon_config_offset) and nn(m.guard_config_offset) and nn(m.checksum)
            and all(type(getattr(m, f)) is bytes for f in ("masked_beacon_config", "masked_guard_config", "beacon_xor_key", "guardrail_xor_key",
                                                           "unmasked_guard_config"))
            and all(x is None or type(x) is bytes for x in (m.payload_xor_key, m.unmasked_beacon_config))
            and type(m.settings) is list and all(type(s) is G.GuardrailSetting and type(s.value) is not None and int(s.length) >= 0
                                                 and int(s.option.value) >= 0 and int(s.type.value) >= 0 for s in m.settings))


def gshow_any(ms) -> str:
    return gshow_metas(ms) if all(_plain_meta(m) for m in ms) else pyuval_t17.show(ms)


# --------------------------------------------------------------------------------------
# oracle: the property stated on the implementation's outputs, with the independent builder's primitives
# --------------------------------------------------------------------------------------


def parse_meta(tokens):
    m = {"bco": int(tokens[0]), "gco": int(tokens[1]), "lmb": int(tokens[2]), "lmg": int(tokens[3]),
         "bkey": C.unhx(tokens[4]), "gkey": C.unhx(tokens[5]), "checksum": int(tokens[6]),
         "key": None if tokens[7] == "none" else C.unhx(tokens[7]),
         "cfg": None if tokens[8] == "none" else C.unhx(tokens[8]), "ug": C.unhx(tokens[9])}
    n = int(tokens[10])
    st = []
    for i in range(n):
        o, t, ln, v = tokens[11 + 4 * i: 15 + 4 * i]
        st.append((int(o), int(t), int(ln), C.unhx(v)))
    m["settings"] = st
    assert len(tokens) == 11 + 4 * n
    return m


def split_metas(out):
    assert out.startswith("ok ")
    parts = out[3:].split(" | ")
    assert int(parts[0]) == len(parts) - 1
    return [parse_meta(p.split(" ")) for p in parts[1:]]


def safe_meta(payload, m, gkey=b"\x8a"):
    """Safety part of the property for one reported metadata record (independent recomputation)."""
    mb = payload[m["bco"]: m["bco"] + BSIZE]
    if m["gco"] != m["bco"] + BSIZE or m["lmb"] != BSIZE or len(mb) != BSIZE:
        return False
    mg = payload[m["gco"]: m["gco"] + GSIZE]
    if m["lmg"] != len(mg):
        return False
    # guard unmasking
    if m["ug"] != bx(bytes(a ^ b for a, b in zip(mg, mb[::-1])), gkey):
        return False
    # stored checksum = last option-9 setting in the settings as reported
    stored = 0
    for o, t, ln, v in m["settings"]:
        if o == 9:
            stored = int.from_bytes(v[:4], "big")
    if stored != m["checksum"]:
        return False
    if (m["cfg"] is None) != (m["key"] is None):
        return False
    if m["cfg"] is not None:
        # an unmasked configuration is only reported when its checksum equals the stored one
        if cks(m["cfg"]) + 1 != m["checksum"]:
            return False
        if m["cfg"] != bx(bx(mb, b"\x2e"), m["key"]) or not (2 <= len(m["key"]) <= 256):
            return False
    return True


def primitive_root(k: bytes) -> bytes:
    """shortest prefix of at least 2 bytes whose tiling equals the tiling of k (what keylen = 2.. finds first)"""
    n = len(k)
    for p in range(1, n + 1):
        if n % p == 0 and k[:p] * (n // p) == k:
            return k[:p] if p >= 2 else k[:1] * 2
    return k


def oracle(stream, line, out):
    w = line.split()
    if stream == "cks":
        return out == str(cks(C.unhx(w[1])))
    if stream == "scan":
        if not out.startswith("ok "):
            return False  # the scan never raises (fix 34c0f22)
        payload, gkey = C.unhx(w[1]), C.unhx(w[2])
        ms = split_metas(out)
        if not all(safe_meta(payload, m, gkey) and m["cfg"] is None for m in ms):
            return False
        # exactly the offsets where the marker relation holds (independent restatement)
        st = [bx(s, gkey) for s in STARTS]
        exp = []
        for o in range(max(0, BSIZE - 6), len(payload) - 5):
            a, b = payload[o:o + 6], payload[o + 6:o + 12]
            if bx(a[::-1], b) in st:
                exp.append(o + 6)
        return [m["gco"] for m in ms] == exp
    if stream == "wb":
        if not out.startswith("ok "):
            return False
        payload = C.unhx(w[1])
        return all(safe_meta(payload, m) for m in split_metas(out))
    if stream in ("ff", "ffx"):
        payload = C.unhx(w[1])
        tag = w[3] if len(w) > 3 else "U"
        if out.startswith("ok "):
            m = parse_meta(out[3:].split(" "))
            if not safe_meta(payload, m) or m["cfg"] is None:
                return False
        elif out != "exc ValueError":
            return False
        kind = tag.split(":")[0]
        if kind == "M":  # corrupted: metadata only expected — ValueError, or a configuration with a matching checksum (checked above)
            return True
        if kind == "R":  # must recover (cfg, key, offsets) up to the primitive root / an earlier weak-checksum collision
            _, keyhex, bco = tag.split(":")
            key, bco = bytes.fromhex(keyhex), int(bco)
            if not out.startswith("ok "):
                return False
            m = parse_meta(out[3:].split(" "))
            cfg = bx(bx(payload[bco:bco + BSIZE], b"\x2e"), key)
            if m["key"] in (key, primitive_root(key)):
                return m["bco"] == bco and m["cfg"] == cfg
            if m["bco"] == bco and len(m["key"]) <= len(primitive_root(key)):
                # hypotheses of recover_partial violated: a candidate of a shorter length, or a tied one of the same length,
                # collides on the weak checksum (that the checksum does match was verified by safe_meta above)
                return None
            if m["bco"] == bco and m["cfg"] == cfg:
                return None  # another spelling of the same key (tie order)
            return False
        return None
    return None


def nontrivial(stream, line, out):
    if stream in ("pyu", "g-arg", "g-sel"):
        return True
    if stream in ("cands", "cks", "g-cks", "g-cands"):
        return line.split()[1] != "x"
    if stream in ("ff", "ffx"):
        return out.startswith("ok ")
    return out.startswith("ok ") and not out.startswith("ok 0")


def shrink(stream, line):
    if stream in ("cands", "cks"):
        yield from C.shrink_tokens(line)


# --------------------------------------------------------------------------------------
# generators
# --------------------------------------------------------------------------------------

OPT_SUBSETS = [s for r in range(1, 5) for s in itertools.combinations((5, 6, 7, 8), r)]  # the 15 non-empty combinations


def area(rng, key, opts, nonzero=None, pad_random=True, checksum_delta=0, cfg=None):
    if cfg is None:
        cfg, _ = make_cfg(rng, nonzero)
    stored = cks(cfg) + 1 + checksum_delta
    gs = guard_settings(opts, stored, rng)
    gc = guard_config(gs, C.rbytes(rng, GSIZE) if pad_random else b"")
    return cfg, gc, protect(cfg, key, gc)


def quick_lengths(rng):
    base = [2, 3, 4, 5, 7, 8, 15, 16, 17, 31, 32, 33, 63, 64, 100, 127, 128, 129, 200, 254, 255, 256]
    return base + [rng.randrange(2, 257) for _ in range(3)]


GCAP = 24 * 1024      # the translated scan re-reads the file list for every offset (quadratic on Lean lists): payloads up to this size


def gen(tier, rng, shard, nshards):
    """every case of the hand-model streams, each followed by the same case for the TRANSLATED definitions (`g-*`), then the
    cases only the translation can express (`g-sel`, `g-arg`) and the `pyu` cases"""
    nff = 0
    for stream, line in _gen_model(tier, rng, shard, nshards):
        yield stream, line
        w = line.split()
        if stream == "ff":
            nff += 1
            if tier != "thorough" and nff % 3 != 0:
                continue       # quick tier: every third ff payload also goes through the translated pipeline (0.4 s per case on each side)
        if stream == "scan":
            yield "g-scan", "g" + line
        elif stream == "cands":
            yield "g-cands", "g" + line
        elif stream == "wb" and len(w[1]) // 2 <= GCAP:
            yield "g-wb", "g" + line
            yield "g-scan", f"gscan {w[1]} x8a"
        elif stream == "ff" and len(w[1]) // 2 <= GCAP:
            yield "g-wb", f"gwb {w[1]} {w[2]}"
    thorough = tier == "thorough"
    grng = __import__("random").Random(rng.randrange(2 ** 32) + 7919 * shard)
    for _ in range((3000 if thorough else 300) // nshards + 1):
        yield "g-sel", gsel_case(grng)
    for _ in range((1500 if thorough else 150) // nshards + 1):
        yield "g-arg", garg_case(grng)
    for _ in range((20000 if thorough else 2000) // nshards + 1):
        line = pyuval_t17.case(grng)
        if line is not None:
            yield "pyu", line


def gsel_case(rng):
    """records and candidates of any kind for the selection loop: matching / non-matching checksums at several candidate
    positions, `for … else`, the empty key, fields and keys of wrong kinds"""
    cands = [bytes(rng.randrange(256) for _ in range(rng.choice([1, 2, 2, 3, 5]))) for _ in range(rng.choice([0, 1, 2, 3, 4]))]
    if rng.random() < 0.2:
        cands.insert(rng.randrange(len(cands) + 1), rng.choice([b"", b"\x00\x00", None, "ab", 5, [b"a"], ("a",)]))
    recs = []
    for _ in range(rng.choice([0, 1, 1, 2, 3])):
        mb = bytes(rng.randrange(256) for _ in range(rng.choice([0, 1, 5, 12, 12, 30])))
        guarded = bx(mb, b"\x2e")
        good = [c for c in cands if type(c) is bytes]
        r = rng.random()
        if good and r < 0.55:
            ck = cks(bx(guarded, rng.choice(good))) + 1       # the checksum of one of the candidates (not always the first)
        elif r < 0.7:
            ck = cks(guarded) + 1                            # what the empty / all-zero key would give
        else:
            ck = rng.choice([0, 1, 7, 99999999, -1])
        if rng.random() < 0.12:
            ck = rng.choice([None, "5", True, False, b"\x01", [1], (ck,)])
        if rng.random() < 0.1:
            mb = rng.choice([None, "abc", 5, ""])
        rec = [rng.choice([0, 3, -1]), rng.choice([6144, 6147, 0]), mb, rng.choice([b"", b"\x01\x02"]), rng.choice([b"\x2e", b"\x69", None]),
               b"\x8a", b"\x00\x00", ck, rng.choice([None, None, b"old"]), rng.choice([None, None, b"oldcfg"]), rng.choice([[], [], [1, 2], None])]
        recs.append("I33[" + ";".join(pyuval_t17.show(x) for x in rec) + "]")
    if rng.random() < 0.08:
        recs.insert(rng.randrange(len(recs) + 1), pyuval_t17.show(rng.choice([None, 5, (1, 2), {}, b"ab", "x"])))
    f = pyuval_t15.rfile(rng)
    cshow = pyuval_t17.show(rng.choice([cands, cands, cands, tuple(cands), {c: 1 for c in cands if c.__hash__ is not None}]) if rng.random() < 0.93
                            else rng.choice([None, 5, "ab", b"ab"]))
    return f"gsel {f.tok()} L[{';'.join(recs)}] {cshow}"


def garg_case(rng):
    if rng.random() < 0.5:
        # iter_guardrail_configs(fh, xorkey)
        if rng.random() < 0.5:
            gkey = rng.choice([b"\x8a", b"\x8a", b"", b"\x00", b"\x01\x02"])
            data = scan_payload(rng, rng.choice([0, 1, 3, 4, 5, 6, 8]), gkey)
            if len(data) > GCAP:
                data = data[:GCAP]
            f = pyuval_t15.FileSpec(data, rng.choice([0, 0, 5, len(data), len(data) + 9]), rng.choice([0, 1]))
            key = gkey if rng.random() < 0.8 else rng.choice([None, "\x8a", 138, True])
        else:
            f = pyuval_t15.rfile(rng) if rng.random() < 0.8 else rng.choice([None, 5, b"ab", [1]])
            key = rng.choice([b"\x8a", b"", b"\x00\x00", b"ab", None, "a", 5, False])
        return f"garg scan {pyuval_t17.show(f)} {pyuval_t17.show(key)}"
    n = rng.choice([0, 1, 2, 3, 5, 8, 13, 40])
    alpha = rng.choice([b"\x00\x01", b"ab", b"\x00ab"])
    data = bytes(rng.choice(alpha) for _ in range(n))
    f = pyuval_t15.FileSpec(data, rng.choice([0, 0, 1, n, n + 2]), rng.choice([0, 0, 1])) if rng.random() < 0.9 else rng.choice([None, 5, b"ab", "ab"])
    buf = rng.choice([8192, 8192, 1, 2, 3, 5, 7, 16, 0, -1, -1, -2, True, False, None, None, "8", b"", [3]])
    return f"garg cands {pyuval_t17.show(buf)} {pyuval_t17.show(f)}"


def _gen_model(tier, rng, shard, nshards):
    thorough = tier == "thorough"
    k = 0

    def mine():
        nonlocal k
        k += 1
        return (k % nshards) == shard

    def ff(payload, tag, buf=8192, warm=None):
        if not clean(payload):
            return None
        if warm is not None and clean(warm):
            # history: the intact twin is extracted first in the same process (state kept between extractions must not
            # let the corrupted payload through)
            return "ff", f"ff {C.hx(payload)} {buf} {tag} {C.hx(warm)}"
        return "ff", f"ff {C.hx(payload)} {buf} {tag}"

    # ---- ff: keys of many lengths
    lengths = list(range(2, 257)) if thorough else quick_lengths(rng)
    reps = 3 if thorough else 1
    for n in lengths:
        for r in range(reps):
            if not mine():
                continue
            key = make_key(rng, n, ["host", "bytes", None][r] if thorough else None)
            opts = rng.choice(OPT_SUBSETS)
            nz = rng.choice([60, 200, 700, 1500]) if n > 64 else None
            cfg, gc, ar = area(rng, key, opts, nonzero=nz)
            pre = filler(rng, rng.choice([0, 0, 1, 5, 17, 300]))
            post = filler(rng, rng.choice([0, 0, 3, 40]))
            c = ff(pre + ar + post, f"R:{key.hex()}:{len(pre)}")
            if c:
                yield c

    # ---- ff: all 15 option combinations × positions
    positions = [(0, 0), (1, 0), (7, 5), (6137, 0), (6138, 2), (6139, 11), (6144, 12), (9000, 700), (2500, 3000)]
    for oi, opts in enumerate(OPT_SUBSETS):
        for pi, (npre, npost) in enumerate(positions):
            if not thorough and (oi + pi) % 3 != 0:
                continue
            if not mine():
                continue
            key = make_key(rng, rng.choice([2, 5, 9, 15, 16, 20]))
            cfg, gc, ar = area(rng, key, opts)
            pre, post = filler(rng, npre), filler(rng, npost)
            c = ff(pre + ar + post, f"R:{key.hex()}:{npre}")
            if c:
                yield c

    # ---- ff: corruptions of key, checksum and configuration bytes
    ncorr = 480 if thorough else 40
    for ci in range(ncorr):
        if not mine():
            continue
        key = make_key(rng, rng.choice([2, 3, 8, 15, 16, 33, 64, 256]))
        opts = rng.choice(OPT_SUBSETS)
        kind = ci % 8
        pre = filler(rng, rng.choice([0, 3, 100]))
        post = filler(rng, rng.choice([0, 9]))
        cfg, _ = make_cfg(rng)
        stored = cks(cfg) + 1
        tag = "M"
        if kind == 0:  # checksum off by one (both directions) or far away
            stored += rng.choice([-1, 1, 2, -2, 1000, 3, -3])
        elif kind == 1:  # checksum setting missing / zero
            stored = rng.choice([None, 0])
        gs = guard_settings(opts, stored, rng)
        if kind == 2:  # checksum stored in a 2-byte or 6-byte value
            v = struct.pack(">I", stored)
            gs = guard_settings(opts, None, rng) + rng.choice([enc_setting(9, 1, v[2:]), enc_setting(9, 3, v + b"\xaa\xbb"),
                                                               enc_setting(9, 2, b"\x00" + v[:3])])
            tag = "U"
        if kind == 3:  # two checksum settings: the last one wins
            good_last = rng.random() < 0.5
            a, b = (stored + 5, stored) if good_last else (stored, stored + 5)
            gs = guard_settings(opts, a, rng) + enc_setting(9, 2, struct.pack(">I", b))
            tag = f"R:{key.hex()}:{len(pre)}" if good_last else "M"
        gc = guard_config(gs, C.rbytes(rng, GSIZE))
        ar = bytearray(protect(cfg, key, gc))
        intact = pre + bytes(ar) + post if kind in (0, 4) else None
        if kind == 0:   # the twin with the right checksum
            intact = pre + protect(cfg, key, guard_config(guard_settings(opts, cks(cfg) + 1, rng), C.rbytes(rng, GSIZE))) + post
        if kind == 4:  # flip configuration bytes (inside the settings / inside the padding)
            for _ in range(rng.choice([1, 1, 2, 5])):
                p = rng.choice([rng.randrange(0, 64), rng.randrange(0, BSIZE - 2048), rng.randrange(0, BSIZE - 2048)])
                ar[p] ^= rng.randrange(1, 256)
        elif kind == 5:  # the area was masked with a different key than the checksum was computed for (key corruption)
            bad = bytearray(key)
            bad[rng.randrange(len(bad))] ^= rng.randrange(1, 256)
            ar = bytearray(protect(cfg, bytes(bad), gc))
            tag = "U"
            # checksum of the config under the *bad* key is what a recovering implementation would see;
            # stored one is for cfg: only recoverable when the candidate happens to be `bad`
        elif kind == 6:  # weight-preserving change: swap two config bytes three apart (same checksum, different config)
            p = rng.randrange(0, 40)
            a0, a1 = ar[p], ar[p + 3]
            kk = key
            # swap the *plaintext* bytes: masked bytes change accordingly
            c0, c1 = cfg[p], cfg[p + 3]
            ar[p] = c1 ^ kk[p % len(kk)] ^ 0x2E
            ar[p + 3] = c0 ^ kk[(p + 3) % len(kk)] ^ 0x2E
            tag = "U"
        elif kind == 7:  # beacon area masked with another single-byte key than 0x2e
            ar = bytearray(protect(cfg, key, gc, bkey=bytes([rng.choice([0x2F, 0x69, 0x00, 0xAE])])))
            tag = "U"
        c = ff(pre + bytes(ar) + post, tag, warm=intact)
        if c:
            yield c

    # ---- ff: decoy area (bad checksum) in front of the real one; marker too close to the start; truncated areas
    for di in range(72 if thorough else 12):
        if not mine():
            continue
        key = make_key(rng, rng.choice([4, 15, 30]))
        opts = rng.choice(OPT_SUBSETS)
        cfg, gc, ar = area(rng, key, opts)
        which = di % 6
        if which == 0:
            _, _, decoy = area(rng, make_key(rng, 7), rng.choice(OPT_SUBSETS), checksum_delta=7)
            pre = decoy + filler(rng, rng.choice([0, 10]))
            c = ff(pre + ar, f"R:{key.hex()}:{len(pre)}")
        elif which == 1:
            # a marker in the first 6138 bytes (beacon_config_offset would be negative), then the real area
            pos = rng.choice([0, 1, 100, 6137 - 12, 6137 - 6])
            mk = fake_marker(rng)
            pre = filler(rng, pos) + mk + filler(rng, rng.choice([0, 20]))
            c = ff(pre + ar, f"R:{key.hex()}:{len(pre)}")
        elif which == 2:
            # only an early marker: nothing to report
            pos = rng.choice([0, 5, 6131])
            c = ff(filler(rng, pos) + fake_marker(rng) + filler(rng, rng.choice([0, 1, 30])), "M")
        elif which == 3:
            # guard area cut short by EOF
            cut = rng.choice([1, 7, 20, 100, GSIZE - 30, GSIZE - 6, GSIZE - 5, GSIZE - 1])
            pre = filler(rng, rng.choice([0, 4]))
            c = ff(pre + ar[: BSIZE + GSIZE - cut], "U")
        elif which == 4:
            # unterminated guard configuration: settings fill all 2048 bytes / last setting truncated
            stored = cks(cfg) + 1
            gs = guard_settings(opts, stored, rng)
            fill = b""
            while len(gs) + len(fill) < GSIZE + 20:
                fill += enc_setting(rng.choice([5, 6, 7, 77, 300]), rng.choice([1, 2, 3, 9]), C.rbytes(rng, rng.choice([1, 2, 8, 60])))
            gcu = guard_config(gs + fill, terminate=False)
            pre = filler(rng, rng.choice([0, 33]))
            c = ff(pre + protect(cfg, key, gcu), f"R:{key.hex()}:{len(pre)}")
        else:
            # two complete areas: the first one wins
            key2 = make_key(rng, 9)
            _, _, ar2 = area(rng, key2, rng.choice(OPT_SUBSETS))
            pre = filler(rng, 3)
            c = ff(pre + ar + filler(rng, 2) + ar2, f"R:{key.hex()}:3")
        if c:
            yield c

    # ---- ff: ties between the key and another gram (most_common(2) tie rule, `count >= first_count`)
    # cfg = one header gram ++ unit × per ++ zeros: the gram `unit ^ key` is inserted before `key` and has the same count,
    # so the key is the *second* entry of most_common(2) and only yielded because of `>=`.  (Without the header gram the
    # weak checksum cannot tell the two candidates apart: moving a block by a multiple of 3 bytes keeps it.)
    # Three units: the key is third and never yielded at that length.
    for ti in range(24 if thorough else 4):
        if not mine():
            continue
        three = ti % 2 == 1
        nparts = 3 if three else 2
        L = rng.choice([n for n in range(9, 64) if (BSIZE // n - 1) % nparts == 0])
        key = make_key(rng, L, "bytes")
        per = (BSIZE // L - 1) // nparts

        def unit():
            return struct.pack(">HHH", rng.randrange(1, 60), 3, L - 6) + bytes(rng.randrange(1, 256) for _ in range(L - 6))

        cfg = unit() + b"".join(unit() * per for _ in range(nparts - 1))
        cfg = cfg + bytes(BSIZE - len(cfg))
        _, gc, ar = area(rng, key, rng.choice(OPT_SUBSETS), cfg=cfg)
        pre = filler(rng, rng.choice([0, 8]))
        c = ff(pre + ar, "U" if three else f"R:{key.hex()}:{len(pre)}")
        if c:
            yield c

    # ---- ffx: the same through an XorEncoded container (optional path `fxor = XorEncodedFile.from_file(fobj)`)
    for xi in range(48 if thorough else 5):
        if not mine():
            continue
        key = make_key(rng, rng.choice([2, 9, 15, 16, 64, 256]))
        bad = xi % 4 == 3
        cfg, gc, ar = area(rng, key, rng.choice(OPT_SUBSETS), checksum_delta=3 if bad else 0)
        pre = dos_header() + filler(rng, rng.choice([0, 1, 2, 3, 50]))
        payload = pre + ar + filler(rng, rng.choice([0, 1, 2, 3, 13]))
        if clean(payload):
            tag = "M" if bad else f"R:{key.hex()}:{len(pre)}"
            yield "ffx", f"ffx {C.hx(payload)} 8192 {tag} {C.hx(C.rbytes(rng, 4))}"
            # the same container behind a shellcode stub: every stub of 0..1023 bytes is within XorEncodedFile.from_file's default range
            # (NOP filler, so that no other offset satisfies the size relation; with and without the ff ff ff end marker)
            for sl in ([1, 300, 511, 512, 513, 1000, 1023] if xi == 0 or thorough else [rng.choice([512, 700, 1023])]):
                stub = b"\x90" * sl
                if rng.random() < 0.5 and sl >= 3:
                    stub = stub[:-3] + b"\xff\xff\xff"
                yield "ffx", f"ffx {C.hx(payload)} 8192 {tag} {C.hx(C.rbytes(rng, 4))} {C.hx(stub)}"

    # ---- ff / wb: protected areas whose marker window, beacon area or guard area straddles block boundaries
    # (a chunked re-implementation of the scan must overlap its chunks by ≥ 11 bytes and re-seek for the two big reads).
    # anchor ≡ r (mod 2^n), r ∈ {0..11} ∪ {2^n-11..2^n-1}, anchor ∈ {guard_config_offset, beacon_config_offset, end of guard area}
    def residues(n):
        return list(range(0, 12)) + list(range(2 ** n - 11, 2 ** n))

    def place(n, r, anchor, q=None):
        """length of the prefix so that the chosen anchor offset is ≡ r (mod 2^n), at least one block into the file"""
        blk = 2 ** n
        delta = {"gco": BSIZE, "bco": 0, "gend": BSIZE + GSIZE}[anchor]
        q = q if q is not None else 1
        while q * blk + r - delta < 0 or q * blk + r < blk:
            q += 1
        return q * blk + r - delta

    def big_filler(n):
        return bytes(n) if rng.random() < 0.2 else rng.randbytes(n)

    plan = []
    if thorough:
        for n in (12, 13, 16, 17, 20):
            for r in residues(n):
                for anchor in ("gco", "bco", "gend"):
                    plan.append((n, r, anchor, rng.choice([1, 1, 2, 3]) if n <= 16 else 1))
        for _ in range(40):  # other block sizes a refactoring might pick: arbitrary positions in larger files
            plan.append((0, rng.randrange(20000, 400000), "gco", 0))
    else:
        for n in (13, 16):
            for r in residues(n):
                plan.append((n, r, "gco", 1))
            for r in rng.sample(residues(n), 4):
                plan.append((n, r, rng.choice(["bco", "gend"]), 1))
        for n, cnt in ((12, 4), (17, 4), (20, 2)):
            for r in rng.sample(residues(n), cnt):
                plan.append((n, r, rng.choice(["gco", "gco", "bco", "gend"]), 1))
    for n, r, anchor, q in plan:
        if not mine():
            continue
        key = make_key(rng, rng.choice([2, 5, 11, 15, 16]), rng.choice(["host", "bytes"]))
        cfg, gc, ar = area(rng, key, rng.choice(OPT_SUBSETS), nonzero=rng.choice([60, 200, 700]))
        npre = place(n, r, anchor, q) if n else r - BSIZE
        npost = rng.choice([0, 3, 40, 5000]) if n < 20 else rng.choice([0, 9])
        c = ff(big_filler(npre) + ar + big_filler(npost), f"R:{key.hex()}:{npre}")
        if c:
            yield c

    # ---- wb: several areas and decoy markers, each sitting on a block boundary (all records are observed)
    for mi in range(30 if thorough else 4):
        if not mine():
            continue
        n = rng.choice([13, 16] if not thorough else [12, 13, 16, 16, 17])
        blk = 2 ** n
        rs = residues(n)
        key1, key2 = make_key(rng, rng.choice([4, 15]), "host"), make_key(rng, 9, "bytes")
        _, _, ar1 = area(rng, key1, rng.choice(OPT_SUBSETS), nonzero=200, checksum_delta=rng.choice([0, 0, 4]))
        _, _, ar2 = area(rng, key2, rng.choice(OPT_SUBSETS), nonzero=60)
        buf = bytearray()

        def pad_to(off):
            assert off >= len(buf), (off, len(buf))
            buf.extend(big_filler(off - len(buf)))

        def boundary(delta, gap=0):
            """smallest offset ≥ len(buf) + gap of the form q·2^n + r − delta, r a boundary residue, q ≥ 1"""
            r = rng.choice(rs)
            q = 1
            while q * blk + r - delta < len(buf) + gap:
                q += 1
            return q * blk + r - delta

        # decoy marker (12 bytes, marker relation holds, garbage behind it) with its guard offset on a boundary residue
        pad_to(boundary(6) if rng.random() < 0.8 else 100)
        buf.extend(fake_marker(rng))
        # first area: guard_config_offset on a boundary residue of a later block
        pad_to(boundary(BSIZE))
        buf.extend(ar1)
        # decoy directly behind, then the second area on another boundary
        buf.extend(big_filler(rng.choice([0, 1, 7])))
        buf.extend(fake_marker(rng))
        pad_to(boundary(rng.choice([BSIZE, 0, BSIZE + GSIZE])))
        buf.extend(ar2)
        buf.extend(big_filler(rng.choice([0, 12, 300])))
        if rng.random() < 0.5:
            pad_to(boundary(6))
            buf.extend(fake_marker(rng))
            buf.extend(big_filler(rng.choice([0, 5, 2100])))
        payload = bytes(buf)
        if clean(payload):
            yield "wb", f"wb {C.hx(payload)} 8192"
            yield "ff", f"ff {C.hx(payload)} 8192 U"

    # ---- ff: configurations whose zero padding does not dominate (recovery not promised; correspondence only)
    for _ in range((24 if thorough else 4) // 1):
        if not mine():
            continue
        key = make_key(rng, rng.choice([2, 6, 16, 40]))
        nz = rng.choice([3500, 4500, 5800, 6100])
        cfg, gc, ar = area(rng, key, rng.choice(OPT_SUBSETS), nonzero=nz)
        c = ff(ar, "U")
        if c:
            yield c

    # ---- wb: other buffer sizes (chunk-wise zero fill of the last gram)
    for bi, buf in enumerate([8192, 6144, 6143, 4096, 1000, 777, 100] if thorough else [8192, 4096, 777]):
        for rep in range(3 if thorough else 1):
            if not mine():
                continue
            key = make_key(rng, rng.choice([2, 7, 15, 16, 50]))
            cfg, gc, ar = area(rng, key, rng.choice(OPT_SUBSETS))
            pre = filler(rng, rng.choice([0, 2]))
            yield "wb", f"wb {C.hx(pre + ar + filler(rng, rng.choice([0, 6])))} {buf}"

    # ---- scan: crafted small payloads, other xor keys, short blocks at EOF, unknown options
    nscan = 320 if thorough else 40
    for si in range(nscan):
        if not mine():
            continue
        gkey = [b"\x8a", b"\x8a", b"\x8a", b"\x00", b"", b"\x8a\x8b", b"\x01\x02\x03\x04\x05\x06\x07", b"\xff"][si % 8]
        yield "scan", f"scan {C.hx(scan_payload(rng, si, gkey))} {C.hx(gkey)}"

    # ---- cands: small alphabets (ties), sizes around chunk boundaries
    ncand = 600 if thorough else 60
    for ci in range(ncand):
        if not mine():
            continue
        n = rng.choice([0, 1, 2, 3, 4, 5, 6, 7, 8, 9, 12, 16, 31, 64, 255, 256, 257, 511, 512, 513, 700])
        alpha = rng.choice([b"\x00\x01", b"\x00\x01", b"ab", b"\x00ab", b"abc\x00", bytes(range(256))])
        d = bytes(rng.choice(alpha) for _ in range(n))
        if ci % 5 == 0 and n >= 8:
            # periodic data with noise
            p = rng.choice([2, 3, 4, 6])
            unit = bytes(rng.choice(alpha) for _ in range(p))
            d = bytearray((unit * (n // p + 1))[:n])
            for _ in range(rng.randrange(0, 4)):
                d[rng.randrange(n)] = rng.choice(alpha)
            d = bytes(d)
        buf = rng.choice([8192, 8192, 1, 2, 3, 5, 7, 16, 100, 256, 512])
        if buf < 16 and n > 64:
            buf = rng.choice([16, 100, 256])  # tiny chunks on long data only cost time (255 key lengths × n/buf reads)
        yield "cands", f"cands {C.hx(d)} {buf}"
    for _ in range(6 if thorough else 2):
        if not mine():
            continue
        cfg, _ = make_cfg(rng)
        yield "cands", f"cands {C.hx(bx(cfg, make_key(rng, rng.randrange(2, 257))))} {rng.choice([8192, 4096])}"

    # ---- cks
    for ci in range(400 if thorough else 40):
        if not mine():
            continue
        n = rng.choice([0, 1, 2, 3, 4, 5, 6, 7, 100, 1000, 6144])
        yield "cks", f"cks {C.hx(C.rbytes(rng, n))}"
        if n <= 3000:
            yield "g-cks", f"gcks {C.hx(C.rbytes(rng, n))}"
    if mine():
        yield "cks", f"cks {C.hx(bytes([255]) * 140000)}"  # exercises the modulus 99999999
    if mine():
        yield "cks", f"cks {C.hx(bytes([255, 254, 253]) * 50000)}"


def fake_marker(rng, gkey=b"\x8a", short_b=None):
    """12 bytes a ++ b with xor(reverse(a), b) a known (masked) start"""
    s = bx(rng.choice(STARTS), gkey)
    a = C.rbytes(rng, 6)
    b = bytes(x ^ y for x, y in zip(a[::-1], s))
    return a + b


def scan_payload(rng, si, gkey):
    """payloads for the low-level scan: a guard config behind 6144 bytes of (random or zero) 'beacon' bytes"""
    mode = si % 10
    mb = C.rbytes(rng, BSIZE) if rng.random() < 0.7 else bytes(BSIZE)
    if mode in (0, 1, 2, 3):
        # ordinary guard configs with assorted settings, optional unknown option/type values
        gs = b""
        for _ in range(rng.randrange(1, 6)):
            gs += enc_setting(rng.choice([5, 6, 7, 8, 9, 9, 0x4D, 0x100, 0xFFFF]), rng.choice([0, 1, 2, 3, 9]),
                              C.rbytes(rng, rng.choice([0, 1, 2, 3, 4, 5, 8])))
        first = rng.choice(STARTS)
        n = int.from_bytes(first[4:6], "big")
        gs = first + C.rbytes(rng, n) + gs
        term = mode != 3
        gc = guard_config(gs, C.rbytes(rng, GSIZE) if mode != 2 else b"", terminate=term)
        if mode == 3:
            # last setting's declared length runs past the end of the 2048 bytes
            body = gs
            while len(body) < GSIZE - 40:
                body += enc_setting(5, 1, C.rbytes(rng, 30))
            body += struct.pack(">HHH", 6, 1, 500) + C.rbytes(rng, GSIZE)
            gc = body[:GSIZE]
        mg = bytes(a ^ b for a, b in zip(bx(gc, gkey), mb[::-1]))
        pre = C.rbytes(rng, rng.choice([0, 0, 1, 9]))
        return pre + mb + mg + C.rbytes(rng, rng.choice([0, 0, 5]))
    if mode == 4:
        # short block at EOF: b has j < 6 bytes, xor tiles it over reverse(a)
        j = rng.randrange(0, 6)
        s = bx(rng.choice(STARTS), gkey)
        b = C.rbytes(rng, j)
        if not any(b):
            ra = s
        else:
            ra = bytes(x ^ b[i % j] for i, x in enumerate(s))
        a = ra[::-1]
        body = mb[:-6] + a + b
        return C.rbytes(rng, rng.choice([0, 2])) + body
    if mode == 5:
        # markers too close to the start, and one exactly at the first admissible offset
        pos = rng.choice([0, 1, 6131, 6132, 6137, 6138, 6139])
        p = bytearray(C.rbytes(rng, pos) + fake_marker(rng, gkey) + C.rbytes(rng, rng.choice([0, 10, 3000])))
        return bytes(p)
    if mode == 6:
        # tiny payloads
        return C.rbytes(rng, rng.choice([0, 1, 5, 6, 11, 12, 13, 40]))
    if mode == 7:
        # several overlapping / adjacent markers after a long prefix
        p = C.rbytes(rng, 6138) + fake_marker(rng, gkey) + fake_marker(rng, gkey) + C.rbytes(rng, 3) + fake_marker(rng, gkey)
        return p + C.rbytes(rng, rng.choice([0, 100, 2500]))
    if mode == 8:
        # guard config that is all zero / starts with the terminator after the first setting
        first = rng.choice(STARTS)
        n = int.from_bytes(first[4:6], "big")
        gc = guard_config(first + C.rbytes(rng, n), b"")
        mg = bytes(a ^ b for a, b in zip(bx(gc, gkey), mb[::-1]))
        cut = rng.choice([0, 0, GSIZE - 8, GSIZE - 9, GSIZE - 7, 100])
        return mb + (mg[:-cut] if cut else mg)
    # mode 9: all-zero beacon area: reverse key is all zero → utils.xor returns the data unchanged
    mb = bytes(BSIZE)
    gs = rng.choice(STARTS)
    n = int.from_bytes(gs[4:6], "big")
    gc = guard_config(gs + C.rbytes(rng, n) + enc_setting(9, 2, C.rbytes(rng, 4)), C.rbytes(rng, 64))
    return mb + bx(gc, gkey)


# --------------------------------------------------------------------------------------
# extra checks: the builder is validated against the real protected sample
# --------------------------------------------------------------------------------------

SAMPLE = "124552cf674b362e0c916ab79b9e7a56.bin"


def load_sample(repo: Path):
    z = repo / "tests" / "beacons" / (SAMPLE + ".zip")
    with zipfile.ZipFile(z) as zf:
        return zf.read(SAMPLE, pwd=b"dissect.cobaltstrike")


def extra_checks(tier, rng, lean):
    """1. the real sample decodes; 2. the independent builder reproduces the sample's masked bytes from the recovered
    (config, key, guard config); 3. model and implementation agree on the trimmed sample."""
    import os
    import sys

    sys.path.insert(0, str(Path(__file__).resolve().parent.parent))
    import check

    repo = Path(os.environ.get("VERIF_REPO", "/repo"))
    data = load_sample(Path("/repo") if not (repo / "tests" / "beacons" / (SAMPLE + ".zip")).exists() else repo)
    out = []
    try:
        bc = BeaconConfig.from_bytes(data)
        m = bc.guardrails
        ok = (m is not None and m.payload_xor_key == b"desktop-r4vgq8o" and m.checksum == 0xA5AD1
              and cks(m.unmasked_beacon_config) + 1 == m.checksum)
        if ok:
            rebuilt = protect(m.unmasked_beacon_config, m.payload_xor_key, m.unmasked_guard_config)
            ok = rebuilt == data[m.beacon_config_offset: m.beacon_config_offset + BSIZE + GSIZE]
            gs = guard_settings({6}, m.checksum, vals={6: m.settings[0].value})
            ok = ok and m.unmasked_guard_config.startswith(gs + b"\x00\x00")
    except Exception as e:  # noqa: BLE001
        ok = False
        m = None
    if not ok:
        out.append({"stream": "ff", "line": "real-sample " + SAMPLE, "impl": "sample not decoded / builder mismatch",
                    "model": "decodes with key desktop-r4vgq8o", "oracle_failed": True})
        return out
    # trimmed sample through the model
    lo = m.beacon_config_offset - 40
    trimmed = data[lo: m.guard_config_offset + GSIZE + 25]
    line = f"ff {C.hx(trimmed)} 8192 R:{m.payload_xor_key.hex()}:40"
    io_ = check.call_impl(sys.modules[__name__], "ff", line)
    if lean.get("driver_ok"):
        mo = check.run_driver(DRIVER, [line])[0]
        if mo != io_ or oracle("ff", line, io_) is not True:
            out.append({"stream": "ff", "line": line, "impl": io_, "model": mo, "oracle_failed": oracle("ff", line, io_) is False})
    return out

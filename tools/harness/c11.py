"""C11 — the dictionary view reports exactly what the profile says.

Abstract profiles are generated over the GENERATED grammar table (tools/gen/grammar.py) and realised both as source
text and as block-builder call sequences; the real library (`C2Profile.from_text`, the builder classes, `as_dict`,
`properties`, `as_text`) is compared with the compiled Lean model (`drv_c11`).

streams
  src    generated sentences -> from_text(src).as_dict()                          (property; oracle = own walker)
  both   one abstract profile as text AND as builder calls: tree, text, dictionary  (property; oracle = own walker)
  hist   modify / access interleavings on ONE profile object                       (property; oracle = fresh profile)
  build  arbitrary builder call sequences (odd names, backslashes, comment_dns_resolver, special constructors)
  tree   arbitrary / mutated / hand-made trees through as_dict                     (correspondence only)
  walk   arbitrary item lists through the token walk of as_dict                    (correspondence only)
  v2s    value_to_string on str / bytes                                            (correspondence only)
  g-walk g-src g-tree g-hist   every case of these streams once more, run through the definitions TRANSLATED from the source of
         `C2Profile.as_dict` (tools/gen/py_c2dict.py -> Gen/PyC2Dict.lean: the token walk and the cache around it) and of
         `string_token_to_bytes` (Gen/PyC2Prof.lean); Props/C11Gen.lean proves them equal to the model for ALL item lists / states
  g-arg  `garg dict VALUE`     the translated `as_dict` with the Reconstructor answering a value of any kind
  pyu    `pyu OP OPERANDS`     the run-time operations added for this unit (Model/PyU_T11.lean) vs CPython / lark
"""
from __future__ import annotations

import copy
import zlib
import json
import re
from pathlib import Path

import lark
from lark import Token, Tree
from lark.reconstruct import Reconstructor

from dissect.cobaltstrike import c2profile as c2p
from dissect.cobaltstrike.c2profile import C2Profile, c2profile_parser

from gen import profile_api as PA

from . import common as C
from . import c10 as H10
from . import pyuval_t11
from .c10 import TAB, KW, NAMES, NAMEID, FORMS_OF, UNLEXABLE, hx, unhx, enc_tree, render, gen_literal

ID = "C11"
DRIVER = "drv_c11"
GEN = ["grammar", "profile_api", "strlit"]
GEN += ["c16_unicode", "py_c2prof", "py_c2dict"]
EXTRA_PROP_FILES = ["Props/C11Gen.lean"]
STREAMS = {
    "src": {"relevant": True, "desc": "C2Profile.from_text(src).as_dict() vs asDict (printItems (parse src)) and specDict"},
    "both": {"relevant": True, "desc": "the same abstract profile as text and as builder calls: tree / as_text / as_dict equal"},
    "hist": {"relevant": True, "desc": "modify/access histories on one C2Profile object (as_dict, properties) vs runHist"},
    "build": {"relevant": False, "desc": "arbitrary builder call sequences: tree, as_dict outcome, as_text, re-parse"},
    "tree": {"relevant": False, "desc": "as_dict on arbitrary trees (mutated, hand-made), incl. the exceptions it raises"},
    "walk": {"relevant": False, "desc": "the token walk of as_dict on arbitrary item lists (Reconstructor stubbed)"},
    "v2s": {"relevant": False, "desc": "value_to_string(str|bytes) vs valueToString"},
    **{"g-" + s_: {"relevant": False, "desc": f"C2Profile.as_dict TRANSLATED from its source (Gen/PyC2Dict.lean: as_dict_walk / as_dict, with the "
                                               f"translated string_token_to_bytes) on every case of the stream `{s_}`"}
       for s_ in ("walk", "src", "tree", "hist")},
    "g-build": {"relevant": False, "desc": "the builder calls of the stream `build` run through the TRANSLATED methods (ConfigBlock.set_option / "
                                           "_pair / _enable / _header / _parameter / set_config_block / set_non_empty_config_block, "
                                           "C2Profile.set_option, DataTransformBlock.__init__ / add_step / add_termination / tree, the bodies of "
                                           "from_execute_list / from_beacon_gate_option_strings): the tree"},
    "g-arg": {"relevant": False, "desc": "the translated as_dict vs the real one with the Reconstructor answering values of every kind"},
    "pyu": {"relevant": False, "desc": "run-time operations of Model/PyU_T11.lean (Token as str in ==, in, join, str, tuple, repr; list.pop / "
                                       "extend; defaultdict(list)) vs CPython / lark"},
}
TRUSTED = [
    "tools/py2leanu.py + tools/gen/py_c2dict.py (the untyped translation of C2Profile.as_dict: the cut into walk and cache, the "
    "self-mode threading of the profile object) and lean/CsVerif/Model/PyU.lean / PyU_T12.lean / PyU_T11.lean (the Python semantics of "
    "the operations it emits); validated by the g-* and pyu streams",
    "tools/gen/profile_api.py (ast/introspection of as_dict's constants and of the builder classes), tools/gen/grammar.py, "
    "tools/harness/c11.py (generators, adapters, the independent walker used as oracle)",
    "lark.reconstruct.Reconstructor is modelled by C10.printTree (compared on every case, not verified); Lark's LALR "
    "parser by C10.parseText; Lark's Tree.__hash__/__eq__ by an injective hash (stated assumption of dict_tracks_modification)",
    "string_token_to_bytes is C12's model (stringTokenToBytesCP); Python str/list/dict/defaultdict semantics of the walk "
    "(`in` on str = substring test, Token is a str subclass, list.pop, slices) are modelled, not verified",
]
ASSUMPTIONS = [
    "Lark's tree hash has no collision between the trees of one history (Token hashes as its text: trees that differ only "
    "in a token TYPE do collide and are not generated in the hist stream)",
    "the dictionary returned by as_dict() is not mutated by the caller (it is the cache object itself)",
    "builder names are ASCII; values are str or bytes; keyword arguments named like ConfigBlock methods "
    "(set_option=…, init_kwargs=…) and block objects where values are expected are outside the modelled domain",
    "profile text is a sequence of Unicode code points without lone surrogates",
    "translation of as_dict / the builders (Props/C11Gen.lean): the Reconstructor's generator is taken to be run to its end before "
    "the walk starts (an exception it raises half-way hides what the walk did before); an exception inside as_dict() leaves the "
    "profile object as it was (every attribute assignment of the method comes after the last raising operation); a block object is "
    "not changed after it was attached by set_config_block (the real code shares the children list, the translation copies it); "
    "names handed to from_beacon_gate_option_strings / from_execute_list are ASCII (str.lower() is modelled for ASCII only); a "
    "lark.Token carries a str value",
]
RULE = ("every statement/block form of the generated grammar in a minimal context, every block with/without variant incl. "
        "\"default\", empty and repeated blocks, list-property blocks with nasty byte literals, random profiles; each also as "
        "builder calls (kwargs and explicit methods, special constructors); histories of 3-8 operations; distinct = hash of "
        "input line; non-trivial = a non-empty dictionary or an exception outcome")

# The builder-API tables.  When the plug-in cannot read a part of the API from the code under test (an unexpected shape: that is a
# broken proof obligation, reported by check.py through the plug-in's failure), the generators fall back to the committed tables
# of the pinned tree (corpus/C11/reference_api.json, written by `python -m harness.c11 --write-reference`): the builder calls the
# pinned API defines are then still made against the real classes, so the behavioural difference itself is found.
REFERENCE_API = Path(__file__).resolve().parent.parent.parent / "corpus" / "C11" / "reference_api.json"


def _load_api():
    try:
        return PA.load(strict=False)
    except Exception:  # noqa: BLE001
        pass
    ref = json.loads(REFERENCE_API.read_text())
    mod = c2p
    out = {}
    try:
        out["listProps"], out["asDictStrings"] = PA.list_props(mod)
    except Exception:  # noqa: BLE001
        out["listProps"], out["asDictStrings"] = [], []
    for key, fn in (("classes", PA.classes), ("dt", PA.dt_tables), ("execute", PA.execute_tables)):
        try:
            out[key] = fn(mod)
        except Exception:  # noqa: BLE001
            out[key] = ref[key]
    return out


API = _load_api()
CLASSES = [c for c in API["classes"] if hasattr(c2p, c[0])]
CLS_IDX = {name: i for i, (name, _tn, _a) in enumerate(CLASSES)}
CLS_ATTRS = {name: dict(attrs) for name, _tn, attrs in CLASSES}
CLS_OBJ = {name: getattr(c2p, name) for name, _tn, _a in CLASSES}
BY_TREENAME = {}
for _n, _tn, _a in CLASSES:
    BY_TREENAME.setdefault(_tn, _n)

# the nine list-valued keys the property talks about (independent copy: NOT read from the code under test)
LIST_PROPS_EXPECTED = [
    "stage.transform-x86.header", "process-inject.transform-x86", "process-inject.execute", "http-post.server.output",
    "http-post.client.id", "http-post.client.output", "http-stager.server.output", "http-get.client.metadata",
    "http-get.server.output",
]
KNOWN_ID = "C11-comment-dns-resolver"
try:
    _KF = json.loads((Path(__file__).resolve().parent.parent.parent / "known_findings.json").read_text())
    KNOWN_LISTED = any(k.get("id") == KNOWN_ID and k.get("status") == "known" for k in _KF.get("findings", []))
except Exception:  # noqa: BLE001
    KNOWN_LISTED = False

STRING_T = NAMEID["STRING"]
OPTION_T = NAMEID["OPTION"]
STRING_N = NAMEID["string"]
VARIANT_N = NAMEID["variant"]


# ------------------------------------------------------------------------------------------------------
# shapes of the forms (python mirror, only used to GENERATE; the Lean side has its own classification)
# ------------------------------------------------------------------------------------------------------

def shape(f):
    items = f.lean_items()
    kinds = [k for k, _ in items]
    if "star" in kinds and any(k == "kw" and KW[a] == "{" for k, a in items):
        return "block"
    if items and items[-1][0] == "kw" and KW[items[-1][1]] == ";":
        return "stmt"
    if kinds == ["tok"] or (kinds == ["nt"] and items[0][1] in (STRING_N,)):
        return "leaf"
    return "seq"


def stmt_kws(f):
    return [KW[a] for k, a in f.lean_items() if k == "kw" and KW[a] not in ("set", ";")]


def stmt_nargs(f):
    return sum(1 for k, a in f.lean_items() if k in ("nt", "tok"))


def label_name(f):
    return NAMES[TAB.label(f)]


def body_nt(f):
    return next(a for k, a in f.lean_items() if k == "star")


def has_variant(f):
    return any(k == "opt" for k, _ in f.lean_items())


STMT_FORMS = [f for f in TAB.forms if shape(f) == "stmt"]
BLOCK_FORMS = [f for f in TAB.forms if shape(f) == "block"]


# ------------------------------------------------------------------------------------------------------
# values and literals
# ------------------------------------------------------------------------------------------------------

SAFE = "abcXYZ019 _-./:=+*()[]<>,!?@$%^&|~`'#;{}"


def enc_bytes_literal(b: bytes) -> str:
    """independent rendering of a bytes value as a STRING literal (the documented escapes)"""
    out = ['"']
    for c in b:
        if c == 0x22:
            out.append('\\"')
        elif c == 0x5C:
            out.append("\\\\")
        elif c == 9:
            out.append("\\t")
        elif c == 10:
            out.append("\\n")
        elif c == 13:
            out.append("\\r")
        elif c < 0x20 or c >= 0x7F:
            out.append("\\x%02x" % c)
        else:
            out.append(chr(c))
    out.append('"')
    return "".join(out)


class Val:
    """a STRING argument: kind str / bytes (usable with the builder) or raw (literal text only)"""

    def __init__(self, kind, v):
        self.kind, self.v = kind, v

    def literal(self) -> str:
        if self.kind == "raw":
            return self.v
        if self.kind == "bytes":
            return enc_bytes_literal(self.v)
        return '"' + self.v.replace('"', '\\"') + '"'

    def word(self) -> str:
        if self.kind == "bytes":
            return "b" + C.hx(self.v)
        return "s" + hx(self.v)

    def py(self):
        return self.v


NASTY_BYTES = [b'"', b"\\", b"'", b"\n", b"\r", b"\t", b"\x00", b"\xff", b"\x7f", b"\x80", b";", b"{", b"}", b"#", b"\\x41", b'\\"', b"set", b" "]


def gen_val(rng, raw_ok=False, nasty=0.3) -> Val:
    r = rng.random()
    if raw_ok and r < 0.4:
        return Val("raw", gen_literal(rng, nasty))
    if r < 0.7:
        n = rng.choice([0, 1, 1, 2, 3, 5, 8])
        s = "".join(rng.choice(SAFE) if rng.random() > 0.15 else rng.choice(['"', "é", "ı", "日", "'", "default"]) for _ in range(n))
        if rng.random() < 0.03:
            s = "default"
        return Val("str", s)
    n = rng.choice([0, 1, 1, 2, 3, 5, 8])
    b = b"".join(rng.choice(NASTY_BYTES) if rng.random() < nasty else bytes([rng.randrange(256)]) for _ in range(n))
    return Val("bytes", b)


# ------------------------------------------------------------------------------------------------------
# abstract profiles:  ("stmt", form, [args])  args: Val, or ("OPTION", text) for the global option
#                     ("block", form, variant Val|None, [nodes])     ("seq", form, [nodes])
# ------------------------------------------------------------------------------------------------------

class AGen:
    def __init__(self, rng, raw_ok=False, star_max=3, nasty=0.3, one_dt=False):
        self.rng, self.raw_ok, self.star_max, self.nasty, self.one_dt = rng, raw_ok, star_max, nasty, one_dt

    def forms(self, n):
        return [f for f in FORMS_OF[n] if f.id not in UNLEXABLE]

    def val(self):
        return gen_val(self.rng, self.raw_ok, self.nasty)

    def variant(self):
        r = self.rng.random()
        if r < 0.3:
            return Val("str", "default")
        if r < 0.4 and self.raw_ok:
            return Val("raw", '"default"')
        return self.val()

    def node(self, f, depth, body=None):
        sh = shape(f)
        if sh == "stmt":
            args = []
            for k, a in f.lean_items():
                if k == "tok" and a == OPTION_T:
                    args.append(("OPTION", self.rng.choice(TAB.option_alts)))
                elif k in ("tok", "nt"):
                    args.append(self.val())
            return ("stmt", f, args)
        if sh == "block":
            v = self.variant() if has_variant(f) and self.rng.random() < 0.5 else None
            if body is None:
                body = self.star(body_nt(f), depth)
            return ("block", f, v, body)
        if sh == "seq":
            kids = []
            for k, a in f.lean_items():
                if k == "nt":
                    kids.append(self.nt(a, depth))
                elif k == "star":
                    kids += self.star(a, depth)
            return ("seq", f, kids)
        raise RuntimeError("unexpected form shape")

    def nt(self, n, depth):
        fs = self.forms(n)
        if depth <= 0:
            fs = [f for f in fs if shape(f) != "block"] or fs
        return self.node(self.rng.choice(fs), depth - (1 if depth > 0 else 0))

    def star(self, n, depth):
        r = self.rng.random()
        if self.one_dt and NAMES[n] == "data_transform":
            cnt = 1
        elif depth <= 0:
            cnt = 0 if r < 0.4 else self.rng.randint(1, 2)
        else:
            cnt = 0 if r < 0.12 else self.rng.randint(1, self.star_max)
        out = []
        for _ in range(cnt):
            nd = self.nt(n, depth)
            out.append(nd)
            # repeated pair statements (two `header "Cookie" …;` lines): same form, sometimes the same first argument
            if nd[0] == "stmt" and len(nd[2]) == 2 and not isinstance(nd[2][0], tuple) and self.rng.random() < 0.35:
                for _k in range(self.rng.choice([1, 1, 2])):
                    first = nd[2][0] if self.rng.random() < 0.6 else self.val()
                    out.append(("stmt", nd[1], [first, self.val()]))
        return out

    def cover(self, f, depth=1):
        """a profile (list of top-level nodes) that uses form f"""
        node = self.node(f, depth)
        cur = f
        while cur.origin != TAB.start:
            cands = [(g, i) for g, i in H10.PARENTS[cur.origin] if g.id not in UNLEXABLE]
            g, i = self.rng.choice(cands)
            items = g.lean_items()
            sh = shape(g)
            if sh == "block":
                pre = self.star(body_nt(g), 0) if self.rng.random() < 0.4 and not self.one_dt_block(g) else []
                post = self.star(body_nt(g), 0) if self.rng.random() < 0.4 and not self.one_dt_block(g) else []
                node = ("block", g, self.variant() if has_variant(g) and self.rng.random() < 0.4 else None, pre + [node] + post)
            elif sh == "seq":
                kids = []
                for j, (k, a) in enumerate(items):
                    if j == i:
                        kids.append(node)
                    elif k == "nt":
                        kids.append(self.nt(a, 0))
                    elif k == "star" and self.rng.random() < 0.5:
                        kids += self.star(a, 0)
                node = ("seq", g, kids)
            else:
                raise RuntimeError("statement as parent")
            cur = g
        if node[0] == "seq" and node[1].origin == TAB.start:
            return node[2]
        return [node]

    def one_dt_block(self, g):
        return self.one_dt and NAMES[body_nt(g)] == "data_transform"


def toks_of(nodes):
    out = []
    for nd in nodes:
        if nd[0] == "stmt":
            _, f, args = nd
            ai = 0
            for k, a in f.lean_items():
                if k == "kw":
                    out.append(("kw", KW[a]))
                else:
                    x = args[ai]
                    ai += 1
                    out.append(("OPTION", x[1]) if isinstance(x, tuple) else ("STRING", x.literal()))
        elif nd[0] == "block":
            _, f, v, body = nd
            for k, a in f.lean_items():
                if k == "kw":
                    out.append(("kw", KW[a]))
                elif k == "opt" and v is not None:
                    out.append(("STRING", v.literal()))
                elif k == "star":
                    out += toks_of(body)
        else:
            out += toks_of(nd[2])
    return out


# ------------------------------------------------------------------------------------------------------
# the independent oracle: a recursive-descent walker over the SOURCE
# ------------------------------------------------------------------------------------------------------

_TOKRE = re.compile(r'"(?:.|\n)*?(?<!\\)(?:\\\\)*?"|#[^\n]*|[{};]|[^\s{};"#]+', re.S)
_HEX = "0123456789abcdefABCDEF"


class NotApplicable(Exception):
    pass


def decode_literal(lit: str) -> bytes:
    """bytes denoted by a STRING literal (documented escapes; characters are reduced to their low byte)"""
    body = lit[1:-1]
    out = []
    i = 0
    while i < len(body):
        c = body[i]
        if c == "\\" and i + 1 < len(body):
            n = body[i + 1]
            if n == "x":
                h = body[i + 2:i + 4]
                if len(h) < 2 or any(ch not in _HEX for ch in h):
                    raise NotApplicable
                out.append(int(h, 16))
                i += 4
            elif n == "u":
                h = body[i + 2:i + 6]
                if len(h) < 4 or any(ch not in _HEX for ch in h[2:]):
                    raise NotApplicable
                out.append(int(h[2:], 16))
                i += 6
            else:
                m = {"n": 10, "r": 13, "t": 9, "\\": 0x5C, '"': 0x22, "'": 0x27}
                if n in m:
                    out.append(m[n])
                i += 2
        else:
            out.append(ord(c) & 0xFF)
            i += 1
    return bytes(out)


def walk_source(src: str):
    """expected dictionary as an ordered list [(key, [values])]; values: str | bytes | tuple"""
    toks = [t for t in _TOKRE.findall(src) if not t.startswith("#")]
    pos = 0
    entries = []

    def unq(w):
        return w[1:-1] if w.startswith('"') else w

    def statement(path, words):
        if words and words[0] == "set":
            words = words[1:]
        if not words:
            raise NotApplicable
        key = ".".join(path)
        if key in LIST_PROPS_EXPECTED:
            vals = tuple(decode_literal(w) if w.startswith('"') else w for w in words)
            entries.append((key, vals[0] if len(vals) == 1 else vals))
        elif len(words) > 2:
            if not all(w.startswith('"') for w in words[-2:]):
                raise NotApplicable
            entries.append((".".join(path + words[:-2]), (unq(words[-2]), unq(words[-1]))))
        else:
            entries.append((".".join(path + words[:-1]), unq(words[-1])))

    def block(path, top):
        nonlocal pos
        while pos < len(toks) and toks[pos] != "}":
            words = []
            while pos < len(toks) and toks[pos] not in (";", "{", "}"):
                words.append(toks[pos])
                pos += 1
            if pos >= len(toks) or toks[pos] == "}":
                raise NotApplicable
            if toks[pos] == "{":
                pos += 1
                if not words or len(words) > 2:
                    raise NotApplicable
                inner = path + [words[0]] + ([words[1]] if len(words) == 2 and words[1] != '"default"' else [])
                block(inner, False)
                if pos >= len(toks) or toks[pos] != "}":
                    raise NotApplicable
                pos += 1
            else:
                pos += 1
                statement(path, words)
        if top and pos < len(toks):
            raise NotApplicable

    block([], True)
    d = {}
    for k, v in entries:
        d.setdefault(k, []).append(v)
    return list(d.items())


# ------------------------------------------------------------------------------------------------------
# rendering of dictionaries / outcomes
# ------------------------------------------------------------------------------------------------------

def show_atom(a) -> str:
    if isinstance(a, Token):
        return "T" + hx(str(a))
    if isinstance(a, str):
        return "s" + hx(a)
    if isinstance(a, (bytes, bytearray)):
        return "b" + C.hx(bytes(a))
    raise RuntimeError(f"unexpected value component {type(a).__name__}")


def show_value(v) -> list:
    if isinstance(v, tuple):
        return [f"t{len(v)}"] + [show_atom(a) for a in v]
    return [show_atom(v)]


def show_dict(items) -> str:
    out = ["ok"]
    for k, vs in items:
        out.append(f"K{hx(str(k))}:{len(vs)}")
        for v in vs:
            out += show_value(v)
    return " ".join(out)


_LARK_ERRS = (lark.exceptions.LarkError, AssertionError, StopIteration, RuntimeError, KeyError)


def printable(tree) -> bool:
    try:
        list(Reconstructor(c2profile_parser)._reconstruct(tree))
        return True
    except _LARK_ERRS:
        return False


def outcome(prof) -> str:
    """as_dict() of a profile object: `none` when the Reconstructor cannot print the tree (whatever the walk did with
    the items it got before), else the dictionary or the exception of the walk"""
    try:
        d = prof.as_dict()
    except _LARK_ERRS:
        return "none"
    except Exception as e:  # noqa: BLE001
        if not printable(prof.tree):
            return "none"
        from check import canon_exc
        return "exc " + canon_exc(e)
    return show_dict(list(d.items()))


# ------------------------------------------------------------------------------------------------------
# builder calls: encoding and execution
# ------------------------------------------------------------------------------------------------------

def nm(s: str) -> str:
    return hx(s)


def run_calls(obj, words, pos, cls=None):
    """execute an encoded call list on `obj` (or, with `cls`, on the object `cls(**leading keyword group)` constructs); returns the
    new position (after the closing E) - and the object when `cls` was given.  Consecutive keyword-argument words with distinct
    names are ONE call `init_kwargs(a=…, b=…, c=…)` (a leading group goes through the constructor itself): the statements must
    appear in argument order whatever kinds of values (plain, pairs, nested blocks) are mixed in the call."""
    pending = {}

    def flush():
        nonlocal obj
        if obj is None:
            obj = cls(**pending)
        elif pending:
            obj.init_kwargs(**pending)
        pending.clear()

    def kw(name, value):
        if name in pending:
            flush()
        pending[name] = value

    while True:
        w = words[pos]
        pos += 1
        if w == "E":
            flush()
            return pos if cls is None else (obj, pos)
        f = w.split(":")
        op = f[0]
        if op not in ("kv", "kp", "kb"):
            flush()
        if op == "kv":
            kw(unhx(f[1]), dec_val(f[2]))
        elif op == "so":
            obj.set_option(unhx(f[1]), dec_val(f[2]))
        elif op == "en":
            obj._enable(unhx(f[1]), True)
        elif op in ("kp", "pr", "hd", "pm"):
            n = int(f[2] if op in ("kp", "pr") else f[1])
            vals = [dec_val(x) for x in words[pos:pos + 2 * n]]
            pos += 2 * n
            ps = [(vals[2 * i], vals[2 * i + 1]) for i in range(n)]
            if op == "kp":
                kw(unhx(f[1]), ps)
            elif op == "pr":
                obj._pair(unhx(f[1]), ps)
            elif op == "hd":
                obj._header("header", ps)
            else:
                obj._parameter("parameter", ps)
        elif op in ("kb", "cb", "ne"):
            blk, pos = run_block(words, pos)
            if op == "kb":
                kw(unhx(f[1]), blk)
            elif op == "cb":
                obj.set_config_block(unhx(f[1]), blk)
            else:
                obj.set_non_empty_config_block(unhx(f[1]), blk)
        else:
            raise RuntimeError("bad call word " + w)


def run_block(words, pos):
    w = words[pos]
    pos += 1
    if w[0] == "C":
        name = CLASSES[int(w[1:])][0]
        return run_calls(None, words, pos, cls=CLS_OBJ[name])
    n = int(w[2:])
    items = words[pos:pos + n]
    pos += n
    if w.startswith("DT"):
        steps = []
        for it in items:
            f = it.split(":")
            steps.append(unhx(f[1]) if f[0] == "sb" else (unhx(f[1]), dec_val(f[2])))
        return c2p.DataTransformBlock(steps=steps), pos
    if w.startswith("EX"):
        xs = []
        for it in items:
            f = it.split(":")
            xs.append(unhx(f[1]) if f[0] == "xb" else (unhx(f[1]), dec_val(f[2])))
        return c2p.ExecuteOptionsBlock.from_execute_list(xs), pos
    if w.startswith("GT"):
        return c2p.BeaconGateBlock.from_beacon_gate_option_strings([unhx(it.split(":")[1]) for it in items]), pos
    raise RuntimeError("bad block word " + w)


def dec_val(w: str):
    if w[0] == "s":
        return unhx(w[1:])
    if w[0] == "b":
        return C.unhx(w[1:])
    # numbers and booleans handed to set_option (from_beacon_config itself passes ints): `f'"{value}"'` is str(value); the
    # model receives str(value) as the text, the real code the Python object
    if w[0] == "i":
        return int(unhx(w[1:]))
    if w[0] == "t":
        return {"True": True, "False": False}[unhx(w[1:])]
    if w[0] == "f":
        return float(unhx(w[1:]))
    raise RuntimeError("bad value word " + w)


def profile_from_calls(words):
    prof, pos = run_calls(None, words, 0, cls=C2Profile)
    assert pos == len(words)
    return prof


def enc_any_tree(t) -> list:
    """enc_tree with labels outside the grammar's name table mapped to the out-of-table id"""
    if isinstance(t, Token):
        return [f"t{NAMEID.get(t.type, len(NAMES))}:{hx(str(t))}"]
    out = [f"n{NAMEID.get(str(t.data), len(NAMES))}:{len(t.children)}"]
    for c in t.children:
        out += enc_any_tree(c)
    return out


def same_tree(a, b) -> bool:
    """Lark equality plus token types (Token compares as str)"""
    if isinstance(a, Token) or isinstance(b, Token):
        return isinstance(a, Token) and isinstance(b, Token) and a.type == b.type and str(a) == str(b)
    return str(a.data) == str(b.data) and len(a.children) == len(b.children) and all(same_tree(x, y) for x, y in zip(a.children, b.children))


def text_and_reparse(prof) -> str:
    try:
        text = prof.as_text()
    except _LARK_ERRS:
        return "text none reparse=-"
    try:
        re_ok = same_tree(C2Profile.from_text(text).tree, prof.tree)
    except lark.exceptions.LarkError:
        re_ok = False
    return f"text {hx(text)} reparse={C.tf(re_ok)}"


# ---- abstract profile -> call words

def calls_of(rng, nodes, cls_name, explicit=0.3):
    """call words (without the closing E) that build `nodes` on an object of class `cls_name`"""
    attrs = CLS_ATTRS[cls_name]
    out = []
    # consecutive two-argument statements of one form are also built by ONE call carrying the whole pair list
    # (header=[(a, b), (a, c)]): repeated names must stay separate statements, in order
    nodes = list(nodes)
    k = 0
    while k < len(nodes):
        nd = nodes[k]
        run = [nd]
        if nd[0] == "stmt" and len(nd[2]) == 2 and not isinstance(nd[2][0], tuple):
            while k + len(run) < len(nodes) and nodes[k + len(run)][0] == "stmt" and nodes[k + len(run)][1] is nd[1] \
                    and len(nodes[k + len(run)][2]) == 2:
                run.append(nodes[k + len(run)])
        if len(run) >= 2 and rng.random() < 0.6:
            name = label_name(nd[1])
            kind = attrs.get(name)
            meant = cls_name in ("HttpOptionsBlock", "HttpConfigBlock", "StageTransformBlock")
            if ((kind in ("pair", "header", "parameter") and (kind == "pair" or name == kind)) or meant) and rng.random() >= explicit:
                out.append(f"kp:{nm(name)}:{len(run)}")
            elif name == "header" and rng.random() < 0.3:
                out.append(f"hd:{len(run)}")
            elif name == "parameter" and rng.random() < 0.3:
                out.append(f"pm:{len(run)}")
            else:
                out.append(f"pr:{nm(name)}:{len(run)}")
            for r_ in run:
                out += [r_[2][0].word(), r_[2][1].word()]
            k += len(run)
            continue
        k += 1
        nodes_one = [nd]
        for nd in nodes_one:
            out += _calls_of_one(rng, nd, cls_name, attrs, explicit)
    return out


def _calls_of_one(rng, nd, cls_name, attrs, explicit):
    out = []
    for nd in [nd]:
        if nd[0] == "seq":
            raise RuntimeError("seq node outside a data-transform block")
        if nd[0] == "stmt":
            _, f, args = nd
            name = label_name(f)
            if args and isinstance(args[0], tuple):            # global option
                out.append(("kv" if rng.random() > explicit else "so") + f":{nm(args[0][1])}:{args[1].word()}")
                continue
            n = len(args)
            kind = attrs.get(name)
            if n == 0:
                # the classes MEANT for these statements are used through keyword arguments whatever the attribute
                # tables of the code under test say (a renamed attribute must show up as a wrong tree)
                if (kind == "enable" or cls_name in ("ExecuteOptionsBlock", "BeaconGateBlock")) and rng.random() >= explicit:
                    out.append(f"kv:{nm(name)}:sx54")
                else:
                    out.append(f"en:{nm(name)}")
            elif n == 1:
                if kind in (None, "setOption") and rng.random() >= explicit:
                    out.append(f"kv:{nm(name)}:{args[0].word()}")
                else:
                    out.append(f"so:{nm(name)}:{args[0].word()}")
            elif n == 2:
                ws = [args[0].word(), args[1].word()]
                meant = cls_name in ("HttpOptionsBlock", "HttpConfigBlock", "StageTransformBlock")
                if ((kind in ("pair", "header", "parameter") and (kind == "pair" or name == kind)) or meant) and rng.random() >= explicit:
                    out.append(f"kp:{nm(name)}:1")
                elif name == "header" and rng.random() < 0.3:
                    out.append("hd:1")
                elif name == "parameter" and rng.random() < 0.3:
                    out.append("pm:1")
                else:
                    out.append(f"pr:{nm(name)}:1")
                out += ws
            else:
                raise RuntimeError("statement with more than two arguments")
        else:
            _, f, v, body = nd
            name = label_name(f)
            blk = block_words(rng, f, v, body, explicit)
            r = rng.random()
            if attrs.get(name) is None and r >= explicit:
                out.append(f"kb:{nm(name)}")
            elif r < 0.15 and (body or v is not None):
                out.append(f"ne:{nm(name)}")
            else:
                out.append(f"cb:{nm(name)}")
            out += blk
    return out


def _dt_group(body):
    """statements of a block body that is exactly one data_transform group, else None"""
    if len(body) != 1 or body[0][0] != "seq" or label_name(body[0][1]) != "data_transform":
        return None
    st = []
    for part in body[0][2]:        # steps, termination
        if part[0] != "seq":
            return None
        st += part[2]
    if any(x[0] != "stmt" for x in st):
        return None
    return st


def block_words(rng, f, v, body, explicit):
    name = label_name(f)
    bn = NAMES[body_nt(f)]
    vcall = [f"kv:{nm('variant')}:{v.word()}"] if v is not None else []
    if bn == "data_transform":
        st = _dt_group(body)
        if st is None:
            if body:
                raise RuntimeError("data-transform body that the builder cannot express")
            return [f"C{CLS_IDX['ConfigBlock']}", "E"]
        items = []
        for _, sf, args in st:
            kw = stmt_kws(sf)[0]
            if args:
                items.append(f"sa:{nm(kw)}:{args[0].word()}")
            else:
                if kw == "uri-append" and rng.random() < 0.5:
                    kw = "uri_append"
                items.append(f"sb:{nm(kw)}")
        return [f"DT{len(items)}"] + items
    if name == "execute" and rng.random() < 0.5:
        items = []
        for _, sf, args in body:
            kw = stmt_kws(sf)[0]
            items.append(f"xp:{nm(kw)}:{args[0].word()}" if args else f"xb:{nm(kw)}")
        return [f"EX{len(items)}"] + items
    if name == "beacon_gate" and rng.random() < 0.5:
        return [f"GT{len(body)}"] + [f"g:{nm(rng.choice([stmt_kws(sf)[0], stmt_kws(sf)[0].upper(), label_name(sf)]))}" for _, sf, _a in body]
    cls = BY_TREENAME.get(name)
    if cls is None or rng.random() < 0.15:
        cls = {"client": "HttpOptionsBlock", "server": "HttpOptionsBlock", "transform_x86": "StageTransformBlock",
               "transform_x64": "StageTransformBlock", "execute": "ExecuteOptionsBlock", "beacon_gate": "BeaconGateBlock"}.get(name, "ConfigBlock")
        if rng.random() < 0.15:
            cls = "ConfigBlock"
    return [f"C{CLS_IDX[cls]}"] + vcall + calls_of(rng, body, cls, explicit) + ["E"]


# ------------------------------------------------------------------------------------------------------
# generation
# ------------------------------------------------------------------------------------------------------

def builder_expressible(nodes) -> bool:
    for nd in nodes:
        if nd[0] == "seq":
            return False
        if nd[0] == "block":
            _, f, v, body = nd
            if NAMES[body_nt(f)] == "data_transform":
                if body and _dt_group(body) is None:
                    return False
            elif not builder_expressible(body):
                return False
        elif nd[0] == "stmt":
            if any(isinstance(a, Val) and a.kind == "raw" for a in nd[2]):
                return False
        if nd[0] == "block":
            if nd[2] is not None and nd[2].kind == "raw":
                return False
            st = _dt_group(nd[3]) if NAMES[body_nt(nd[1])] == "data_transform" else None
            if st and any(isinstance(a, Val) and a.kind == "raw" for x in st for a in x[2]):
                return False
    return True


_G_OF = {"walk": "g-walk", "src": "g-src", "tree": "g-tree", "hist": "g-hist", "build": "g-build"}


def gen(tier, rng, shard, nshards):
    """the cases of the hand-model streams, each of `walk` / `src` / `tree` / `hist` once more through the translated definitions,
    then arguments of other kinds and the run-time operations"""
    nwalk = 0
    for stream, line in _gen_model(tier, rng, shard, nshards):
        yield stream, line
        if stream == "walk":
            nwalk += 1
            if tier != "thorough" and nwalk % 2:
                continue           # quick tier: every second random item list also through the translated walk
        if stream in _G_OF:
            yield _G_OF[stream], "g" + line
        if stream == "both":        # the builder half of a `both` case, through the translated methods
            yield "g-build", "gbuild " + line.split(" ", 2)[2]
    thorough = tier == "thorough"
    for _ in range((6000 if thorough else 500) // nshards):
        v = gen_garg(rng)
        if v is not None:
            yield "g-arg", "garg dict " + v
    for _ in range((60000 if thorough else 3500) // nshards):
        line = pyuval_t11.case(rng)
        if line is not None:
            yield "pyu", line


def gen_garg(rng):
    """what the (stubbed) Reconstructor hands to the walk: item lists with odd members, and values that are no lists at all"""
    r = rng.random()
    if r < 0.6:
        n = rng.choice([1, 2, 3, 4, 6])
        v = [pyuval_t11.ritem(rng) if rng.random() < 0.8 else pyuval_t11.value(rng, 1) for _ in range(n)]
        if rng.random() < 0.5:
            v += [rng.choice([";", "{", "}", pyuval_t11.Token("STRING", ";"), pyuval_t11.Token("X", "}")])]
        if rng.random() < 0.2:
            v = tuple(v)
    else:
        v = pyuval_t11.value(rng)
    # (not modelled: a defaultdict / a Token as the iterable of the `for` statement itself)
    if pyuval_t11._has(v, pyuval_t11._badtok) or pyuval_t11._dd(v) or pyuval_t11._tok(v) or isinstance(v, dict) and pyuval_t11._has(v, pyuval_t11._tok):
        return None
    try:
        return pyuval_t11.pshow(v)
    except RuntimeError:
        return None


def _gen_model(tier, rng, shard, nshards):
    thorough = tier == "thorough"
    k = 0

    def mine():
        nonlocal k
        k += 1
        return (k % nshards) == shard

    lex_forms = [f for f in TAB.forms if f.id not in UNLEXABLE and shape(f) in ("stmt", "block", "seq")]

    def src_case(nodes, **kw):
        return "src", "src " + hx(render(rng, toks_of(nodes), **kw))

    def both_case(nodes, explicit=None):
        words = calls_of(rng, nodes, "C2Profile", explicit=rng.choice([0.0, 0.3, 1.0]) if explicit is None else explicit) + ["E"]
        return "both", "both " + hx(render(rng, toks_of(nodes), messy=rng.random() < 0.3)) + " " + " ".join(words)

    # (a) every form in a minimal context: as source (raw nasty literals) and, where expressible, as builder calls
    for f in lex_forms:
        for rep in range(3 if thorough else 1):
            if not mine():
                continue
            g = AGen(rng, raw_ok=True, star_max=2, nasty=0.4)
            yield src_case(g.cover(f, depth=rep % 2), messy=rep > 0)
            g = AGen(rng, raw_ok=False, star_max=2, one_dt=True)
            nodes = g.cover(f, depth=rep % 2)
            if builder_expressible(nodes):
                yield both_case(nodes, explicit=0.0)
                yield both_case(nodes)
    # (b) every block: empty / variant / "default" / repeated, with one statement of every form of its body
    for f in BLOCK_FORMS:
        if not mine():
            continue
        g = AGen(rng, raw_ok=False, star_max=1, one_dt=True)
        variants = [None] + ([Val("str", "default"), Val("str", "v1"), Val("bytes", b"\x00d")] if has_variant(f) else [])
        for v in variants:
            body = g.star(body_nt(f), 0)
            nodes = _wrap(rng, g, ("block", f, v, body))
            yield src_case(nodes, messy=False)
            twice = _wrap(rng, g, ("block", f, v, body), again=("block", f, None, g.star(body_nt(f), 0)))
            yield src_case(twice, messy=False)
            if builder_expressible(nodes):
                yield both_case(nodes)
    # (c) list-property blocks with byte literals; the same blocks under a variant (then they are no list properties)
    nlist = (40 if thorough else 6)
    for key in LIST_PROPS_EXPECTED + ["http-get.client.id", "stage.transform-x64", "stage.beacon_gate", "http-post.client.metadata"]:
        for rep in range(nlist):
            if not mine():
                continue
            nodes = _path_profile(rng, key.split("."), variant=(rep % 3 == 2))
            if nodes is None:
                continue
            yield src_case(nodes, messy=rep % 2 == 1)
            if builder_expressible(nodes):
                yield both_case(nodes)
    # (d) random profiles
    nrand = (9000 if thorough else 600) // nshards
    for _ in range(nrand):
        g = AGen(rng, raw_ok=True, star_max=rng.choice([1, 2, 3]), nasty=rng.choice([0.0, 0.3, 0.6]))
        nodes = g.cover(rng.choice(lex_forms), depth=rng.choice([0, 1, 1, 2]))
        if len(toks_of(nodes)) > 160:
            continue
        yield src_case(nodes, tight=rng.choice([0.0, 0.3, 0.9]))
    nboth = (7000 if thorough else 450) // nshards
    for _ in range(nboth):
        g = AGen(rng, raw_ok=False, star_max=rng.choice([1, 2, 3]), one_dt=True)
        nodes = g.cover(rng.choice(lex_forms), depth=rng.choice([0, 1, 1, 2]))
        if len(toks_of(nodes)) > 160 or not builder_expressible(nodes):
            continue
        yield both_case(nodes)

    # ---- arbitrary builder call sequences
    nbuild = (5000 if thorough else 320) // nshards
    for _ in range(nbuild):
        yield "build", "build " + " ".join(odd_calls(rng))
    if shard == 0:
        for words in handmade_calls():
            yield "build", "build " + " ".join(words)

    # ---- histories
    nhist = (2500 if thorough else 160) // nshards
    for _ in range(nhist):
        line = gen_hist(rng)
        if line:
            yield "hist", line

    # ---- trees
    ntree = (4000 if thorough else 260) // nshards
    for j in range(ntree):
        g = AGen(rng, raw_ok=True, star_max=2)
        nodes = g.cover(rng.choice(lex_forms), depth=rng.choice([0, 1]))
        try:
            t = c2profile_parser.parse(render(rng, toks_of(nodes), messy=False))
        except lark.exceptions.LarkError:
            continue
        if j % 4:
            t = H10.mutate_tree(rng, t)
        if j % 7 == 0:
            retype_token(rng, t)
        yield "tree", "tree " + " ".join(enc_any_tree(t))
    if shard == 0:
        for t in list(H10.handmade_trees()) + list(handmade_trees()):
            yield "tree", "tree " + " ".join(enc_any_tree(t))

    # ---- the walk on arbitrary items
    nwalk = (60000 if thorough else 6000) // nshards
    for _ in range(nwalk):
        yield "walk", "walk " + " ".join(gen_items(rng))
    if shard == 0:
        for items in handmade_items():
            yield "walk", ("walk " + " ".join(items)).strip()

    # ---- value_to_string
    nv = (20000 if thorough else 2000) // nshards
    for _ in range(nv):
        if rng.random() < 0.05:
            yield "v2s", "v2s " + num_val(rng)
        elif rng.random() < 0.5:
            n = rng.choice([0, 1, 2, 3, 5])
            s = "".join(rng.choice(['"', "\\", "'", "a", "é", "日", "\n", ";", "\\'", '\\"', "x"]) for _ in range(n))
            yield "v2s", "v2s s" + hx(s)
        else:
            n = rng.choice([0, 1, 2, 3, 5])
            b = b"".join(rng.choice(NASTY_BYTES) if rng.random() < 0.6 else bytes([rng.randrange(256)]) for _ in range(n))
            yield "v2s", "v2s b" + C.hx(b)


def _wrap(rng, g, node, again=None):
    """profile containing `node` (and `again` right after it) in a minimal context"""
    nodes = [node] + ([again] if again else [])
    cur = node[1]
    while cur.origin != TAB.start:
        cands = [(p, i) for p, i in H10.PARENTS[cur.origin] if p.id not in UNLEXABLE]
        blocks = [(p, i) for p, i in cands if shape(p) == "block"]
        p, i = rng.choice(blocks or cands)
        if shape(p) == "block":
            nodes = [("block", p, None, nodes)]
        else:
            kids = []
            for j, (kk, a) in enumerate(p.lean_items()):
                if j == i:
                    kids += nodes
                elif kk == "nt":
                    kids.append(g.nt(a, 0))
            nodes = [("seq", p, kids)]
        cur = p
    if len(nodes) == 1 and nodes[0][0] == "seq" and nodes[0][1].origin == TAB.start:
        return nodes[0][2]
    return nodes


def _path_profile(rng, path, variant=False):
    """a profile with the blocks named by the keyword path `path`, the innermost filled with statements"""
    n = TAB.start
    chain = []
    for kw in path:
        found = None
        for f in all_forms_below(n):
            if shape(f) == "block" and stmt_kws_block(f) == kw:
                found = f
                break
        if found is None:
            return None
        chain.append(found)
        n = body_nt(found)
    g = AGen(rng, raw_ok=rng.random() < 0.5, star_max=3, nasty=0.6, one_dt=rng.random() < 0.5)
    body = g.star(n, 1) or g.star(n, 1)
    node = None
    for depth, f in enumerate(reversed(chain)):
        outer = depth == len(chain) - 1
        v = None
        if variant and outer and has_variant(f):
            v = rng.choice([Val("str", "default"), Val("str", "vv"), Val("str", "x.y")])
        node = ("block", f, v, body if node is None else [node])
    return [node]


def all_forms_below(n):
    out = []
    for f in FORMS_OF[n]:
        if shape(f) == "seq":
            for k, a in f.lean_items():
                if k in ("nt", "star"):
                    out += all_forms_below(a)
        else:
            out.append(f)
    return out


def stmt_kws_block(f):
    return next(KW[a] for k, a in f.lean_items() if k == "kw")


# ---- odd builder calls

ODD_NAMES = ["comment_dns_resolver", "dns_idle", "uri", "header", "parameter", "strrep", "variant", "bogus", "string", "option", "verb",
             "createthread", "createthread_special", "cleanup", "none", "prepend", "print", "output", "client", "metadata", "sleeptime",
             "http_get", "stage", "dns_beacon", "transform_x86", "execute", "process_inject", "x", "", "base64", "uri_append"]
ODD_STR = ['a\\', '\\"', "a\\'b", '"', "\\\\", "plain", "", "dé", "default", '"default"', ";", "{", "set", "a b", "\\x41", "\\u0041", "\\q"]


NUM_VALS = [0, 1, True, False, 1.0, 0.0, -1, 2, 2.0, 10, 60000, 0.5, -0.0, 1e3]


def num_val(rng) -> str:
    v = rng.choice(NUM_VALS)
    return ("t" if isinstance(v, bool) else "i" if isinstance(v, int) else "f") + hx(str(v))


def odd_val(rng) -> str:
    if rng.random() < 0.6:
        return "s" + hx(rng.choice(ODD_STR))
    return "b" + C.hx(b"".join(rng.choice(NASTY_BYTES) for _ in range(rng.choice([0, 1, 2, 3]))))


def odd_calls(rng, depth=2, cls="C2Profile"):
    out = []
    attrs = CLS_ATTRS[cls]
    for _ in range(rng.choice([0, 1, 2, 3, 4])):
        name = rng.choice(ODD_NAMES)
        kind = attrs.get(name)
        r = rng.randrange(9)
        if r == 0 and kind in (None, "setOption", "globalOption", "enable"):
            out.append(f"kv:{nm(name)}:{odd_val(rng)}")
        elif r == 1 and kind in ("pair", "header", "parameter", "enable"):
            n = rng.choice([0, 1, 2])
            out.append(f"kp:{nm(name)}:{n}")
            out += [odd_val(rng) for _ in range(2 * n)]
        elif r == 2:
            out.append(f"so:{nm(name)}:{num_val(rng) if rng.random() < 0.3 else odd_val(rng)}")
        elif r == 3:
            n = rng.choice([0, 1, 2])
            out.append(rng.choice([f"pr:{nm(name)}:{n}", f"hd:{n}", f"pm:{n}"]))
            out += [odd_val(rng) for _ in range(2 * n)]
        elif r == 4:
            out.append(f"en:{nm(name)}")
        elif r in (5, 6, 7) and depth > 0:
            how = rng.choice(["cb", "ne", "kb"])
            if how == "kb" and kind not in (None, "enable"):
                how = "cb"
            out.append(f"{how}:{nm(name)}")
            out += odd_block(rng, depth - 1)
        elif r == 8 and kind in ("pair", "header", "parameter"):
            out.append(f"kv:{nm(name)}:" + rng.choice(["sx", "bx", "sx6162", "bx6162"]))
    return out + (["E"] if cls == "C2Profile" and depth == 2 else [])


def odd_block(rng, depth):
    r = rng.randrange(6)
    if r == 0:
        n = rng.choice([0, 1, 2, 3])
        items = []
        for _ in range(n):
            nme = rng.choice(["base64", "base64url", "mask", "netbios", "netbiosu", "print", "uri-append", "uri_append", "header", "parameter",
                              "prepend", "append", "ab", "x", "", "strrep", "BASE64"])
            items.append(f"sb:{nm(nme)}" if rng.random() < 0.5 else f"sa:{nm(nme)}:{odd_val(rng)}")
        return [f"DT{n}"] + items
    if r == 1:
        n = rng.choice([0, 1, 2, 3])
        items = []
        for _ in range(n):
            nme = rng.choice(API["execute"][0] + [a for a, _ in API["execute"][1]] + ["Bogus", "createthread"])
            items.append(f"xb:{nm(nme)}" if rng.random() < 0.6 else f"xp:{nm(nme)}:{odd_val(rng)}")
        return [f"EX{n}"] + items
    if r == 2:
        n = rng.choice([0, 1, 2, 3])
        return [f"GT{n}"] + [f"g:{nm(rng.choice(['None', 'All', 'VirtualAlloc', 'ExitThread', 'bogus', 'CLEANUP', 'Core']))}" for _ in range(n)]
    cls = rng.choice([n for n, _t, _a in CLASSES if n not in ("C2Profile", "DataTransformBlock")])
    return [f"C{CLS_IDX[cls]}"] + odd_calls(rng, depth, cls) + ["E"]


def handmade_calls():
    dns = CLS_IDX["DnsBeaconBlock"]
    yield [f"cb:{nm('dns_beacon')}", f"C{dns}", f"kv:{nm('comment_dns_resolver')}:s{hx('1.2.3.4')}", "E", "E"]
    yield [f"cb:{nm('dns_beacon')}", f"C{dns}", f"kv:{nm('dns_idle')}:s{hx('1')}", f"kv:{nm('comment_dns_resolver')}:s{hx('x')}", "E", "E"]
    yield [f"kb:{nm('dns_beacon')}", f"C{dns}", f"so:{nm('comment_dns_resolver')}:bx00", "E", f"kv:{nm('sleeptime')}:s{hx('5')}", "E"]
    yield ["E"]
    yield [f"kv:{nm('sleeptime')}:s{hx('5')}", f"so:{nm('jitter')}:bx41", "E"]
    # numbers / booleans that compare (and hash) equal but format differently, in one call sequence
    yield [f"so:{nm('sleeptime')}:i{hx('1')}", f"so:{nm('jitter')}:t{hx('True')}", f"so:{nm('x')}:f{hx('1.0')}", "E"]
    yield [f"so:{nm('jitter')}:f{hx('0.0')}", f"so:{nm('sleeptime')}:t{hx('False')}", f"so:{nm('x')}:i{hx('0')}", f"so:{nm('y')}:f{hx('-0.0')}", "E"]
    yield [f"so:{nm('maxdns')}:f{hx('2.0')}", f"so:{nm('sleeptime')}:i{hx('2')}", f"so:{nm('jitter')}:s{hx('2')}", "E"]
    yield [f"cb:{nm('http_get')}", f"C{CLS_IDX['HttpGetBlock']}", f"kv:{nm('variant')}:s{hx('default')}", f"kv:{nm('uri')}:s{hx('/x')}", "E", "E"]
    yield [f"ne:{nm('stage')}", f"C{CLS_IDX['StageBlock']}", "E", f"ne:{nm('post_ex')}", f"C{CLS_IDX['PostExBlock']}", f"kv:{nm('pipename')}:sx61", "E", "E"]


def handmade_trees():
    s = lambda v: Tree("string", [Token("STRING", v)])  # noqa: E731
    yield Tree("start", [Tree("dns_beacon", [Tree("comment_dns_resolver", [s('"1.2.3.4"')])])])
    yield Tree("start", [Tree("option", [Token("OPTION", "sleeptime"), s('"5"')]), Tree("option", [Token("OPTION", "sleeptime"), s('"6"')])])
    yield Tree("start", [Tree("http_get", [Tree("variant", [s('"default"')]), Tree("uri", [s('"/a"')])])])
    yield Tree("start", [Tree("http_get", [Tree("variant", [Tree("string", [Token("OPTION", '"default"')])]), Tree("uri", [s('"/a"')])])])
    yield Tree("start", [Tree("http_get", [Tree("client", [Tree("metadata", [Tree("data_transform", [
        Tree("steps", [Tree("prepend", [s('"\\xZZ"')])]), Tree("termination", [Tree("print", [])])])])])])])
    yield Tree("start", [Tree("http_get", [Tree("client", [Tree("metadata", [Tree("data_transform", [
        Tree("steps", [Tree("prepend", [s('"\\u12"')])]), Tree("termination", [Tree("print", [])])])])])])])
    yield Tree("start", [Tree("stage", [Tree("name", [Tree("string", [Token("OPTION", "q")])])])])
    yield Tree("start", [Tree("http_config", [Tree("header", [Tree("string", [Token("OPTION", "a")]), s('"b"')])])])
    yield Tree("start", [Tree("option", [Token("OPTION", "set"), s('"5"')])])
    yield Tree("start", [Tree("option", [Token("OPTION", ";"), s('"5"')])])
    yield Tree("start", [Tree("stage", [Tree("name", [s(';')])])])
    yield Tree("start", [Tree("stage", [Tree("name", [s('{')]), Tree("name", [s('}')]), Tree("name", [s('')])])])


def retype_token(rng, t):
    toks = [(n, i) for n in t.iter_subtrees() for i, c in enumerate(n.children) if isinstance(c, Token)]
    if toks:
        n, i = rng.choice(toks)
        tok = n.children[i]
        n.children[i] = Token("OPTION" if tok.type == "STRING" else "STRING", str(tok))


# ---- items for the walk

WALK_PLAIN = ["set", "{", "}", ";", "", "{}", "};", "{};", "http-get", "client", "metadata", "header", "base64", "process-inject",
              "execute", "transform-x86", "uri", "x", ".", "#", "dns_resolver", "stage", "http-post", "output", "server", "id"]
WALK_STR = ['"a"', '"default"', '"\\x41"', '"\\xZ"', '""', '"', "", '"a.b"', '"\\u004"', '";"', "set", '"x\\"']


def gen_items(rng):
    n = rng.choice([0, 1, 2, 3, 4, 6, 8, 12])
    out = []
    r = rng.random()
    for _ in range(n):
        q = rng.random()
        if r < 0.5 and q < 0.5:
            # well-nested fragments keep the walk going longer
            frag = rng.choice([["phttp-get", "p{"], ["pclient", "p{"], ["p}"], ["pmetadata", "p{"], ["pbase64", "p;"], ["pheader", 'S"a"', "p;"],
                               ["pheader", 'S"a"', 'S"b"', "p;"], ["pset", "puri", 'S"/"', "p;"], ["phttp-get", 'S"default"', "p{"],
                               ["phttp-get", 'S"v"', "p{"], ["pprocess-inject", "p{"], ["pexecute", "p{"], ["pCreateThread", 'S"x"', "p;"],
                               ["p#", "pdns_resolver", 'S"x"', "p;"], ["pset", 'Osleeptime', 'S"5"', "p;"]])
            out += [w[0] + hx(w[1:]) for w in frag]
            continue
        if q < 0.6:
            out.append("p" + hx(rng.choice(WALK_PLAIN)))
        elif q < 0.85:
            out.append("S" + hx(rng.choice(WALK_STR)))
        else:
            out.append("O" + hx(rng.choice(WALK_STR + ["sleeptime", "{", "}"])))
    return out


def handmade_items():
    P = lambda s: "p" + hx(s)  # noqa: E731
    S = lambda s: "S" + hx(s)  # noqa: E731
    O = lambda s: "O" + hx(s)  # noqa: E731
    yield []
    yield [P("{")]
    yield [P("}")]
    yield [P(";")]
    yield [P("a"), P("{"), P("}"), P("}")]
    yield [P("a"), S('"v"'), P("{"), P("}")]
    yield [S('"v"'), P("{"), P("}")]
    yield [P("a"), S('"default"'), P("{"), P("b"), P(";"), P("}")]
    yield [P("a"), O('"default"'), P("{"), P("b"), P(";"), P("}")]
    yield [P("a"), P('"default"'), P("{"), P("b"), P(";"), P("}")]
    yield [S('"default"'), P("{"), P("b"), P(";")]
    yield [P("a"), P(""), P("b"), P(";")]
    yield [P("a"), P("{}"), P("b"), P(";")]
    yield [P("a"), P("};"), P("b"), P("{};"), P("c"), P(";")]
    yield [P("#"), P("dns_resolver"), S('"x"'), P(";")]
    yield [P("a"), P("b"), P("c"), P(";")]
    yield [P("a"), O("b"), S('"c"'), P(";")]
    yield [P("a"), S('"b"'), O("c"), P(";")]
    yield [P("process-inject"), P("{"), P("execute"), P("{"), P("CreateThread"), S('"\\xZZ"'), P(";")]
    yield [P("process-inject"), P("{"), P("execute"), P("{"), P(";")]
    yield [P("process-inject"), P("{"), P("execute"), P("{"), O("x"), P(";"), S('"y"'), P(";")]
    yield [P("http-get"), P("{"), P("client"), P("{"), P("metadata"), P("{"), P("base64"), P(";"), P("prepend"), S('"\\x41\\u1242"'), P(";")]
    yield [P("set"), P(";")]
    yield [P("a"), P("{"), P("set"), P("}"), P("b"), P(";")]
    yield [O("set"), S('"x"'), P(";")]
    yield [S("set"), S('"x"'), P(";")]
    yield [P("a"), S(";"), P("b"), P(";")]
    yield [P("a"), O("{"), P("}"), P("b"), P(";")]


# ---- histories

def _stmt_subtree(rng, f):
    """Lark subtree of one statement of form f"""
    kids = []
    for k, a in f.lean_items():
        if k == "tok" and a == OPTION_T:
            kids.append(Token("OPTION", rng.choice(TAB.option_alts)))
        elif k in ("tok", "nt"):
            kids.append(Tree("string", [Token("STRING", gen_val(rng).literal())]))
    return Tree(label_name(f), kids)


def _block_paths(t, path=()):
    """(path, node) of every tree node that is a block of the grammar, with its body nonterminal"""
    out = []
    for i, c in enumerate(t.children):
        if isinstance(c, Tree):
            fs = [f for f in BLOCK_FORMS if label_name(f) == str(c.data)]
            if fs:
                out.append((path + (i,), c, fs[0]))
                out += _block_paths(c, path + (i,))
    return out


def _at(t, path):
    for i in path:
        t = t.children[i]
    return t


def gen_hist(rng):
    g = AGen(rng, raw_ok=True, star_max=2, one_dt=rng.random() < 0.5)
    lex_forms = [f for f in TAB.forms if f.id not in UNLEXABLE and shape(f) in ("stmt", "block")]
    nodes = g.cover(rng.choice(lex_forms), depth=rng.choice([0, 1]))
    if len(toks_of(nodes)) > 80:
        return None
    try:
        shadow = c2profile_parser.parse(render(rng, toks_of(nodes), messy=False))
    except lark.exceptions.LarkError:
        return None
    words = ["hist"] + enc_any_tree(shadow)
    nops = rng.choice([3, 4, 5, 6, 8])
    accessed = False
    for j in range(nops):
        r = rng.random()
        words.append("|")
        if r < 0.4 or (j == nops - 1) or (j == 0 and rng.random() < 0.6):
            words.append(rng.choice(["get", "get", "prop"]))
            accessed = True
        elif r < 0.55:
            v = gen_val(rng)
            name = rng.choice(TAB.option_alts)
            words += ["opt", nm(name), v.word()]
            shadow.children.append(Tree("option", [Token("OPTION", name), Tree("string", [Token("STRING", c2p.value_to_string(v.py()))])]))
        elif r < 0.8:
            blocks = _block_paths(shadow)
            if blocks and rng.random() < 0.8:
                path, node, bf = rng.choice(blocks)
                cands = [f for f in all_forms_below(body_nt(bf)) if shape(f) == "stmt" and f.id not in UNLEXABLE]
                if NAMES[body_nt(bf)] == "data_transform" or not cands:
                    sub = Tree("bogus_label", [])
                else:
                    sub = _stmt_subtree(rng, rng.choice(cands))
            else:
                path, node = (), shadow
                sub = _stmt_subtree(rng, rng.choice([f for f in FORMS_OF[NAMEID["value"]] if shape(f) == "stmt"]))
                if rng.random() < 0.15:
                    sub = Tree("header", [])          # unprintable at top level
            words += ["app", C.ints(path)] + enc_any_tree(sub)
            node.children.append(sub)
        elif r < 0.92:
            cands = [(p, n) for p, n, _f in _block_paths(shadow) if n.children]
            if shadow.children and (not cands or rng.random() < 0.4):
                i = rng.randrange(len(shadow.children))
                words += ["del", C.ints((i,))]
                del shadow.children[i]
            elif cands:
                p, n = rng.choice(cands)
                i = rng.randrange(len(n.children))
                words += ["del", C.ints(p + (i,))]
                del n.children[i]
            else:
                words.append("get")
        else:
            g2 = AGen(rng, raw_ok=True, star_max=1)
            try:
                shadow = c2profile_parser.parse(render(rng, toks_of(g2.cover(rng.choice(lex_forms), depth=0)), messy=False))
            except lark.exceptions.LarkError:
                words.append("get")
                continue
            words += ["set"] + enc_any_tree(shadow)
    return " ".join(words)


def dec_any_tree(words):
    pos = 0

    def name(i):
        return NAMES[i] if i < len(NAMES) else "\x00unknown"

    def rd():
        nonlocal pos
        w = words[pos]
        pos += 1
        a, b = w[1:].split(":")
        if w[0] == "t":
            return Token(name(int(a)), unhx(b))
        return Tree(name(int(a)), [rd() for _ in range(int(b))])
    t = rd()
    assert pos == len(words), (pos, len(words))
    return t


def split_bar(words):
    out, cur = [], []
    for w in words:
        if w == "|":
            out.append(cur)
            cur = []
        else:
            cur.append(w)
    out.append(cur)
    return out


# ------------------------------------------------------------------------------------------------------
# adapters to the real library
# ------------------------------------------------------------------------------------------------------

class _StubReconstructor:
    items: list = []

    def __init__(self, parser):
        pass

    def _reconstruct(self, tree):
        return iter(list(_StubReconstructor.items))


class _ValueReconstructor:
    value = None

    def __init__(self, parser):
        pass

    def _reconstruct(self, tree):
        return _ValueReconstructor.value


def impl(stream, line):
    if stream == "pyu":
        return pyuval_t11.run(line)
    if stream == "g-arg":
        saved = c2p.Reconstructor
        _ValueReconstructor.value = pyuval_t11.pparse(line.split(" ")[2])
        c2p.Reconstructor = _ValueReconstructor
        try:
            return "ok " + pyuval_t11.pshow(C2Profile().as_dict())
        finally:
            c2p.Reconstructor = saved
    if stream == "g-build":
        prof = profile_from_calls(line.split(" ")[1:])
        return f"tree {' '.join(enc_any_tree(prof.tree))}"
    if stream.startswith("g-"):
        return impl(stream[2:], line[1:])
    w = line.split(" ")
    if stream == "src":
        try:
            prof = C2Profile.from_text(unhx(w[1]))
        except lark.exceptions.LarkError:
            return "exc LarkError"
        if zlib.crc32(line.encode()) % 3 == 0:
            # a second profile parsed from the SAME text is modified first: profiles are independent objects, so the
            # dictionary of `prof` must not see it (shared parse results / trees between instances)
            twin = C2Profile.from_text(unhx(w[1]))
            twin.set_option("sleeptime", "424242")
            twin.tree.children.append(Tree("option", [Token("OPTION", "jitter"), Tree("string", [Token("STRING", '"7"')])]))
            try:
                twin.as_dict()
            except Exception:  # noqa: BLE001
                pass
        return outcome(prof)
    if stream == "tree":
        prof = C2Profile()
        prof.tree = dec_any_tree(w[1:])
        return outcome(prof)
    if stream == "walk":
        items = []
        for x in w[1:]:
            if not x:
                continue
            s = unhx(x[1:])
            items.append(s if x[0] == "p" else Token("STRING" if x[0] == "S" else "OPTION", s))
        saved = c2p.Reconstructor
        _StubReconstructor.items = items
        c2p.Reconstructor = _StubReconstructor
        try:
            return show_dict(list(C2Profile().as_dict().items()))
        finally:
            c2p.Reconstructor = saved
    if stream == "build":
        prof = profile_from_calls(w[1:])
        res = f"tree {' '.join(enc_any_tree(prof.tree))} | {outcome(prof)} | {text_and_reparse(prof)}"
        if any(x.rsplit(":", 1)[-1][:1] in "itf" and x[:3] == "so:" for x in w[1:]):
            # equivalent call sequences: a number / boolean handed to set_option is formatted as str(value), so the same calls with
            # the value given as that text build the same tree (independent of the model; judged by `oracle`)
            twin = profile_from_calls([("so:" + x.split(":")[1] + ":s" + x.split(":")[2][1:]) if x[:3] == "so:" and x.split(":")[2][:1] in "itf"
                                       else x for x in w[1:]])
            res += " | num=" + C.tf(same_tree(prof.tree, twin.tree) and prof.tree == twin.tree)
        return res
    if stream == "both":
        try:
            p1 = C2Profile.from_text(unhx(w[1]))
        except lark.exceptions.LarkError:
            return "exc LarkError"
        p2 = profile_from_calls(w[2:])
        st = same_tree(p1.tree, p2.tree) and p1.tree == p2.tree
        o2 = outcome(p2)
        if st:
            # as_text / as_dict are functions of the tree (checked for unequal trees and by the other streams)
            tx, dd = True, True
        else:
            try:
                tx = p1.as_text() == p2.as_text()
            except _LARK_ERRS:
                tx = False
            dd = outcome(p1) == o2
        return f"tree={C.tf(st)} text={C.tf(tx)} dict={C.tf(dd)} | {o2}"
    if stream == "hist":
        parts = split_bar(w[1:])
        prof = C2Profile()
        prof.tree = dec_any_tree(parts[0])
        outs, fresh = [], []
        for op in parts[1:]:
            if op[0] in ("get", "prop"):
                probe_ok = True
                try:
                    d = prof.as_dict() if op[0] == "get" else prof.properties
                    o = show_dict(list(d.items()))
                    # READING a key the profile does not have is a KeyError and changes nothing (the view is a plain mapping of
                    # what the profile says, not a defaultdict that grows on lookup)
                    try:
                        d["\x00no such key"]
                        probe_ok = False
                    except KeyError:
                        pass
                    probe_ok = probe_ok and "\x00no such key" not in d and show_dict(list(d.items())) == o
                except _LARK_ERRS:
                    o = "none"
                except Exception as e:  # noqa: BLE001
                    if not printable(prof.tree):
                        o = "none"
                    else:
                        from check import canon_exc
                        o = "exc " + canon_exc(e)
                outs.append(o)
                fp = C2Profile()
                fp.tree = copy.deepcopy(prof.tree)
                fresh.append(C.tf(outcome(fp) == o and probe_ok))
            elif op[0] == "opt":
                prof.set_option(unhx(op[1]), dec_val(op[2]))
            elif op[0] == "app":
                _at(prof.tree, C.unints(op[1])).children.append(dec_any_tree(op[2:]))
            elif op[0] == "del":
                p = C.unints(op[1])
                del _at(prof.tree, p[:-1]).children[p[-1]]
            elif op[0] == "set":
                prof.tree = dec_any_tree(op[1:])
            else:
                raise RuntimeError("bad history op")
        return " | ".join(outs) + " || fresh=" + "".join(fresh)
    if stream == "v2s":
        return hx(c2p.value_to_string(dec_val(w[1])))
    raise RuntimeError("unknown stream " + stream)


def nontrivial(stream, line, out):
    if stream == "pyu":
        return True
    if stream == "g-arg":
        return out.startswith("exc ") or out != "ok D[|]"
    if stream == "g-build":
        return out.startswith("exc ") or out.count(" ") > 1
    if stream.startswith("g-"):
        return nontrivial(stream[2:], line[1:], out)
    if stream in ("src", "tree", "walk"):
        return out.startswith("exc ") and not out.startswith("exc LarkError") or out.startswith("ok K")
    if stream == "both":
        return " | ok K" in out
    if stream == "build":
        return " | ok K" in out or " | exc " in out
    if stream == "hist":
        return "ok K" in out
    if stream == "v2s":
        return out != "x2222"
    return True


def _has_known_label(stream, line) -> bool:
    if stream in ("build", "both"):
        return nm("comment_dns_resolver") in line
    if stream in ("tree", "hist"):
        return f"n{NAMEID['comment_dns_resolver']}:" in line
    return False


def oracle(stream, line, out):
    if out.startswith("exc Timeout"):
        return None
    if stream.startswith("g-") or stream == "pyu":
        return None
    w = line.split(" ")
    if stream == "src":
        if out.startswith("exc LarkError"):
            return None             # acceptance of sentences is C10's subject (and shrinking produces non-sentences)
        if not out.startswith("ok"):
            return False            # as_dict returns on every parsed profile
        try:
            want = walk_source(unhx(w[1]))
        except NotApplicable:
            return None
        return out == show_dict(want)
    if stream == "both":
        if out.startswith("exc LarkError"):
            return None
        if not out.startswith("tree=T text=T dict=T | ok"):
            return False
        try:
            want = walk_source(unhx(w[1]))
        except NotApplicable:
            return None
        return out.split(" | ", 1)[1] == show_dict(want)
    if stream == "hist":
        flags = out.rsplit("fresh=", 1)[1]
        return "F" not in flags
    if stream == "build":
        # the recorded finding: a builder-made comment_dns_resolver statement makes as_dict raise and does not re-parse
        if _has_known_label(stream, line) and KNOWN_LISTED and ("| exc AttributeError |" in out):
            return False
        if " | num=" in out:
            return out.endswith(" | num=T")
        return None
    return None


def known(stream, line, known_list):
    if stream.startswith("g-") or stream == "pyu":
        return None
    for k in known_list:
        m = k.get("match", {})
        if m.get("tree_has_label") == "comment_dns_resolver" and stream in m.get("streams", ["build", "tree", "hist", "both"]):
            if _has_known_label(stream, line):
                return k["id"]
    return None


def shrink(stream, line):
    if stream in ("g-walk", "g-hist"):
        for cand in shrink(stream[2:], line[1:]):
            yield "g" + cand
        return
    if stream in ("pyu", "g-arg") or stream.startswith("g-"):
        return
    w = line.split(" ")
    if stream == "src":
        for cand in H10.shrink("bad", "bad " + w[1]):
            yield "src " + cand.split(" ", 1)[1]
    elif stream == "walk":
        for i in range(1, len(w)):
            yield " ".join(w[:i] + w[i + 1:])
    elif stream == "hist":
        parts = split_bar(w[1:])
        for i in range(1, len(parts)):
            rest = parts[:i] + parts[i + 1:]
            yield "hist " + " | ".join(" ".join(p) for p in rest)
    elif stream == "v2s":
        yield from C.shrink_tokens(line)


if __name__ == "__main__":
    import sys as _sys
    if "--write-reference" in _sys.argv:
        REFERENCE_API.parent.mkdir(parents=True, exist_ok=True)
        REFERENCE_API.write_text(json.dumps(PA.load(strict=True), indent=0))
        print("reference API tables written")

"""`pyu` stream of C19: the operations that lean/CsVerif/Model/PyU_T19.lean adds to the run-time library of the untyped translator
(`bytes.decode(errors="ignore")`, `int.to_bytes(length, byteorder)`, `str.replace`, the call of the Python IntEnum `BeaconCommand`
with `.name` / truth value of the member, attribute assignment on the client object), each run against CPython on random operands
of all kinds.  Value notation: tools/harness/pyuval.py / lean/CsVerif/Model/PyUShow.lean, plus `I7100[<task_map>]` = an
`HttpBeaconClient` whose `task_map` is that value, `E7101:<v>` = the member `BeaconCommand(v)`.
"""
from __future__ import annotations

from dissect.cobaltstrike import client as _client

from . import pyuval as P

BC = _client.BeaconCommand
VALID = sorted({int(m.value) for m in BC})


def pshow(v) -> str:
    if type(v) is BC:
        return f"E7101:{int(v)}"
    if type(v) is _client.HttpBeaconClient:
        return f"I7100[{pshow(v.task_map)}]"
    if type(v) is list:
        return "L[" + ";".join(pshow(x) for x in v) + "]"
    if type(v) is tuple:
        return "U[" + ";".join(pshow(x) for x in v) + "]"
    if type(v) is dict:
        return "D[" + ";".join(pshow(x) for x in v.keys()) + "|" + ";".join(pshow(x) for x in v.values()) + "]"
    if type(v) in P.CLASSES:
        raise RuntimeError("pshow: a class of another unit")
    return P.pshow(v)


def pparse(tok: str):
    v, rest = _pv(tok, 0)
    if rest != len(tok):
        raise RuntimeError("pparse: trailing text in " + tok)
    return v


def _pl(s, i):
    out = []
    while s[i] not in "]|":
        v, i = _pv(s, i)
        out.append(v)
        if s[i] == ";":
            i += 1
    return out, i


def _pv(s, i):
    c = s[i]
    if c in "LU":
        xs, j = _pl(s, i + 2)
        return (xs if c == "L" else tuple(xs)), j + 1
    if c == "D":
        ks, j = _pl(s, i + 2)
        vs, j = _pl(s, j + 1)
        return dict(zip(ks, vs)), j + 1
    if c == "I":
        d, j = P._span(s, i + 1, str.isdigit)
        xs, j = _pl(s, j + 1)
        if d != "7100" or len(xs) != 1:
            raise RuntimeError("pparse: instance of an unknown class")
        cl = _client.HttpBeaconClient()
        cl.task_map = xs[0]
        return cl, j + 1
    if c == "E":
        d, j = P._span(s, i + 1, str.isdigit)
        v, j = P._span(s, j + 1, lambda ch: ch.isdigit() or ch == "-")
        if d != "7101":
            raise RuntimeError("pparse: member of an unknown enum")
        return BC(int(v)), j
    return P._pv(s, i)


# ---------------------------------------------------------------------------------------------------------------------
# random operands
# ---------------------------------------------------------------------------------------------------------------------
UTF8 = [b"", b"abc", "é€😀".encode(), "€".encode()[:2], b"\xe2\x82", b"\xf0\x9f\x98", b"a\xffb", b"\xc0\x80", b"\xed\xa0\x80", b"\xf4\x90\x80\x80",
        b"\xe0\x9f\xbf", b"\xc2", b"\x80\xbf", b"x\xe2\x82\xacy\xf0", b"\xf0\x90\x80\x80", b"\xef\xbf\xbf", b"\xe2\x28\xa1"]


def scalar(rng):
    r = rng.random()
    if r < 0.1:
        return None
    if r < 0.2:
        return rng.random() < 0.5
    if r < 0.45:
        return rng.choice([P.rint(rng), rng.choice(VALID), rng.choice([0, 6, 102, 103, 9999, -3])])
    if r < 0.7:
        return P.rbytes(rng) if rng.random() < 0.6 else rng.choice(UTF8)
    if r < 0.92:
        return P.rstr(rng)
    return BC(rng.choice(VALID))


def value(rng, depth=0):
    r = rng.random()
    if r < 0.7 or depth >= 2:
        return scalar(rng)
    if r < 0.8:
        return [value(rng, depth + 1) for _ in range(rng.choice([0, 1, 2, 3]))]
    if r < 0.88:
        return tuple(value(rng, depth + 1) for _ in range(rng.choice([0, 1, 2, 3])))
    if r < 0.95:
        d = {}
        for _ in range(rng.choice([0, 1, 2, 3])):
            k = scalar(rng)
            if type(k) is BC:
                k = int(k)        # an IntEnum member as a dict key: not modelled (PyU hashes enum members like dissect.cstruct)
            d[k] = value(rng, depth + 1)
        return d
    cl = _client.HttpBeaconClient()
    cl.task_map = value(rng, depth + 1) if rng.random() < 0.3 else {rng.choice([None, 3, 4, -1]): [rng.choice([1, 2, b"h"])]}
    return cl


def _setattr(o, name, v):
    setattr(o, name, v)
    return o


OPS = {
    "decutf8ign": lambda x: x.decode(errors="ignore"),
    "tobytes": lambda n, length, order: n.to_bytes(length, order),
    "replace2": lambda x, a, b: x.replace(a, b),
    "intenum": lambda x: BC(x),
    "enumname": lambda x: (BC(x).name, bool(BC(x))),
    "setattr": _setattr,
}
ARITY = {"decutf8ign": 1, "tobytes": 3, "replace2": 3, "intenum": 1, "enumname": 1, "setattr": 3}


def _has(v, pred) -> bool:
    if pred(v):
        return True
    if isinstance(v, (list, tuple)):
        return any(_has(x, pred) for x in v)
    if isinstance(v, dict):
        return any(_has(x, pred) for x in list(v.keys()) + list(v.values()))
    if type(v) is _client.HttpBeaconClient:
        return _has(v.task_map, pred)
    return False


def modelled(op, args) -> bool:
    """operand kinds PyU_T19.lean states as 'not modelled' are left out"""
    a = args[0]
    if op == "tobytes":
        return type(a) is not BC and not (type(args[1]) is int and args[1] > 64)
    if op == "setattr":
        return type(a) is not BC and args[1] == "task_map"
    if op in ("intenum", "enumname"):
        return True
    return True


def case(rng):
    op = rng.choice(sorted(OPS))
    a = value(rng)
    if op == "decutf8ign" and rng.random() < 0.85:
        a = rng.choice(UTF8) if rng.random() < 0.4 else bytes(rng.choice([0x41, 0x7F, 0x80, 0xBF, 0xC2, 0xE0, 0xE2, 0x82, 0xAC, 0xED, 0xA0, 0xF0, 0x9F, 0x98, 0x80, 0xF4, 0x90, 0xFF])
                                                               for _ in range(rng.choice([0, 1, 2, 3, 4, 6, 9])))
    elif op == "tobytes" and rng.random() < 0.85:
        a = rng.choice([0, 1, 255, 256, 65535, 65536, -1, 2 ** 128 - 1, 2 ** 128, 2 ** 127, rng.getrandbits(128), rng.getrandbits(64), True])
    elif op == "replace2" and rng.random() < 0.85:
        a = rng.choice(["COMMAND_SLEEP", "COMMAND_COMMAND_X", "COMMACOMMAND_ND_", "", "aaa", "abcabc", P.rstr(rng)]) if rng.random() < 0.7 else P.rbytes(rng)
    elif op in ("intenum", "enumname") and rng.random() < 0.7:
        a = rng.choice([rng.choice(VALID), 0, 6, 102, 103, -1, 9999, True, False, None, "3", b"\x03", BC(rng.choice(VALID))])
    elif op == "setattr" and rng.random() < 0.7:
        a = _client.HttpBeaconClient()
        a.task_map = value(rng, 1) if rng.random() < 0.4 else {}
    args = [a]
    if op == "tobytes":
        args += [rng.choice([16, 16, 0, 1, 2, 4, 8, 17, -1, True, None, "16", 3]), rng.choice(["big", "big", "little", "Big", "", "middle", b"big", None, 1])]
    elif op == "replace2":
        if isinstance(a, bytes):
            args += [rng.choice([b"", b" ", b"a", a[:1], a[1:3], "a", None, 1]), rng.choice([b"", b"xy", b"a", "", None])]
        else:
            args += [rng.choice(["COMMAND_", "", "a", "aa", "bc", a[:2] if isinstance(a, str) else "q", b"a", None, 1]), rng.choice(["", "X", "aa", b"", None, 7])]
    elif op == "setattr":
        args += ["task_map", value(rng, 1)]
    assert len(args) == ARITY[op]
    if not modelled(op, args):
        return None
    try:
        return "pyu " + op + " " + " ".join(pshow(x) for x in args)
    except RuntimeError:
        return None


def run(line: str) -> str:
    """the real operation on the operands of a `pyu` line"""
    w = line.split()
    r = OPS[w[1]](*[pparse(t) for t in w[2:]])
    return "ok " + pshow(r)

"""`pyu` / `g-arg` helpers for the operations of lean/CsVerif/Model/PyU_T18.lean (cstruct types read from a file object,
`[Type(fh) for _ in range(n)]`, `int.to_bytes`): random operands and the reference implementation (CPython / dissect.cstruct itself).

A structure instance is written `I<cid>[<exposed fields>]` — the fields and class ids the plug-in tools/gen/py_pe.py exposes (read here
from the same plug-in, i.e. from the library as it is now); file objects and every other operand use the notations of
tools/harness/pyuval_t15.py / pyuval.py.  Results: `ok <value> <tell afterwards>`, `eof <tell afterwards>` (EOFError), `exc <E>`.
"""
from __future__ import annotations

from . import pyuval, pyuval_t15

_TYPES = None


def types():
    """the `_Types` object of the plug-in (layouts of the cstruct types the translated functions read), built once per process"""
    global _TYPES
    if _TYPES is None:
        import py2leanu
        from gen import py_pe
        from dissect.cobaltstrike import pe
        funcs = [getattr(pe, n) for n in py_pe.PE_FUNCS]
        t = py_pe._Types(py2leanu, pe.pestruct, py_pe._attrs_read(funcs))
        for tname in py_pe._types_called(funcs, "pestruct"):
            T = getattr(pe.pestruct, tname)
            if py_pe._is_struct(T):
                t.struct(T, tname)
            else:
                t.integer(T, tname)
        _TYPES = t
    return _TYPES


def norm(v):
    """cstruct integers are `int` subclasses: the plain value"""
    if isinstance(v, int) and not isinstance(v, bool):
        return int(v)
    if type(v) is tuple:
        return tuple(norm(x) for x in v)
    if isinstance(v, list):
        return [norm(x) for x in v]
    return v


def show_value(name, obj) -> str:
    """the real object `Type(fh)` in the notation of `PyU.vShow (PyU.t18Value ty buf)`"""
    t = types()
    _, _, layout = t.layouts[name]
    if isinstance(layout, bool):
        return f"i{int(obj)}"
    parts = []
    for f in layout:
        v = getattr(obj, f[0])
        if f[1] == "int":
            parts.append(f"i{int(v)}")
        else:
            sub = f[5]
            items = []
            for item in v:
                icid = t.cids[type(item).__name__]
                items.append(f"I{icid}[" + ";".join(f"i{int(getattr(item, n))}" for n, *_ in sub) + "]")
            parts.append("L[" + ";".join(items) + "]")
    return f"I{t.cids[t.layouts[name][0].__name__]}[" + ";".join(parts) + "]"


def rfile_for(rng, size) -> pyuval_t15.FileSpec:
    lead = rng.choice([0, 0, 1, 3])
    n = rng.choice([size, size, size, size + 2, size - 1, size // 2, 0, 1, 2 * size, 3 * size + 1, max(0, size - 3)])
    data = bytes(rng.choice([0, 1, 0x7F, 0x80, 0xFF, rng.randrange(256)]) for _ in range(lead + n))
    pos = rng.choice([lead, lead, lead, 0, len(data), len(data) + 2, max(0, len(data) - 1)])
    return pyuval_t15.FileSpec(data, pos, rng.choice([0, 0, 1]))


def case(rng):
    t = types()
    op = rng.choice(["sread", "sread", "sreadn", "tobytes"])
    if op == "tobytes":
        n = rng.choice([0, 1, 255, 256, 65535, 65536, 0xFFFFFFFF, 0x100000000, -1, True, False, None, "1", b"\x01", rng.getrandbits(32), rng.getrandbits(40)])
        length = rng.choice([4, 4, 4, 0, 1, 2, 8, -1, True, None, "4"])
        order = rng.choice(["little", "little", "big", "Little", "", b"little", None, 1])
        return "pyu tobytes " + " ".join(pyuval.pshow(x) for x in (n, length, order))
    name = rng.choice(sorted(t.layouts))
    size = t.layouts[name][1]
    if op == "sread":
        f = rfile_for(rng, size)
        return f"pyu sread {name} {f.tok()}"
    k = rng.choice([0, 1, 2, 3, 5, -1, True, False])
    f = rfile_for(rng, size * max(1, int(k) if not isinstance(k, bool) else 1))
    n = k if rng.random() < 0.9 else rng.choice([None, "2", b"", [1]])
    return f"pyu sreadn {name} {f.tok()} {pyuval.pshow(n)}"


def run(line: str) -> str:
    """the real operation on the operands of a `pyu` line"""
    from dissect.cobaltstrike import pe
    w = line.split()
    op = w[1]
    if op == "tobytes":
        n, length, order = [pyuval.pparse(x) for x in w[2:5]]
        return "ok " + pyuval.pshow(n.to_bytes(length, order))
    T = getattr(pe.pestruct, w[2])
    spec = pyuval_t15.parse(w[3])
    with pyuval_t15.Opened([spec]) as a:
        fh = a[0]
        try:
            if op == "sread":
                return f"ok {show_value(w[2], T(fh))} {fh.tell()}"
            n = pyuval.pparse(w[4])
            objs = [T(fh) for _ in range(n)]
            return "ok L[" + ";".join(show_value(w[2], o) for o in objs) + f"] {fh.tell()}"
        except EOFError:
            return f"eof {fh.tell()}"

"""`pyu` stream of C02: the operations of lean/CsVerif/Model/PyU_T02.lean (run-time library of the untyped translator, added for
`iter_settings` / `BeaconConfig.settings_map`) against CPython 3.12 / dissect.cstruct 4.7 on random operands of all kinds, and
the text notation of Python values shared with the driver (`PyU.vShow` / `PyU.pV` of lean/CsVerif/Model/PyUShow.lean):
`N` `T` `F` `i<int>` `b<hex>` `s<cp>.<cp>` `L[..]` `U[..]` `D[k;..|v;..]` `O<hex>:<pos>` BytesIO, `E<cid>:<value>` cstruct enum
member, `I20[index;type;length;value]` a `Setting` object, `I23[tag;arg]` the result of a stubbed pretty function.
Operand kinds an operation states as 'not modelled' are left out (`modelled`).
"""
from __future__ import annotations

import io
from types import MappingProxyType

from dissect.cobaltstrike import beacon as B

ENUMS = {10: B.BeaconSetting, 11: B.SettingsType, 12: B.DeprecatedBeaconSetting}      # cids of tools/gen/py_beaconcfg.py
ENUM_CID = {v: k for k, v in ENUMS.items()}
SETTING_FIELDS = ["index", "type", "length", "value"]


class Tagged:
    """what the stubbed pretty function number `idx` returns for `arg` (`C02Gen.OpaqueCls`, cid 23)"""
    __slots__ = ("idx", "arg")

    def __init__(self, idx, arg):
        self.idx, self.arg = idx, arg


def pshow(v) -> str:
    if v is None:
        return "N"
    if v is True or v is False:
        return "T" if v else "F"
    if type(v) in ENUM_CID:
        return f"E{ENUM_CID[type(v)]}:{int(v.value)}"
    if isinstance(v, B.Setting):
        if set(vars(v)) - {"__dynamic_sizes__"} != set(SETTING_FIELDS):
            raise RuntimeError("pshow: Setting with other attributes")
        return "I20[" + ";".join(pshow(getattr(v, f)) for f in SETTING_FIELDS) + "]"
    if isinstance(v, Tagged):
        return f"I23[i{v.idx};{pshow(v.arg)}]"
    if isinstance(v, io.BytesIO):
        return f"O{v.getvalue().hex()}:{v.tell()}"
    if isinstance(v, int):
        return f"i{int(v)}"
    if isinstance(v, (dict, MappingProxyType)):
        return "D[" + ";".join(pshow(x) for x in v.keys()) + "|" + ";".join(pshow(x) for x in v.values()) + "]"
    if isinstance(v, bytes):
        return "b" + bytes(v).hex()
    if type(v) is str:
        return "s" + ".".join(str(ord(c)) for c in v)
    if type(v) is list:
        return "L[" + ";".join(pshow(x) for x in v) + "]"
    if type(v) is tuple:
        return "U[" + ";".join(pshow(x) for x in v) + "]"
    raise RuntimeError(f"pshow: {v!r}")


def pparse(tok: str):
    v, rest = _pv(tok, 0)
    if rest != len(tok):
        raise RuntimeError("pparse: trailing text in " + tok)
    return v


def _span(s, i, pred):
    j = i
    while j < len(s) and pred(s[j]):
        j += 1
    return s[i:j], j


def _pl(s, i):
    out = []
    while s[i] not in "]|":
        v, i = _pv(s, i)
        out.append(v)
        if s[i] == ";":
            i += 1
    return out, i


def _pv(s, i):
    c = s[i]
    if c == "N":
        return None, i + 1
    if c == "T":
        return True, i + 1
    if c == "F":
        return False, i + 1
    if c == "i":
        d, j = _span(s, i + 1, lambda ch: ch.isdigit() or ch == "-")
        return int(d), j
    if c == "b":
        d, j = _span(s, i + 1, lambda ch: ch in "0123456789abcdef")
        return bytes.fromhex(d), j
    if c == "s":
        d, j = _span(s, i + 1, lambda ch: ch.isdigit() or ch == ".")
        return ("".join(chr(int(x)) for x in d.split(".")) if d else ""), j
    if c in "LU":
        xs, j = _pl(s, i + 2)
        return (xs if c == "L" else tuple(xs)), j + 1
    if c == "D":
        ks, j = _pl(s, i + 2)
        vs, j = _pl(s, j + 1)
        return dict(zip(ks, vs)), j + 1
    if c == "O":
        d, j = _span(s, i + 1, lambda ch: ch in "0123456789abcdef")
        p, j = _span(s, j + 1, str.isdigit)
        f = io.BytesIO(bytes.fromhex(d))
        f.seek(int(p))
        return f, j
    if c == "E":
        d, j = _span(s, i + 1, str.isdigit)
        n, j = _span(s, j + 1, lambda ch: ch.isdigit() or ch == "-")
        return ENUMS[int(d)](int(n)), j
    if c == "I":
        d, j = _span(s, i + 1, str.isdigit)
        xs, j = _pl(s, j + 1)
        if int(d) == 20:
            return B.Setting(**dict(zip(SETTING_FIELDS, xs))), j + 1
        if int(d) == 23:
            return Tagged(*xs), j + 1
    raise RuntimeError("pparse: " + s[i:i + 20])


# ---------------------------------------------------------------------------------------------------------------------
# random operands
# ---------------------------------------------------------------------------------------------------------------------
BYTES_FIXED = [b"", b"\x00", b"\x00\x00", b"a.b", b"a..b.", b"\x00\x01\x00\x01\x00\x02ab", b"\x00\x09\x00\x03\x00\x01", b"\xff\xff\xff\xff\xff\xff",
               b"\x00\x24\x00\x01\x00\x00", b"\x00\x01\x00\x01\x00\x02a", b"it's", b"aaa"]
STR_FIXED = ["", ".", "a.b", "BeaconSetting.200", "..", "index", "type", "length", "value", "foo", "name", "aaa", "_x", "é.☃"]
BIG = 2 ** 63


def rint(rng):
    return rng.choice([0, 1, -1, 2, 3, 5, -2, -6, 7, 36, 128, 255, 256, 65535, 2 ** 31 - 1, 2 ** 31, -2 ** 31 - 1, BIG - 1, BIG, -BIG, -BIG - 1, BIG - 3])


def rbytes(rng):
    if rng.random() < 0.5:
        return rng.choice(BYTES_FIXED)
    return bytes(rng.choice(b"a.\x00\x01\x02\x09\x24\xff") for _ in range(rng.choice([0, 1, 2, 5, 6, 7, 8, 9, 14])))


def rstr(rng):
    if rng.random() < 0.5:
        return rng.choice(STR_FIXED)
    return "".join(rng.choice("a._B0\x00é") for _ in range(rng.choice([0, 1, 2, 3, 6])))


def renum(rng):
    cls = rng.choice(list(ENUMS.values()))
    return cls(rng.choice([0, 1, 2, 3, 9, 16, 17, 36, 48, 75, 78, 79, 200, 65535, 70000, -5]))


def rbytesio(rng):
    d = rbytes(rng) + (rbytes(rng) if rng.random() < 0.5 else b"")
    f = io.BytesIO(d)
    f.seek(rng.choice([0, 0, 0, 1, 2, len(d), len(d) + 3, max(0, len(d) - 1)]))
    return f


def rsetting(rng):
    return B.Setting(index=renum(rng) if rng.random() < 0.8 else rint(rng), type=B.SettingsType(rng.choice([0, 1, 2, 3, 9])),
                     length=rng.choice([0, 2, 128]), value=rbytes(rng))


def value(rng, depth=0):
    r = rng.random()
    if r < 0.06:
        return None
    if r < 0.12:
        return rng.random() < 0.5
    if r < 0.27:
        return rint(rng)
    if r < 0.42:
        return rbytes(rng)
    if r < 0.55:
        return rstr(rng)
    if r < 0.65:
        return renum(rng)
    if r < 0.72:
        return rbytesio(rng)
    if r < 0.78:
        return rsetting(rng)
    if depth >= 2:
        return rint(rng)
    if r < 0.87:
        return [value(rng, depth + 1) for _ in range(rng.choice([0, 1, 2, 3]))]
    if r < 0.94:
        return tuple(value(rng, depth + 1) for _ in range(rng.choice([0, 1, 2, 3])))
    d = {}
    for _ in range(rng.choice([0, 1, 2])):
        d[rng.choice([rint, rbytes, rstr, renum])(rng)] = value(rng, depth + 1)
    return d


# ---------------------------------------------------------------------------------------------------------------------
# reference implementations (CPython / cstruct themselves)
# ---------------------------------------------------------------------------------------------------------------------
def _seek(p, off, whence):
    return (p.seek(off, whence), p)


def _structread(p):
    return (B.Setting(p), p)


def _setattr(x, name, v):
    setattr(x, name, v)
    return x


OPS = {"seek": _seek, "structread": _structread, "setattr": _setattr, "strof": str, "strreplace": lambda x, a, b: x.replace(a, b),
       "tupleof": tuple, "mappingproxy": MappingProxyType, "maxof": max}
ARITY = {"seek": 3, "structread": 1, "setattr": 3, "strof": 1, "strreplace": 3, "tupleof": 1, "mappingproxy": 1, "maxof": 1}


def _has(v, pred) -> bool:
    if pred(v):
        return True
    if isinstance(v, (list, tuple)):
        return any(_has(x, pred) for x in v)
    if isinstance(v, dict):
        return any(_has(x, pred) for x in list(v.keys()) + list(v.values()))
    return False


def _intlike(v) -> bool:
    return isinstance(v, int)       # bool, int, cstruct enum members


def modelled(op, args) -> bool:
    a = args[0]
    if op == "seek":
        return True
    if op == "structread":
        return isinstance(a, io.BytesIO)
    if op == "setattr":
        return isinstance(args[1], str) and args[1].isidentifier() and (not isinstance(a, B.Setting) or args[1] in SETTING_FIELDS) \
            and not isinstance(a, io.BytesIO) and type(a) not in ENUM_CID
    if op == "strof":
        if type(a) in ENUM_CID:
            return True
        if isinstance(a, (list, tuple, bytes)):
            return not _has(a, lambda x: isinstance(x, (dict, io.BytesIO, B.Setting)) or type(x) in ENUM_CID
                            or (isinstance(x, str) and any(ord(c) >= 128 and not c.isprintable() for c in x)))
        return a is None or type(a) in (bool, int, str)
    if op == "strreplace":
        if type(a) is str and type(args[1]) is str or type(a) is bytes and type(args[1]) is bytes:
            return len(args[1]) > 0 or type(args[2]) is not type(a)
        return not isinstance(a, B.Setting)
    if op == "tupleof":
        return not isinstance(a, (io.BytesIO, B.Setting))
    if op == "mappingproxy":
        return not isinstance(a, (str, bytes, B.Setting, io.BytesIO)) or type(a) in ENUM_CID
    if op == "maxof":
        if isinstance(a, (list, tuple)):
            return all(_intlike(x) for x in a)
        return a is None or (_intlike(a) and not isinstance(a, (bytes, str)))
    return True


def case(rng):
    op = rng.choice(sorted(OPS))
    a = value(rng)
    if op in ("seek", "structread") and rng.random() < 0.85:
        a = rbytesio(rng)
        if op == "structread" and rng.random() < 0.6:
            n = rng.choice([0, 1, 2, 3, 5])
            d = bytes([0, rng.choice([1, 9, 36, 200]), rng.choice([0, 1]), rng.choice([1, 2, 3]), 0, n]) + bytes(rng.choice(b"ab\x00") for _ in range(rng.choice([n, n, n + 2, max(0, n - 1)])))
            d = rng.choice([b"", b"zz"]) + d
            a = io.BytesIO(d)
            a.seek(len(d) - len(d.lstrip(b"z")) if d.startswith(b"zz") else 0)
    elif op == "setattr" and rng.random() < 0.8:
        a = rsetting(rng)
    elif op == "strof" and rng.random() < 0.5:
        a = renum(rng)
    elif op == "strreplace" and rng.random() < 0.85:
        a = rstr(rng) if rng.random() < 0.6 else rbytes(rng)
    elif op == "mappingproxy" and rng.random() < 0.5:
        a = value(rng, 1) if rng.random() < 0.3 else {rng.choice([1, "a", b"k"]): value(rng, 1) for _ in range(rng.choice([0, 1, 2]))}
    elif op == "maxof" and rng.random() < 0.85:
        a = [rng.choice([rint(rng), rng.random() < 0.5, renum(rng)]) for _ in range(rng.choice([0, 1, 2, 3, 4]))]
        if rng.random() < 0.3:
            a = tuple(a)
    args = [a]
    if op == "seek":
        args += [rint(rng) if rng.random() < 0.9 else value(rng, 1), rng.choice([0, 1, 2, 0, 1, 2, 3, -1, True, 2 ** 31, None, B.SettingsType(1), b"x"])]
    elif op == "setattr":
        args += [rng.choice(SETTING_FIELDS + ["foo"]), value(rng, 1)]
    elif op == "strreplace":
        pool = [".", "_", "", "a", "aa", "a.", b".", b"_", b"", b"a", b"aa", None, 1]
        args += [rng.choice(pool), rng.choice(pool)]
        if rng.random() < 0.5 and isinstance(a, (str, bytes)):
            args[1:] = [x for x in (rng.choice(pool), rng.choice(pool))]
            args[1] = ("." if isinstance(a, str) else b".") if rng.random() < 0.6 else args[1]
            args[2] = ("_" if isinstance(a, str) else b"_") if rng.random() < 0.6 else args[2]
    assert len(args) == ARITY[op]
    if not modelled(op, args):
        return None
    try:
        return "pyu " + op + " " + " ".join(pshow(x) for x in args)
    except RuntimeError:
        return None


def run(line: str) -> str:
    """the real operation on the operands of a `pyu` line"""
    w = line.split()
    r = OPS[w[1]](*[pparse(t) for t in w[2:]])
    return "ok " + pshow(r)

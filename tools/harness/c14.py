"""C14 — a parsed beacon configuration is an immutable value.

One case = one *history*: a configuration (a real sample beacon or a synthetic TLV block) and a sequence of uses
of ONE BeaconConfig object.  The line carries the abstract shape of the configuration (per setting: the three dict
keys, interned raw / parsed / pretty values, list-valued pretty values as lists of interned elements) and the
operation sequence; the Lean model (heap of list objects, cached views holding references) answers what every
operation returns and whether any object handed out shares a list with the configuration.

impl() executes the history against the real library and, independently of the model, evaluates the property
itself (trailing `O:` token): deep snapshot (copy.deepcopy of the four views + dumps of settings_tuple + config_block)
equal to the initial one at every `sn`, every result equal to the result of the same operation on a FRESH
BeaconConfig of the same block, no list object reachable from a result `is` a list of the cached views, item
assignment / deletion on the mappings raises TypeError.
"""
from __future__ import annotations

import copy
import io
import logging
import os
import random as _random
import signal
import struct
import zlib
import zipfile
from collections.abc import Mapping
from pathlib import Path

from Crypto.PublicKey import RSA

from dissect.cobaltstrike import beacon as B
from dissect.cobaltstrike import c2 as C2
from dissect.cobaltstrike import c2profile as C2P
from dissect.cobaltstrike import client as CL

from . import common as C

ID = "C14"
DRIVER = "drv_c14"
GEN = ["beacon"]
EXTRA_PROP_FILES = ["Props/C14R.lean"]
STREAMS = {
    "real": {"relevant": True, "desc": "histories on the sample beacons of tests/beacons"},
    "synth": {"relevant": True, "desc": "histories on synthetic TLV configurations with random transform programs"},
    "wire": {"relevant": True, "desc": "decoders of every key variant (incl. RSA-key-only) built from ONE configuration of the c2test "
             "beacon recover its recorded check-in / task / callback in random interleavings (iter_recover_http)"},
    "raising": {"relevant": True, "desc": "configurations with ONE setting whose pretty function raises (a SETTING_BEACON_GATE value shorter than its "
                "bitmap): every use of a rendered view / decoder / client / profile raises the same exception whatever came before, the raw views "
                "keep working, nothing observable changes (driver-level rule `raisingRule`, not part of the heap model)"},
    "degenerate": {"relevant": True, "desc": "configurations lacking settings / trial / non-HTTP / bad public key (exception paths)"},
}
TRUSTED = [
    "tools/harness/c14.py: abstraction of a configuration to its shape (interning of values by repr, per-setting "
    "re-implementation of the settings_map value computation), op execution, deep snapshot oracle; line parsing in "
    "lean/CsVerif/Driver/C14.lean",
    "Model/C14.lean is a model of the object graph (which list objects exist, who references them, who writes them), "
    "not of the values: scalars, step tuples, bytes are immutable Python objects and are interned ids; the settings "
    "tuple and the Setting structures are assumed not to be written by any modelled operation (checked by the snapshot "
    "of Setting.dumps())",
    "iter_recover_http is modelled on the recorded session of the c2test sample only (tests/test_c2.py wire messages and RSA "
    "key): per-decoder key state {has private key, session keys none/foreign/own, metadata cached}; RSA/AES/HMAC are not modelled",
    "transform()/recover() are modelled as readers of the decoder's own tsteps/rsteps (their byte-level semantics is C04); "
    "the request dicts they write belong to the caller",
]
ASSUMPTIONS = [
    "operations are the ones listed in the property (view access, settings_map, scalar properties, C2Http with each key "
    "variant, HttpBeaconClient.run(dry_run=True), C2Profile.from_beacon_config(...).as_text(), transform/recover, item "
    "assignment/deletion on a mapping); callers that mutate a list they obtained from a view are outside the property",
    "identity of the mapping objects themselves (cfg.settings is cfg.settings) is recorded but not compared: rebuilding "
    "a view on every access changes no observable",
    "the RSA private-key variant is only exercised on synthetic configurations that embed the harness' own public key",
]
RULE = ("distinct = hash of (stream, line); non-trivial = the history contains at least one successful decoder / client / "
        "profile construction or a transform/recover call and at least one snapshot")

XOR_KEYS = [b"\x69", b"\x2e", b"\xaf", b"\xcc"]
REPO = Path(os.environ.get("VERIF_REPO", "/repo"))
BEACON_DIR = Path("/repo/tests/beacons")  # sample data (not code): always read from the reference checkout
if (REPO / "tests" / "beacons").is_dir():
    BEACON_DIR = REPO / "tests" / "beacons"

PRIV_DER = bytes.fromhex(
    "3082025c02010002818100ac4695e48738dd0e498b8bd29c91d1d798a7347793e537a5d0281d0a320afdc450851db5c600d445b02ad639"
    "94564d25408ec2c5107a78830f97a65e46abf7e14b33cf2f1323bda18226c72e8b97ce741d968a9632555485d494dea3f31390177d66d4"
    "00b20dd0249606f41b4ced27c723442a7d44a6879acf9066fbfdec27fd020301000102818001d9dcf8c5cbd7c83459c2535828fd9b0b97"
    "59aa2295d7140f84017d34b8c72d945091d751a77c4b116501c4959cf07042dcd07d433b904eec31ccc6523667cfe87f540af4b9e22120"
    "dda4e02ccbbc81dd7fde8d44337b6a829dff9e123d4aec972d81cc1fe814a4329178145a30562701af8b5a83fa4dd0df0862d3a129642b"
    "024100b5534ccfb812af733c9535bed7a19aa8cae037a7ab2d937508a828937d53a5b8abeff0fcb8c95035a6344aac426b3e32e39a50e9"
    "1ddf00b204a637aca28febc3024100f3393370774cd9f249a6817200f20850233e83f63115d6468783704c41632694962b948fddce350f"
    "e211901c5b63ac9eca37dcd432998d63ba479b94eb9f213f024100ab3953e93a8afa7eb910b545d75d552c5b174bb6dae018c4853e35c2"
    "c0b00267d684a76e1e188bd37d7517a67eb9c26c4f9ce3169f0c7c1d9e624f6487c59bfd024050e2ee0371f961e5dcae7e100ed66f034f"
    "a543b7853d70e445bee582c6a015bd866f79d99a77305856e3665cb7dbdf1573c4be30e79eff51722acc47eb50217b02403c41dcadf97b"
    "f75b623dbb9cea9685e66f6863fd10b3fa31a7e85985c8a134dab485d62c76dd21ab14924a43904c56db6eb875bb7ec8cb99486172769f"
    "799e57"
)
_PRIV = None


def priv_key():
    global _PRIV
    if _PRIV is None:
        _PRIV = RSA.import_key(PRIV_DER)
    return _PRIV


C2TEST_STEM = "37882262c9b5e971067fd989b26afe28.bin"
C2TEST_RSA = (
    117427205845348485244015322822129549811247730233368658993207011448441178690532504818038502351592533412903992324819587429509365062557617469076848055744603713033993541074262699306731808123110723658011905734336339013104629861585165807593797388931565187434008170828073710103901578805379036254367111549325081196051,  # noqa: E501
    65537,
    63143753317910889550701801906932991514689126160094983163397901802867320417978485470688235063742198605431276889680136115527710059502159043406582576750470401211113680307065390018237044267922185483204732358859031408916065489305405381946331418517893749803908480784415439301698216721664479409505596732533109402129,  # noqa: E501
)
C2TEST_AES_RAND = bytes.fromhex("caeab4f452fe41182d504aa24966fbd0")
# recorded session of that beacon (tests/test_c2.py; malware-traffic-analysis.net 2021-02-02)
WIRE = [
    (b"GET /ptj HTTP/1.1\r\nAccept: */*\r\n"
     b"Cookie: KN9zfIq31DBBdLtF4JUjmrhm0lRKkC/I/zAiJ+Xxjz787h9yh35cRjEnXJAwQcWP4chXobXT/E5YrZjgreeGTrORnj//A5iZw2TClEnt++gLMyMHwgjsnvg9czGx6Ekpz0L1uEfkVoo4MpQ0/kJk9myZagRrPrFWdE9U7BwCzlE=\r\n"  # noqa: E501
     b"User-Agent: Mozilla/5.0 (compatible; MSIE 9.0; Windows NT 6.0; WOW64; Trident/5.0)\r\nHost: redacted:8080\r\n"
     b"Connection: Keep-Alive\r\nCache-Control: no-cache\r\n\r\n"),
    (b"HTTP/1.1 200 OK\r\nDate: Tue, 2 Feb 2021 16:32:16 GMT\r\nContent-Type: application/octet-stream\r\n"
     b"Content-Length: 48\r\n\r\n"
     b"\xea\xa7eW\x17\xb9\x84[\x8fE\x8cS\x13p\xf8\x83\x9e\xba\xb6\x15\x9d\xcc\xd0c\x06\x91s9\xca7\x90U\xdc1V\xd9|z\x14[\xa4\xe2Q\xd0s\x8d\x8f@"),  # noqa: E501
    (b"POST /submit.php?id=242569267 HTTP/1.1\r\nAccept: */*\r\nContent-Type: application/octet-stream\r\n"
     b"User-Agent: Mozilla/5.0 (compatible; MSIE 9.0; Windows NT 6.0; WOW64; Trident/5.0)\r\nHost: redacted:8080\r\n"
     b"Content-Length: 148\r\nConnection: Keep-Alive\r\nCache-Control: no-cache\r\n\r\n"
     b"\x00\x00\x00\x90U@D\x97\x8d\xf1L\xda\xd3\r\x98\xed\x10\xe0\xff#\x97W\xde\x17\xa1:x\xeb\xa3\xe4\x89 \xaeq\xde\xae\xfc\xd87\x1d\x9f\xed\x95K\x19\x94n\xf2\xeb\x1eO\x9e\xad\xd4`-\x7f\x82m\\\xe2\x06<\xda\xefjx@\x04;\xac\xdd\x13P\x9d\xaf\x86\xc6\xd4*,9\xe7\xe2\xfa\xe2\xc3\xdc}92\x94A\x90\xbb\x01\xa3' \\PB\x86q\xf6y\xda:\xf7\xbe'\xba\xaa\xbe_\xd8\"\x96h\x11\xe4)!\x9d\x8d\xfe\xc2\x83\xbe\xee!\xa0:5\xa6\x00>[\x05\xdf\x12F\xaaN\xcc\xf1\x10\x97"),  # noqa: E501
]
# requests the routing must refuse whatever the decoder has seen before: the check-in under the submit verb, the callback
# under the get verb (paths and verbs of the c2test configuration: GET /ptj, POST /submit.php)
WIRE.append(WIRE[0].replace(b"GET /ptj", b"POST /ptj", 1))
WIRE.append(WIRE[2].replace(b"POST /submit.php", b"GET /submit.php", 1))
PACKET_KIND = {"BeaconMetadata": 1, "TaskPacket": 2, "CallbackPacket": 3}
_C2TEST_PRIV = None


def c2test_index():
    real_configs()
    return _REAL_NAMES.index(C2TEST_STEM + ".zip") if (C2TEST_STEM + ".zip") in _REAL_NAMES else None


def key_material(tok):
    """(aes_key, hmac_key, aes_rand, rsa private key) used for the decoders of configuration `tok`"""
    global _C2TEST_PRIV
    i = c2test_index()
    if i is not None and tok == f"r{i}":
        if _C2TEST_PRIV is None:
            _C2TEST_PRIV = RSA.construct(C2TEST_RSA)
        ak, hk = C2.derive_aes_hmac_keys(C2TEST_AES_RAND)
        return ak, hk, C2TEST_AES_RAND, _C2TEST_PRIV
    return AES_KEY, HMAC_KEY, AES_RAND, priv_key()


AES_KEY = bytes(range(16))
HMAC_KEY = bytes(range(16, 32))
AES_RAND = bytes(range(32, 48))

VIEWS = ["settings", "settings_by_index", "raw_settings", "raw_settings_by_index"]
KINDS = ["name", "const", "enum"]

# ---------------------------------------------------------------------------------------------------------
# configurations
# ---------------------------------------------------------------------------------------------------------

_REAL = None
_REAL_NAMES = []


def real_configs():
    """[(block, attrs)] of the sample beacons, loaded once per process."""
    global _REAL
    if _REAL is None:
        out = []
        for p in sorted(BEACON_DIR.glob("*.bin.zip")):
            with zipfile.ZipFile(p) as zf:
                data = zf.read(p.stem, pwd=b"dissect.cobaltstrike")
            try:
                cfg = B.BeaconConfig.from_bytes(data, xor_keys=XOR_KEYS)
            except ValueError:
                continue
            attrs = {k: getattr(cfg, k) for k in ("xorkey", "xorencoded", "pe_export_stamp", "pe_compile_stamp", "architecture")}
            out.append((bytes(cfg.config_block), attrs))
            _REAL_NAMES.append(p.name)
        _REAL = out
    return _REAL


def fresh(tok: str):
    if tok[0] == "r":
        block, attrs = real_configs()[int(tok[1:])]
        cfg = B.BeaconConfig(block)
        for k, v in attrs.items():
            setattr(cfg, k, v)
        return cfg
    return B.BeaconConfig(C.unhx(tok))


def tlv(index: int, typ: int, value: bytes) -> bytes:
    return struct.pack(">HHH", index, typ, len(value)) + value


def t_short(i, v):
    return tlv(i, 1, struct.pack(">H", v))


def t_int(i, v):
    return tlv(i, 2, struct.pack(">I", v))


def t_ptr(i, v: bytes, size=None):
    if size is not None and len(v) < size:
        v = v + bytes(size - len(v))
    return tlv(i, 3, v)


ALNUM = b"abcdefghijklmnopqrstuvwxyzABCDEFGHIJKLMNOPQRSTUVWXYZ0123456789"


def rword(rng, lo=1, hi=8):
    return bytes(rng.choice(ALNUM) for _ in range(rng.randrange(lo, hi + 1)))


def u32(v):
    return struct.pack(">I", v)


def arg(b):
    return u32(len(b)) + b


DATA_STEPS = [3, 13, 8, 11, 15]  # BASE64, BASE64URL, NETBIOS, NETBIOSU, MASK


def gen_data_steps(rng, maxn=3):
    out = b""
    names = []
    for _ in range(rng.randrange(0, maxn + 1)):
        r = rng.random()
        if r < 0.6:
            s = rng.choice(DATA_STEPS)
            out += u32(s)
            names.append(s)
        elif r < 0.8:
            out += u32(1) + arg(rword(rng))
            names.append(1)
        else:
            out += u32(2) + arg(rword(rng))
            names.append(2)
    return out, names


def gen_termination(rng, allow_uri=True, allow_print=True):
    r = rng.random()
    if r < 0.35 and allow_print:
        return u32(4)  # PRINT
    if r < 0.65:
        return u32(6) + arg(rword(rng))  # HEADER
    if r < 0.9 or not allow_uri:
        return u32(5) + arg(rword(rng))  # PARAMETER
    return u32(12)  # URI_APPEND


def gen_static(rng):
    out = b""
    for _ in range(rng.randrange(0, 3)):
        r = rng.random()
        if r < 0.5:
            out += u32(10) + arg(rword(rng) + b": " + rword(rng))
        elif r < 0.8:
            out += u32(9) + arg(rword(rng) + b"=" + rword(rng))
        else:
            out += u32(16) + arg(b"Host: " + rword(rng) + b".com")
    return out


def gen_request_prog(rng):
    """http-get.client: static headers, BUILD metadata, data steps, termination"""
    d, _ = gen_data_steps(rng)
    return gen_static(rng) + u32(7) + u32(0) + d + gen_termination(rng) + u32(0)


def gen_postreq_prog(rng):
    d1, _ = gen_data_steps(rng, 2)
    d2, _ = gen_data_steps(rng, 2)
    t1 = gen_termination(rng, allow_print=False)  # the id must not go where the output goes
    return gen_static(rng) + u32(7) + u32(0) + d1 + t1 + u32(7) + u32(1) + d2 + u32(4) + u32(0)


def gen_recover_prog(rng):
    out = u32(4)  # print
    for _ in range(rng.randrange(0, 5)):
        r = rng.random()
        if r < 0.6:
            out += u32(rng.choice(DATA_STEPS))
        elif r < 0.8:
            out += u32(1) + u32(rng.randrange(0, 40))
        else:
            out += u32(2) + u32(rng.randrange(0, 40))
    return out + u32(0)


def gen_execute(rng):
    out = b""
    for _ in range(rng.randrange(0, 5)):
        v = rng.choice([1, 2, 3, 4, 5, 8, 6, 7])
        out += bytes([v])
        if v in (6, 7):
            out += struct.pack(">H", rng.choice([0, 0x20])) + arg(b"ntdll.dll\x00") + arg(b"RtlUserThreadStart\x00")
    return out + b"\x00"


def gen_synth(rng, degenerate=False, own_key=True):
    """A synthetic HTTP(S) configuration block. `degenerate` drops / breaks settings to reach the exception paths."""
    items = []
    proto = rng.choice([0, 8])
    pub = priv_key().publickey().export_key("DER") if own_key else b""
    trial = 0
    drop = set()
    if degenerate:
        r = rng.random()
        if r < 0.2:
            proto = rng.choice([1, 2, 4, 16])
        elif r < 0.35:
            trial = 1
        elif r < 0.5:
            pub = rng.choice([b"", b"\x30\x03\x02\x01\x01", C.rbytes(rng, 40)])
        drop = set(rng.sample([1, 3, 5, 7, 8, 9, 10, 11, 12, 13, 26, 27, 54, 31], rng.randrange(0, 4)))
    doms = b",".join(rword(rng, 3, 8) + b".com,/" + rword(rng) for _ in range(rng.randrange(1, 4)))
    items = [
        (1, t_short(1, proto)),
        (2, t_short(2, rng.choice([80, 443, 8080]))),
        (3, t_int(3, rng.choice([1000, 60000, 5000]))),
        (5, t_short(5, rng.randrange(0, 100))),
        (7, t_ptr(7, pub, 256)),
        (8, t_ptr(8, doms, 256)),
        (9, t_ptr(9, b"Mozilla/5.0 " + rword(rng), 128)),
        (10, t_ptr(10, b"/" + rword(rng), 64)),
        (11, t_ptr(11, gen_recover_prog(rng), 256)),
        (12, t_ptr(12, gen_request_prog(rng), 256)),
        (13, t_ptr(13, gen_postreq_prog(rng), 512)),
        (26, t_ptr(26, b"GET", 16)),
        (27, t_ptr(27, b"POST", 16)),
        (31, t_short(31, trial)),
        (37, t_int(37, rng.getrandbits(31))),
        (54, t_ptr(54, rng.choice([b"", b"Host: " + rword(rng) + b".net"]), 128)),
    ]
    if rng.random() < 0.7:
        items.append((51, t_ptr(51, gen_execute(rng), 128)))
    if rng.random() < 0.6:
        a = rng.choice([b"", b"\x90\x90", rword(rng)])
        p = rng.choice([b"", rword(rng)])
        items.append((46, t_ptr(46, arg(a) + arg(p), 64)))
        items.append((47, t_ptr(47, arg(a) + arg(p), 64)))
    if rng.random() < 0.5:
        secs = b"".join(struct.pack("<II", x, x + 0x1000) for x in rng.sample(range(0x1000, 0x90000, 0x1000), rng.randrange(0, 4)))
        items.append((42, t_ptr(42, secs + bytes(8))))
    if rng.random() < 0.3:
        items.append((36, t_short(36, rng.randrange(0, 4))))      # deprecated SETTING_INJECT_OPTIONS (index 36 as TYPE_SHORT)
    if rng.random() < 0.3:
        items.append((29, t_ptr(29, b"%windir%\\syswow64\\rundll32.exe", 64)))
        items.append((30, t_ptr(30, b"%windir%\\sysnative\\rundll32.exe", 64)))
    items = [it for it in items if it[0] not in drop]
    # duplicated list-valued setting (dict keeps the first position, takes the last value)
    if rng.random() < 0.25:
        k = rng.choice([11, 12, 13])
        prog = {11: gen_recover_prog, 12: gen_request_prog, 13: gen_postreq_prog}[k](rng)
        items.insert(rng.randrange(0, len(items) + 1), (k, t_ptr(k, prog, 256)))
    if rng.random() < 0.5:
        rng.shuffle(items)
    return b"".join(b for _, b in items) + bytes(6)


# ---------------------------------------------------------------------------------------------------------
# abstraction: interning and shape
# ---------------------------------------------------------------------------------------------------------

BUILD_OUTPUT_REPR = repr(("BUILD", "output"))
_NAME_TO_CONST = None


def name_to_const():
    """name -> value for every BeaconSetting value v with BeaconSetting(v).name == name (as Gen.Beacon.settingNames)."""
    global _NAME_TO_CONST
    if _NAME_TO_CONST is None:
        d = {}
        for m in B.BeaconSetting.__members__.values():
            v = int(m.value)
            d[B.BeaconSetting(v).name] = v
        _NAME_TO_CONST = d
    return _NAME_TO_CONST


class Table:
    """interning of immutable values by (type-qualified) repr; id 0 is ("BUILD","output")."""

    def __init__(self):
        self.ids = {BUILD_OUTPUT_REPR: 0}
        self.names = {}
        self.enums = {}
        self.frozen = False

    def val(self, v) -> int:
        r = repr(v)
        if r not in self.ids:
            self.ids[r] = (900000 if self.frozen else 0) + len(self.ids)
        return self.ids[r]

    def name_key(self, name: str) -> int:
        n2c = name_to_const()
        if name in n2c:
            return n2c[name]
        if name not in self.names:
            self.names[name] = (900000 if self.frozen else 1000) + len(self.names)
        return self.names[name]

    def enum_key(self, e) -> int:
        if e not in self.enums:
            self.enums[e] = (900000 if self.frozen else 0) + len(self.enums)
        return self.enums[e]


def setting_values(s):
    """(unparsed, parsed, pretty) of one Setting — an independent restatement of the loop body of settings_map."""
    val = s.value
    parsed = val
    if s.type == B.SettingsType.TYPE_SHORT:
        parsed = int.from_bytes(val[:2], "big") if len(val) >= 2 else B.u16be(val)
    elif s.type == B.SettingsType.TYPE_INT:
        parsed = int.from_bytes(val[:4], "big") if len(val) >= 4 else B.u32be(val)
    pretty = parsed
    fn = B.SETTING_TO_PRETTYFUNC.get(s.index)
    if fn:
        pretty = fn(parsed)
    return val, parsed, pretty


def shape(tok: str):
    """(table, flags string, [setting tokens], number of list-valued entries of the pretty const view)"""
    cfg = fresh(tok)
    t = Table()
    toks = []
    pretty_const = {}
    for s in cfg.settings_tuple:
        un, pa, pr = setting_values(s)
        name = s.index.name or str(s.index).replace(".", "_")
        nk, ck, ek = t.name_key(name), int(s.index.value), t.enum_key(s.index)
        if isinstance(pr, list):
            p = "l" + ".".join(str(t.val(x)) for x in pr)
        else:
            p = "s" + str(t.val(pr))
        toks.append(f"{nk},{ck},{ek},{t.val(un)},{t.val(pa)},{p}")
        pretty_const[ck] = isinstance(pr, list)
    t.frozen = True
    # facts about scalar contents that decide the exception paths of the constructors
    raw = {}
    for s in cfg.settings_tuple:
        name = s.index.name or str(s.index).replace(".", "_")
        raw[name] = setting_values(s)[1]
    pub = raw.get("SETTING_PUBKEY", b"")
    pub = pub.rstrip(b"\x00") if isinstance(pub, bytes) else b""
    try:
        RSA.import_key(pub)
        pub_ok = True
    except (ValueError, IndexError, TypeError):
        pub_ok = False
    trial = raw.get("SETTING_CRYPTO_SCHEME") == int(B.CryptoScheme.CRYPTO_TRIAL_PRODUCT.value)
    proto = raw.get("SETTING_PROTOCOL")
    proto_http = proto in (int(B.BeaconProtocol.http.value), int(B.BeaconProtocol.https.value))
    doms = raw.get("SETTING_DOMAINS")
    has_dom = isinstance(doms, bytes)  # generators keep SETTING_DOMAINS well-formed ("dom,/uri,...") when present
    flags = C.tf(pub_ok) + C.tf(trial) + C.tf(proto_http) + C.tf(has_dom)
    return t, flags, toks, sum(1 for v in pretty_const.values() if v)


_SHAPES = {}


def shape_cached(tok):
    if tok not in _SHAPES:
        if len(_SHAPES) > 64:
            _SHAPES.clear()
        _SHAPES[tok] = shape(tok)
    return _SHAPES[tok]


def mk_line(tok: str, ops) -> str:
    _t, flags, stoks, _n = shape_cached(tok)
    return " ".join(["hist", "T", flags, tok, str(len(stoks))] + stoks + list(ops))


# ---------------------------------------------------------------------------------------------------------
# generators
# ---------------------------------------------------------------------------------------------------------

def gen_wire_ops(rng, n, snap_every):
    """decoder constructions of every key variant interleaved with iter_recover_http of the recorded messages"""
    ops = []
    ndec = 0
    for _ in range(n):
        r = rng.random()
        if r < 0.30 or ndec == 0:
            op = f"c2:{rng.choice([0, 1, 2, 2, 2, 4, 3])}"
            ndec += 1
        elif r < 0.36:
            op = "cl:T"
            ndec += 1
        elif r < 0.88:
            d = rng.randrange(0, ndec) if rng.random() < 0.95 else ndec + 2
            op = f"wr:{d}:{rng.choice([0, 0, 1, 1, 2, 2, 3, 4])}"
        elif r < 0.92:
            op = f"{rng.choice(['tr', 'rc'])}:{rng.randrange(0, ndec)}:{rng.randrange(3)}"
        elif r < 0.96:
            op = rng.choice(["pf", "va:0", "va:1", "pr"])
        else:
            op = "sn"
        ops.append(op)
        if snap_every:
            ops.append("sn")
    if ops[-1] != "sn":
        ops.append("sn")
    return ops


WIRE_DIRECTED = [
    # decoder A sees the check-in, then an RSA-key-only decoder B is built and recovers the same session
    ["c2:2", "wr:0:0", "c2:2", "wr:1:0", "wr:1:1", "wr:1:2", "sn"],
    ["c2:4", "wr:0:0", "c2:2", "wr:1:0", "wr:1:1", "sn"],
    ["c2:2", "wr:0:1", "wr:0:0", "wr:0:1", "wr:0:0", "wr:0:2", "sn"],
    ["c2:0", "c2:1", "c2:2", "c2:4", "wr:0:0", "wr:1:0", "wr:2:0", "wr:3:0", "wr:0:1", "wr:1:1", "wr:2:1", "wr:3:1",
     "wr:0:2", "wr:1:2", "wr:2:2", "wr:3:2", "sn"],
    ["c2:2", "c2:2", "wr:1:0", "wr:0:1", "wr:0:0", "wr:0:1", "wr:1:1", "sn"],
    ["cl:T", "wr:0:0", "wr:0:1", "c2:2", "wr:1:0", "wr:1:2", "sn"],
    ["sn", "c2:2", "sn", "wr:0:0", "sn", "c2:2", "sn", "wr:1:0", "sn", "wr:1:1", "sn"],
    # routing is a function of the request, not of what the decoder routed before (same path, other verb)
    ["c2:2", "wr:0:3", "wr:0:0", "wr:0:3", "wr:0:2", "wr:0:4", "wr:0:1", "sn"],
    ["c2:1", "wr:0:2", "wr:0:4", "wr:0:0", "wr:0:3", "sn"],
]


def gen_ops(rng, n, allow_rsa, snap_every):
    ops = []
    ndec = 0
    for _ in range(n):
        r = rng.random()
        if r < 0.16:
            op = f"va:{rng.randrange(4)}"
        elif r < 0.24:
            op = f"sm:{rng.randrange(3)}:{rng.choice('TF')}:{rng.choice('TF')}"
        elif r < 0.44:
            k = rng.choice([0, 0, 1, 1, 2, 4, 3] if allow_rsa else [0, 0, 1, 1, 3])
            op = f"c2:{k}"
            ndec += 1
        elif r < 0.52:
            op = f"cl:{'T' if rng.random() < 0.85 else 'F'}" + rng.choice(["", "", ":1", ":2", ":7"])
            ndec += 1
        elif r < 0.62:
            op = "pf"
        elif r < 0.76:
            d = rng.randrange(0, ndec + 1) if rng.random() < 0.9 else ndec + 3
            op = f"{rng.choice(['tr', 'rc'])}:{d}:{rng.randrange(3)}"
        elif r < 0.82:
            op = rng.choice(["pr", "pp"])
        elif r < 0.90:
            op = f"mu:v:{rng.randrange(4)}" if rng.random() < 0.7 else f"mu:f:{rng.randrange(3)}:{rng.choice('TF')}:{rng.choice('TF')}"
        else:
            op = "sn"
        ops.append(op)
        if snap_every:
            ops.append("sn")
    if not ops or ops[-1] != "sn":
        ops.append("sn")
    return ops


DIRECTED = [
    ["c2:0", "sn"],
    ["c2:0", "c2:0", "sn", "tr:1:2", "rc:1:2", "tr:0:2", "rc:0:2"],
    ["c2:1", "sn", "c2:0", "sn", "cl:T", "sn", "pf", "sn"],
    ["pf", "c2:0", "pf", "sn"],
    ["cl:T", "cl:T", "sn", "tr:0:0", "tr:1:0", "rc:0:1", "rc:1:1"],
    ["cl:T", "cl:T:1", "sn", "tr:0:0", "tr:1:0", "rc:0:1", "rc:1:1", "cl:T:2", "cl:T", "sn"],
    ["cl:T:3", "c2:1", "cl:T", "tr:0:0", "tr:1:1", "tr:2:0", "tr:0:1", "sn"],
    ["va:0", "c2:0", "va:0", "va:1", "sn"],
    ["sn", "c2:0", "sn", "c2:1", "sn", "c2:0", "sn"],
    ["va:1", "pf", "va:1", "c2:0", "va:1", "sn"],
    ["mu:v:0", "mu:v:1", "mu:v:2", "mu:v:3", "mu:f:0:T:T", "mu:f:1:F:F", "mu:f:2:T:F", "sn"],
    ["sm:0:T:T", "sm:0:T:T", "sm:1:T:T", "sm:2:F:F", "sm:1:F:T", "sn"],
    ["c2:3", "cl:F", "sn", "tr:0:0", "rc:5:1"],
    ["pr", "pp", "sn", "c2:0", "pr", "pp", "sn"],
    ["c2:0", "tr:0:0", "tr:0:1", "tr:0:2", "rc:0:0", "rc:0:1", "rc:0:2", "c2:0", "tr:0:2", "tr:1:2", "sn"],
]


def gen(tier, rng, shard, nshards):
    thorough = tier == "thorough"
    k = 0

    def mine():
        nonlocal k
        k += 1
        return (k % nshards) == shard

    nreal = len(real_configs())
    # directed histories on every real configuration
    for i in range(nreal):
        for ops in DIRECTED:
            if mine():
                yield "real", mk_line(f"r{i}", ops)
    # random histories on real configurations
    ci = c2test_index()
    for _ in range((3000 if thorough else 200) // nshards):
        i = rng.randrange(nreal)
        n = rng.randrange(1, 26)
        yield "real", mk_line(f"r{i}", gen_ops(rng, n, i == ci, rng.random() < 0.5))
    # traffic recovery with several decoders of one configuration (the beacon the recorded session belongs to)
    if ci is not None:
        for ops in WIRE_DIRECTED:
            if mine():
                yield "wire", mk_line(f"r{ci}", ops)
        for _ in range((2400 if thorough else 200) // nshards):
            n = rng.randrange(2, 26)
            yield "wire", mk_line(f"r{ci}", gen_ops(rng, n, True, False) if rng.random() < 0.1
                                  else gen_wire_ops(rng, n, rng.random() < 0.3))
    # synthetic configurations
    for _ in range((1800 if thorough else 120) // nshards):
        tok = C.hx(gen_synth(rng))
        if rng.random() < 0.4:
            yield "synth", mk_line(tok, rng.choice(DIRECTED))
        for _ in range(2):
            n = rng.randrange(1, 26)
            yield "synth", mk_line(tok, gen_ops(rng, n, True, rng.random() < 0.5))
    for _ in range((1200 if thorough else 120) // nshards):
        ln = gen_raising(rng)
        if ln is not None:
            yield "raising", ln
    for _ in range((900 if thorough else 70) // nshards):
        tok = C.hx(gen_synth(rng, degenerate=True, own_key=rng.random() < 0.8))
        n = rng.randrange(1, 16)
        yield "degenerate", mk_line(tok, gen_ops(rng, n, False, rng.random() < 0.5))
        if rng.random() < 0.3:
            yield "degenerate", mk_line(tok, rng.choice(DIRECTED))


def gen_raising(rng):
    """(line) a synthetic configuration plus one non-renderable setting, and 2-9 uses of it"""
    blk = gen_synth(rng)
    val = rng.choice([b"", b"\x00", b"\x00\x01", b"\x01\x02\x03"])
    bad = tlv(78, 3, val)
    pos = rng.choice(["end", "front", "mid"])
    body = blk[:-6]
    if pos == "end":
        body = body + bad
    elif pos == "front":
        body = bad + body
    else:
        # between two settings: walk the TLVs
        offs, o = [0], 0
        while o + 6 <= len(body):
            o += 6 + int.from_bytes(body[o + 4:o + 6], "big")
            offs.append(o)
        cut = rng.choice(offs)
        body = body[:cut] + bad + body[cut:]
    try:
        B.SETTING_TO_PRETTYFUNC[B.BeaconSetting(78)](val)
        return None                                   # renders after all: not a case of this stream
    except Exception as e:  # noqa: BLE001
        exc = type(e).__name__
    pool = ["va:0", "va:1", "va:2", "va:3", "c2:0", "c2:1", "pf", "cl:T", "va:0", "c2:0"]
    ops = []
    for _ in range(rng.randrange(2, 10)):
        if rng.random() < 0.15:
            ops.append(f"sm:{rng.randrange(3)}:{rng.choice('TF')}:{rng.choice('TF')}")
        else:
            ops.append(rng.choice(pool))
    return "rais " + exc + " - " + C.hx(body + bytes(6)) + " 0 " + " ".join(ops)


def raw_snapshot(cfg):
    """what stays observable of a configuration whose rendered views raise: the Setting structures, the block, the two raw
    views, the three unrendered settings_map variants, and the names hanging off the object"""
    pre = tuple((repr(s.index), repr(s.type), int(s.length), bytes(s.value), s.dumps()) for s in cfg.settings_tuple)
    views = [[(repr(k), copy.deepcopy(v)) for k, v in getattr(cfg, name).items()] for name in VIEWS[2:]]
    maps = [[(repr(k), copy.deepcopy(v)) for k, v in cfg.settings_map(index_type=kd, pretty=False, parse=pa).items()] for kd in KINDS for pa in (True, False)]
    return pre, bytes(cfg.config_block), views, maps


def impl_raising(line):
    w = line.split(" ")
    tok, ops = w[3], w[5:]
    logging.disable(logging.CRITICAL)
    try:
        cfg = fresh(tok)
        initial = raw_snapshot(fresh(tok))
        r = Runner(cfg, tok)
        r.text_budget = 0
        out, viol = [], None
        for i, op in enumerate(ops):
            try:
                kind, _payload, can = r.run(op)
                tokn = kind
            except Exception as e:  # noqa: BLE001
                _reraise_watchdog(e)
                can = ("exc", type(e).__name__)
                tokn = "E:" + type(e).__name__
            if viol is None and run_fresh(tok, op, {}, False) != can:
                viol = f"history@{i}"
            if viol is None and raw_snapshot(cfg) != initial:
                viol = f"snapshot@{i}"
            out.append(tokn)
        out.append("O:ok" if viol is None else "O:viol:" + viol)
        return " ".join(out)
    finally:
        logging.disable(logging.NOTSET)


# ---------------------------------------------------------------------------------------------------------
# implementation side
# ---------------------------------------------------------------------------------------------------------

def dots(t: Table, xs) -> str:
    return ".".join(str(t.val(x)) for x in xs)


def render_key(t: Table, k) -> str:
    if isinstance(k, str):
        return "n" + str(t.name_key(k))
    if isinstance(k, int) and not hasattr(k, "name"):
        return "c" + str(k)
    return "e" + str(t.enum_key(k))


def render_val(t: Table, v) -> str:
    if isinstance(v, list):
        return "l" + dots(t, v)
    return "s" + str(t.val(v))


def render_mapping(t: Table, m) -> str:
    return ",".join(render_key(t, k) + "=" + render_val(t, v) for k, v in m.items())


def render_snapview(t: Table, m) -> str:
    return str(len(m)) + ":" + ",".join(render_key(t, k) + "=" + render_val(t, v) for k, v in m.items() if isinstance(v, list))


def transforms_of(dec):
    return [dec.transform_submit, dec.transform_get, dec.transform_response]


def render_decoder(t: Table, dec) -> str:
    return "/".join(dots(t, tr.tsteps) + "/" + dots(t, tr.rsteps) for tr in transforms_of(dec))


def canon_attr(v, views, depth=0):
    """canonical deep value of one attribute of the configuration object.  `None` and a mapping whose contents are
    those of one of the four views are both a `cache-slot` (filling a cache is not an observable change); everything
    else is compared by content."""
    if v is None:
        return "cache-slot/None"
    if isinstance(v, Mapping):
        items = [(repr(k), copy.deepcopy(x)) for k, x in v.items()]
        if items in views:
            return "cache-slot/None"
        return ("map", [(k, canon_attr(x, views, depth + 1)) for k, x in items])
    if isinstance(v, (bytes, str, int, float, bool)):
        return repr(v)
    if isinstance(v, (list, tuple)):
        return (type(v).__name__, [canon_attr(x, views, depth + 1) for x in v])
    if hasattr(v, "dumps") and callable(v.dumps):
        try:
            return (type(v).__name__, v.dumps())
        except Exception:  # noqa: BLE001
            pass
    if hasattr(v, "__dict__") and depth < 4:
        return (type(v).__name__, [(k, canon_attr(x, views, depth + 1)) for k, x in sorted(vars(v).items())])
    return type(v).__name__


def deep_snapshot(cfg):
    """independent deep observation of the configuration: the four views (accessed), the dumps of the settings tuple,
    the block, and EVERY attribute hanging off the object (names and deep contents)"""
    # the Setting objects first, as they stand BEFORE this observation touches any view (index member incl. its name, type, length,
    # value), and the enum-keyed mapping: a view access must not rewrite them
    pre = tuple((repr(s.index), repr(s.type), int(s.length), bytes(s.value)) for s in cfg.settings_tuple)
    pre_enum = [repr(k) for k in cfg.settings_map(index_type="enum", pretty=False, parse=False)]
    views = [[(repr(k), copy.deepcopy(v)) for k, v in getattr(cfg, name).items()] for name in VIEWS]
    attrs = [(k, canon_attr(v, views)) for k, v in sorted(vars(cfg).items())]
    return views, tuple(s.dumps() for s in cfg.settings_tuple), bytes(cfg.config_block), attrs, pre, pre_enum


def config_list_ids(cfg):
    """ids of the list objects held by whatever mappings the configuration object caches (no property access)"""
    out = set()
    for v in vars(cfg).values():
        if isinstance(v, Mapping):
            for x in v.values():
                if isinstance(x, list):
                    out.add(id(x))
    return out


def reachable_list_ids(obj, cfg, limit=20000):
    """ids of all list objects reachable from `obj` without walking into the configuration itself"""
    out, seen, stack = set(), set(), [obj]
    while stack and len(seen) < limit:
        o = stack.pop()
        if o is cfg or id(o) in seen:
            continue
        if isinstance(o, (str, bytes, int, float, bool, type(None), type, logging.Logger)):
            continue
        seen.add(id(o))
        if isinstance(o, list):
            out.add(id(o))
            stack.extend(o)
        elif isinstance(o, (tuple, set, frozenset)):
            stack.extend(o)
        elif isinstance(o, Mapping):
            stack.extend(o.values())
        elif isinstance(o, RSA.RsaKey):
            continue
        elif hasattr(o, "__dict__"):
            stack.extend(vars(o).values())
        elif hasattr(o, "__slots__"):
            stack.extend(getattr(o, s, None) for s in o.__slots__)
    return out


def canon(x):
    """canonical, comparable deep value of a result"""
    if isinstance(x, Mapping):
        return ("map", [(repr(k), canon(v)) for k, v in x.items()])
    if isinstance(x, (list, tuple)):
        return (type(x).__name__, [canon(v) for v in x])
    return repr(x)


def canon_tree(t):
    if hasattr(t, "children"):
        return (str(t.data), [canon_tree(c) for c in t.children])
    return (getattr(t, "type", None), str(t))


def canon_decoder(dec):
    return ("decoder", dec.submit_uri, dec.submit_verb, dec.get_uris, dec.get_verb, dec.aes_key, dec.hmac_key,
            [(canon(tr.tsteps), canon(tr.rsteps)) for tr in transforms_of(dec)], canon(dec.beacon_keys))


C2DATA = dict(metadata=b"M" * 24, output=b"\x00\x00\x00\x10" + b"O" * 16, id=b"1234")


def mk_request():
    return C2.HttpRequest(method=b"GET", uri=b"", params={}, headers={}, body=b"")


class Runner:
    """executes operations against one BeaconConfig object"""

    def __init__(self, cfg, tok=None):
        self.cfg = cfg
        self.tok = tok
        self.keys = key_material(tok) if tok else (AES_KEY, HMAC_KEY, AES_RAND, priv_key())
        self.decs = []
        self.own = []  # per decoder: the op that built it followed by the ops made with it
        self.kept = []
        self._kept_ids = {}
        self.text_budget = 1
        self.viol_extra = None

    def run(self, op):
        """→ (kind, payload, canonical value)"""
        cfg = self.cfg
        w = op.split(":")
        o = w[0]
        if o == "va":
            m = getattr(cfg, VIEWS[int(w[1])])
            return "M", m, canon(m)
        if o == "sm":
            m = cfg.settings_map(index_type=KINDS[int(w[1])], pretty=w[2] == "T", parse=w[3] == "T")
            self.kept.append(m)
            return "M", m, canon(m)
        if o == "c2":
            k = int(w[1])
            ak, hk, ar, pk = self.keys
            if k == 0:
                d = C2.C2Http(cfg, aes_key=ak, hmac_key=hk)
            elif k == 1:
                d = C2.C2Http(cfg, aes_rand=ar)
            elif k == 2:
                d = C2.C2Http(cfg, rsa_private_key=pk)
            elif k == 4:
                d = C2.C2Http(cfg, aes_rand=ar, rsa_private_key=pk)
            else:
                d = C2.C2Http(cfg)
            self.decs.append(d)
            self.own.append([op])
            return "D", d, canon_decoder(d)
        if o == "cl":
            cl = CL.HttpBeaconClient()
            st = _random.getstate()
            lvl = CL.logger.level
            try:
                bid = (1234 + 2 * int(w[2])) if len(w) > 2 else 1234
                rc = cl.run(cfg, dry_run=True, beacon_id=bid if w[1] == "T" else 0xFFFFFFFF, pid=4242, computer="PC",
                            user="user", process="proc.exe", internal_ip="10.1.2.3", arch="x64")
            finally:
                _random.setstate(st)
                CL.logger.setLevel(lvl)
                d = getattr(cl, "c2http", None)
                if d is not None:
                    self.decs.append(d)
                    self.own.append([op])
                    self.kept.append(cl)
            return "D", d, ("client", rc, canon_decoder(d), cl.domain in cfg.domains, cl.uri in cfg.uris, cl.scheme, cl.port,
                            cl.get_verb, cl.submit_verb, cl.submit_uri, cl.sleeptime, cl.jitter, cl.user_agent,
                            cl.host_header if cl.host_header != cl.domain else "<domain>")
        if o == "pf":
            p = C2P.C2Profile.from_beacon_config(cfg)
            self.kept.append(p)
            # the regenerated text is a function of the tree; Lark's Reconstructor costs ~0.3 s, so the text itself is
            # produced (and compared with the fresh configuration's) for the first profile of a history only
            text = None
            if self.text_budget > 0:
                self.text_budget -= 1
                text = p.as_text()
            return "P", p, (canon_tree(p.tree), text)
        if o in ("tr", "rc"):
            d = int(w[1])
            if d >= len(self.decs):
                return "X", None, "no-decoder"
            tr = transforms_of(self.decs[d])[int(w[2])]
            st = _random.getstate()
            try:
                # the default initial request (request=None) must behave like an explicitly passed empty request: nothing
                # written by an earlier call (of any transform, on any object) may show up in it
                _random.seed(1234)
                dflt = tr.transform(C2.C2Data(**C2DATA))
                _random.seed(1234)
                expl = tr.transform(C2.C2Data(**C2DATA), request=C2.HttpRequest(method=b"", uri=b"", params={}, headers={}, body=b""))
                if canon(dflt) != canon(expl):
                    self.viol_extra = "default-request-carries-state"
                _random.seed(1234)
                req = tr.transform(C2.C2Data(**C2DATA), request=mk_request())
                if o == "tr":
                    return "S", tr.tsteps, ("request", canon(req))
                rec = tr.recover(req)
                return "S", tr.rsteps, ("c2data", canon(rec))
            finally:
                _random.setstate(st)
        if o == "wr":
            d = int(w[1])
            if d >= len(self.decs):
                return "X", None, "no-decoder"
            self.own[d].append(f"wr:0:{w[2]}")
            pkts = list(self.decs[d].iter_recover_http(WIRE[int(w[2])]))
            return "W", [PACKET_KIND.get(type(p).__name__, 9) for p in pkts], [(type(p).__name__, p.dumps()) for p in pkts]
        if o == "pr":
            vals = [cfg.setting_enums, cfg.domains, cfg.uris, cfg.domain_uri_pairs, cfg.protocol, cfg.port, cfg.watermark,
                    cfg.is_trial, cfg.public_key, cfg.sleeptime, cfg.jitter, sorted(vars(cfg))]
            if cfg.settings_tuple:
                vals += [cfg.max_setting_enum, repr(cfg.version)]
            return "U", None, canon(vals)
        if o == "pp":
            return "U", None, canon([cfg.submit_uri, cfg.killdate])
        if o == "mu":
            if w[1] == "v":
                m = getattr(cfg, VIEWS[int(w[2])])
            else:
                m = cfg.settings_map(index_type=KINDS[int(w[2])], pretty=w[3] == "T", parse=w[4] == "T")
                self.kept.append(m)
            key = next(iter(m), "SETTING_X")
            raised = 0
            try:
                m[key] = 1
            except TypeError:
                raised += 1
            try:
                del m[key]
            except TypeError:
                raised += 1
            if raised == 2:
                raise TypeError("mapping rejects mutation")
            return "U", None, "mutated"
        if o == "sn":
            ms = [getattr(cfg, name) for name in VIEWS]
            return "N", ms, None
        raise RuntimeError("bad op " + op)

    def external_list_ids(self):
        out = set()
        for d in self.decs:
            for tr in transforms_of(d):
                out.add(id(tr.tsteps))
                out.add(id(tr.rsteps))
        for o in self.kept:
            if id(o) not in self._kept_ids:
                self._kept_ids[id(o)] = reachable_list_ids(o, self.cfg)
            out |= self._kept_ids[id(o)]
        return out


def run_fresh(tok, op, variants, text, own=None):
    """canonical result of `op` on a fresh configuration (for transform/recover: with a decoder built from it; for
    iter_recover_http: after the decoder's OWN earlier calls, and nothing else, were replayed on it)"""
    r = Runner(fresh(tok), tok)
    r.text_budget = 1 if text else 0
    w = op.split(":")
    try:
        if w[0] == "wr":
            if own is None:
                return "no-decoder"
            try:
                r.run(own[0])
            except Exception as e:  # noqa: BLE001
                _reraise_watchdog(e)
            last = None
            for o in own[1:]:
                try:
                    last = r.run(o)[2]
                except Exception as e:  # noqa: BLE001
                    _reraise_watchdog(e)
                    last = ("exc", type(e).__name__)
            return last
        if w[0] in ("tr", "rc"):
            var = variants.get(int(w[1]))
            if var is None:
                return "no-decoder"
            try:
                r.run(var)
            except Exception as e:  # noqa: BLE001  (a client may fail after it has built its decoder)
                _reraise_watchdog(e)
            return r.run(f"{w[0]}:0:{w[2]}")[2]
        return r.run(op)[2]
    except Exception as e:  # noqa: BLE001
        _reraise_watchdog(e)
        return ("exc", type(e).__name__)


def _reraise_watchdog(e):
    """the runner's per-case watchdog (check.Timeout, raised from SIGALRM) must never be read as a library exception"""
    if type(e).__name__ == "Timeout":
        raise e


def exc_name(e) -> str:
    for cls, name in ((EOFError, "EOFError"), (IndexError, "IndexError"), (KeyError, "KeyError"),
                      (OverflowError, "OverflowError"), (ValueError, "ValueError"), (OSError, "OSError"),
                      (AttributeError, "AttributeError"), (TypeError, "TypeError"), (AssertionError, "AssertionError")):
        if isinstance(e, cls):
            return name
    return type(e).__name__


def impl(stream, line):
    if stream == "raising":
        return impl_raising(line)
    w = line.split(" ")
    tok = w[3]
    n = int(w[4])
    ops = w[5 + n:]
    table = shape_cached(tok)[0]
    nlists = shape_cached(tok)[3]
    logging.disable(logging.CRITICAL)
    # a history is up to ~50 library calls, each repeated on a fresh configuration, plus Lark's Reconstructor (~0.3 s
    # per profile text): the runner's 10 s per-case watchdog is re-armed to 90 s so that a loaded machine does not
    # turn into a verdict (check.call_impl cancels the alarm when impl returns)
    if signal.getsignal(signal.SIGALRM) not in (signal.SIG_DFL, signal.SIG_IGN, None):
        signal.alarm(90)
    try:
        cfg = fresh(tok)
        initial = deep_snapshot(fresh(tok))
        r = Runner(cfg, tok)
        # Lark's Reconstructor dominates the cost: the text is regenerated in one history out of four
        r.text_budget = 1 if zlib.crc32(line.encode()) % 4 == 0 else 0
        out = []
        viol = None
        variants = {}  # decoder number -> op that built it
        for i, op in enumerate(ops):
            ndec0 = len(r.decs)
            try:
                kind, payload, can = r.run(op)
                exc = None
            except Exception as e:  # noqa: BLE001
                _reraise_watchdog(e)
                kind, payload, can, exc = "E", None, ("exc", type(e).__name__), exc_name(e)
            if len(r.decs) > ndec0:
                variants[ndec0] = op
            if r.viol_extra and viol is None:
                viol = f"{r.viol_extra}@{i}"
            if kind == "M":
                tokn = "M:" + render_mapping(table, payload)
            elif kind == "D":
                tokn = "D:" + render_decoder(table, payload)
            elif kind == "P":
                tokn = "P:" + str(nlists)
            elif kind == "S":
                tokn = "S:" + dots(table, payload)
            elif kind == "W":
                tokn = "W:" + ".".join(str(x) for x in payload)
            elif kind == "N":
                tokn = "N:" + "|".join(render_snapview(table, m) for m in payload)
                now = deep_snapshot(cfg)
                if now != initial and viol is None:
                    viol = f"snapshot@{i}"
            elif kind == "U":
                tokn = "U"
                if op.startswith("mu") and viol is None:
                    viol = f"mutation-accepted@{i}"
            elif kind == "X":
                tokn = "X"
            else:
                tokn = "E:" + exc
            # identity facts
            alias = bool(r.external_list_ids() & config_list_ids(cfg))
            if alias and viol is None:
                viol = f"alias@{i}"
            # history independence: same op on a fresh configuration
            if kind not in ("N",) and viol is None:
                text = kind == "P" and can[1] is not None
                own = None
                if op.startswith("wr:") and int(op.split(":")[1]) < len(r.own):
                    own = list(r.own[int(op.split(":")[1])])
                if run_fresh(tok, op, variants, text, own) != can:
                    viol = f"history@{i}"
            out.append(tokn + ";" + C.tf(alias))
        out.append("O:ok" if viol is None else "O:viol:" + viol)
        return " ".join(out)
    finally:
        logging.disable(logging.NOTSET)


def oracle(stream, line, out):
    if out.startswith("exc "):
        return None
    return not out.rsplit(" ", 1)[-1].startswith("O:viol")


def nontrivial(stream, line, out):
    if out.startswith("exc "):
        return False
    toks = out.split(" ")
    if stream == "raising":
        return any(t.startswith("E:") for t in toks[1:]) and len(toks) > 2
    return any(t[0] in "DPSW" for t in toks) and any(t.startswith("N:") for t in toks)


def shrink(stream, line):
    """drop operations (the configuration and its shape stay)"""
    w = line.split(" ")
    n = int(w[4])
    head, ops = w[:5 + n], w[5 + n:]
    if len(ops) > 1:
        half = len(ops) // 2
        yield " ".join(head + ops[:half])
        yield " ".join(head + ops[half:])
        for i in range(len(ops)):
            yield " ".join(head + ops[:i] + ops[i + 1:])

"""`pyu` / `g-arg` helpers for the operations of lean/CsVerif/Model/PyU_T15.lean (file objects, `find`, generators over a file):
the text notation of a file object, random operands of all kinds, and the reference implementation (CPython itself).

A file object is written `I9000[b<data hex>;i<pos>;i<kind>]` (kind 0 = io.BytesIO, 1 = a regular file opened "rb"); every other
operand uses the notation of tools/harness/pyuval.py (= `PyU.vShow`).  Results: `ok <value> <tell afterwards>`.
"""
from __future__ import annotations

import io
import os
import tempfile

from . import pyuval

FILE_CID = 9000


class FileSpec:
    """a file operand: content, position, kind"""

    def __init__(self, data: bytes, pos: int, kind: int):
        self.data, self.pos, self.kind = data, pos, kind

    def open(self):
        if self.kind == 0:
            fh = io.BytesIO(self.data)
        else:
            fd, path = tempfile.mkstemp(prefix="t15_", suffix=".bin")
            try:
                with os.fdopen(fd, "wb") as w:
                    w.write(self.data)
                fh = open(path, "rb")
            finally:
                os.unlink(path)
        fh.seek(self.pos)
        return fh

    def tok(self) -> str:
        return f"I{FILE_CID}[b{self.data.hex()};i{self.pos};i{self.kind}]"


def parse(tok: str):
    """an operand: a FileSpec or an ordinary value"""
    if tok.startswith(f"I{FILE_CID}["):
        d, p, k = tok[len(f"I{FILE_CID}["):-1].split(";")
        return FileSpec(bytes.fromhex(d[1:]), int(p[1:]), int(k[1:]))
    return pyuval.pparse(tok)


def show(v) -> str:
    return v.tok() if isinstance(v, FileSpec) else pyuval.pshow(v)


class Opened:
    """operands with the file operands opened; closes them afterwards"""

    def __init__(self, args):
        self.args = args
        self.files = []

    def __enter__(self):
        out = []
        for a in self.args:
            if isinstance(a, FileSpec):
                fh = a.open()
                self.files.append(fh)
                out.append(fh)
            else:
                out.append(a)
        return out

    def __exit__(self, *exc):
        for fh in self.files:
            fh.close()
        return False


# ---------------------------------------------------------------------------------------------------------------------
# random operands
# ---------------------------------------------------------------------------------------------------------------------
def rfile(rng) -> FileSpec:
    n = rng.choice([0, 1, 2, 3, 4, 5, 8, 13])
    data = bytes(rng.choice([0, 1, 1, 2, 0xFF]) for _ in range(n))
    return FileSpec(data, rng.choice([0, 0, 1, 2, n, n + 1, n + 3, max(0, n - 1)]), rng.choice([0, 0, 1]))


def rcount(rng):
    return rng.choice([None, -1, -1, 0, 1, 2, 3, 4, 5, 8, 100, True, False, -2, -7, b"", "1", [1], (1,), 100000])


def case(rng):
    op = rng.choice(["fread", "fread", "fseek", "fseek", "fseek", "ftell", "find", "find", "find", "range", "max", "max", "xor"])
    if op == "range":
        return "pyu range " + pyuval.pshow(rng.choice([0, 1, 2, 5, 17, -1, -5, True, False, None, "3", b"", [2], (1,)]))
    if op == "max":
        a = rng.choice([0, 1, -1, 5, True, False, None, b"", b"a", b"ab", b"b", "", "a", "ab", "b"])
        b = rng.choice([0, 1, -1, 5, True, False, None, b"", b"a", b"ab", b"b", "", "a", "ab", "b"])
        return "pyu max " + pyuval.pshow(a) + " " + pyuval.pshow(b)
    if op == "xor":
        data = bytes(rng.randrange(256) for _ in range(rng.choice([0, 1, 3, 4, 5, 9])))
        key = rng.choice([b"", bytes(4), bytes(rng.randrange(256) for _ in range(rng.choice([1, 2, 4, 4, 7])))])
        return "pyu xor " + pyuval.pshow(data) + " " + pyuval.pshow(key)
    if op == "find":
        x = rng.choice([b"", b"\x01", b"\x00\x01\x00\x01\x00", b"\x01\x01\x01\x01", b"abcabc", "abcabc", "", "aaa"]) if rng.random() < 0.85 else rng.choice([None, 5, True, [1], (1, 2), {}])
        if isinstance(x, bytes):
            sub = rng.choice([b"", b"\x01", b"\x01\x00", b"\x01\x01", b"c", b"bc", b"abcabcx", 1, 0, 97, 255, 256, -1, True, "a", None, [1]])
        elif isinstance(x, str):
            sub = rng.choice(["", "a", "bc", "aa", "abcabcx", b"a", 97, None])
        else:
            sub = rng.choice([b"a", "a", 1, None])
        start = rng.choice([None, 0, 0, 1, 2, 3, 4, 5, 6, 7, -1, -2, -5, -9, True, "1", b"", 100])
        args = [x, sub, start]
    else:
        f = rfile(rng) if rng.random() < 0.92 else rng.choice([None, 5, b"ab", "ab", [1], (1, 2)])
        if op == "fread":
            args = [f, rcount(rng)]
        elif op == "fseek":
            off = rng.choice([0, 1, 2, 3, 5, 9, -1, -2, -3, -9, True, None, "1", b"", 2 ** 31])
            whence = rng.choice([0, 0, 0, 1, 1, 2, 2, True, False, 5, -1, 17, None, "0"])
            args = [f, off, whence]
        else:
            args = [f]
    if not modelled(op, args):
        return None
    try:
        return "pyu " + op + " " + " ".join(show(a) for a in args)
    except RuntimeError:
        return None


def _intlike(v) -> bool:
    return type(v) in (int, bool)


def modelled(op, args) -> bool:
    """operand kinds PyU_T15.lean states as 'not modelled' are left out"""
    if op == "fseek" and isinstance(args[0], FileSpec):
        off, whence = args[1], args[2]
        if _intlike(whence) and int(whence) in (3, 4):
            return False                               # SEEK_DATA / SEEK_HOLE on an OS file
        if not _intlike(off) and not (_intlike(whence) and int(whence) in (0, 1, 2)):
            return False                               # the order of the two argument checks differs between BytesIO and files
        if not _intlike(whence) and not _intlike(off):
            return False
    if op == "find":
        return type(args[0]) in (bytes, str, type(None), int, bool, list, tuple, dict)
    return True


# ---------------------------------------------------------------------------------------------------------------------
# reference implementations
# ---------------------------------------------------------------------------------------------------------------------
def run(line: str) -> str:
    w = line.split()
    op, args = w[1], [parse(t) for t in w[2:]]
    if op == "range":
        return "ok " + pyuval.pshow(list(range(args[0])))
    if op == "max":
        return "ok " + pyuval.pshow(max(args[0], args[1]))
    if op == "xor":
        from dissect.cobaltstrike import utils
        return "ok " + pyuval.pshow(utils.xor(args[0], args[1]))
    with Opened(args) as a:
        if op == "fread":
            r = a[0].read(a[1])
            return f"ok {pyuval.pshow(r)} {a[0].tell()}"
        if op == "fseek":
            r = a[0].seek(a[1], a[2])
            return f"ok {pyuval.pshow(r)} {a[0].tell()}"
        if op == "ftell":
            return "ok " + pyuval.pshow(a[0].tell())
        if op == "find":
            return "ok " + pyuval.pshow(a[0].find(a[1], a[2]))
    raise RuntimeError("unknown pyu op " + op)

"""Shared helpers for the `pyu` streams that validate the run-time library of the untyped translator (lean/CsVerif/Model/PyU.lean)
against CPython: a text notation for Python values (must match `PyU.vShow` / `PyU.pV` of lean/CsVerif/Model/PyUShow.lean), random
operands of all kinds, and the reference implementation of the operations that were added for c2.py (`parse_raw_http`,
`HttpDataTransform`).  The operations of the first version of PyU.lean are exercised by the `pyu` stream of C03.
"""
from __future__ import annotations

import urllib.parse

from dissect.cobaltstrike import c2

# the classes with named fields, in the order of tools/gen/py_c2u.py (index = cid)
CLASSES = [c2.HttpRequest, c2.HttpResponse, c2.C2Data, c2.ClientC2Data, c2.ServerC2Data, urllib.parse.SplitResultBytes]
TYPES = [int, bool, bytes, str, list, tuple, dict]        # type codes 0..6 of the `isinstance` operand; 100 + cid = a class


def pshow(v) -> str:
    if v is None:
        return "N"
    if v is True or v is False:
        return "T" if v else "F"
    if type(v) is int:
        return f"i{v}"
    if type(v) in CLASSES:
        return f"I{CLASSES.index(type(v))}[" + ";".join(pshow(x) for x in v) + "]"
    if type(v) is dict:
        return "D[" + ";".join(pshow(x) for x in v.keys()) + "|" + ";".join(pshow(x) for x in v.values()) + "]"
    if type(v) is bytes:
        return "b" + v.hex()
    if type(v) is str:
        return "s" + ".".join(str(ord(c)) for c in v)
    if type(v) is list:
        return "L[" + ";".join(pshow(x) for x in v) + "]"
    if type(v) is tuple:
        return "U[" + ";".join(pshow(x) for x in v) + "]"
    raise RuntimeError(f"pshow: {v!r}")


def pparse(tok: str):
    v, rest = _pv(tok, 0)
    if rest != len(tok):
        raise RuntimeError("pparse: trailing text in " + tok)
    return v


def _span(s, i, pred):
    j = i
    while j < len(s) and pred(s[j]):
        j += 1
    return s[i:j], j


def _pl(s, i):
    out = []
    while s[i] not in "]|":
        v, i = _pv(s, i)
        out.append(v)
        if s[i] == ";":
            i += 1
    return out, i


def _pv(s, i):
    c = s[i]
    if c == "N":
        return None, i + 1
    if c == "T":
        return True, i + 1
    if c == "F":
        return False, i + 1
    if c == "i":
        d, j = _span(s, i + 1, lambda ch: ch.isdigit() or ch == "-")
        return int(d), j
    if c == "b":
        d, j = _span(s, i + 1, lambda ch: ch in "0123456789abcdef")
        return bytes.fromhex(d), j
    if c == "s":
        d, j = _span(s, i + 1, lambda ch: ch.isdigit() or ch == ".")
        return ("".join(chr(int(x)) for x in d.split(".")) if d else ""), j
    if c in "LU":
        xs, j = _pl(s, i + 2)
        return (xs if c == "L" else tuple(xs)), j + 1
    if c == "D":
        ks, j = _pl(s, i + 2)
        vs, j = _pl(s, j + 1)
        return dict(zip(ks, vs)), j + 1
    if c == "I":
        d, j = _span(s, i + 1, str.isdigit)
        xs, j = _pl(s, j + 1)
        return CLASSES[int(d)](*xs), j + 1
    raise RuntimeError("pparse: " + s[i:i + 20])


# ---------------------------------------------------------------------------------------------------------------------
# random operands
# ---------------------------------------------------------------------------------------------------------------------
BYTES_ALPHA = b"aAzZ09 \t\r\n\x0b\x0c:=/?&%_-.'\"\\\x00\x7f\x80\xff"
STR_ALPHA = "aAzZ09 \t\n\r\x0b\x0c:_-+'\"\\\x00\x1c\x1f\x7f\x85\xa0\xe9١٩ ５퟿\U0001d7d8"
BYTES_FIXED = [b"", b"HTTP/1.1", b"http/", b"\r\n", b"a\r\nb\r\n\r\nc", b"  x  ", b"12", b" 4_2 ", b"-7", b"k: v", b"it's", b'say "hi"', b"it's \"x\""]
STR_FIXED = ["", "append", "APPEND", "Base64", "_header", "12", " 4_2 ", "-7", "+3", "1__2", "_1", "latin-1", "١٢", "it's", 'say "hi"',
             "x y  z", "uri", "body", "headers", "output", "count", "\xa0 7 "]


def rbytes(rng):
    if rng.random() < 0.35:
        return rng.choice(BYTES_FIXED)
    return bytes(rng.choice(BYTES_ALPHA) for _ in range(rng.choice([0, 1, 2, 3, 5, 9])))


def rstr(rng):
    if rng.random() < 0.4:
        return rng.choice(STR_FIXED)
    return "".join(rng.choice(STR_ALPHA) for _ in range(rng.choice([0, 1, 2, 3, 5])))


def rint(rng):
    return rng.choice([0, 1, -1, 2, 3, 4, 5, -2, -5, 7, 32, 255, 256, 2 ** 32 - 1, 2 ** 32, -2 ** 31])


def rdict(rng, depth):
    d = {}
    for _ in range(rng.choice([0, 1, 2, 3])):
        k = rng.choice([rbytes, rstr, rint])(rng) if rng.random() < 0.9 else (rint(rng), rbytes(rng))
        d[k] = value(rng, depth + 1)
    return d


def rinst(rng, depth):
    cls = rng.choice(CLASSES)
    if cls is c2.HttpRequest:
        return cls(rbytes(rng), rbytes(rng), rdict(rng, depth), rdict(rng, depth), rbytes(rng))
    if cls is c2.HttpResponse:
        return cls(rint(rng), rdict(rng, depth), rbytes(rng), rbytes(rng), None)
    if cls is urllib.parse.SplitResultBytes:
        return cls(*[rbytes(rng) for _ in range(5)])
    return cls(*[rng.choice([None, rbytes(rng)]) for _ in range(3)])


def value(rng, depth=0):
    r = rng.random()
    if r < 0.05:
        return None
    if r < 0.1:
        return rng.random() < 0.5
    if r < 0.22:
        return rint(rng)
    if r < 0.45:
        return rbytes(rng)
    if r < 0.62:
        return rstr(rng)
    if depth >= 2:
        return rbytes(rng)
    if r < 0.74:
        return [value(rng, depth + 1) for _ in range(rng.choice([0, 1, 2, 3]))]
    if r < 0.84:
        return tuple(value(rng, depth + 1) for _ in range(rng.choice([0, 1, 2, 3, 5])))
    if r < 0.92:
        return rdict(rng, depth)
    return rinst(rng, depth)


# ---------------------------------------------------------------------------------------------------------------------
# reference implementations (CPython itself) of the operations added to PyU.lean for c2.py
# ---------------------------------------------------------------------------------------------------------------------
def _setitem(d, k, v):
    d[k] = v
    return d


def _insert(xs, i, x):
    xs.insert(i, x)
    return xs


def _isinstance(x, codes):
    return isinstance(x, tuple(TYPES[c] if c < 100 else CLASSES[c - 100] for c in codes))


OPS = {
    "setitem": _setitem, "listof": list, "slicerev": lambda x: x[::-1], "insert": _insert,
    "split": lambda x, sep: x.split(sep), "upper": lambda x: x.upper(), "lower": lambda x: x.lower(),
    "startswith": lambda x, p: x.startswith(p),
    "decascii": lambda x: x.decode("ascii"), "decasciiign": lambda x: x.decode("ascii", errors="ignore"),
    "encutf8": lambda x: x.encode(), "enclatin1": lambda x: x.encode("latin-1"), "encascii": lambda x: x.encode("ascii"),
    "int": int, "fmtr": lambda x: f"{x!r}", "fmts": lambda x: "{}".format(x),
    "isinstance": _isinstance, "replace": lambda x, name, v: x._replace(**{name: v}), "getattr": getattr,
    # operations of the first version that got a branch for instances
    "truthy": bool, "eq": lambda a, b: a == b, "len": len, "getitem": lambda x, i: x[i], "contains": lambda c, x: x in c,
    "iter": lambda x: list(iter(x)), "slice": lambda x, a, b: x[a:b], "hashable": lambda x: {x: None} is not None,
}
ARITY = {"setitem": 3, "listof": 1, "slicerev": 1, "insert": 3, "split": 2, "upper": 1, "lower": 1, "startswith": 2, "decascii": 1,
         "decasciiign": 1, "encutf8": 1, "enclatin1": 1, "encascii": 1, "int": 1, "fmtr": 1, "fmts": 1, "isinstance": 2, "replace": 3,
         "getattr": 2, "truthy": 1, "eq": 2, "len": 1, "getitem": 2, "contains": 2, "iter": 1, "slice": 3, "hashable": 1}
BOOL_OPS = ("truthy", "eq", "isinstance")


def _has(v, pred) -> bool:
    if pred(v):
        return True
    if isinstance(v, (list, tuple)):
        return any(_has(x, pred) for x in v)
    if isinstance(v, dict):
        return any(_has(x, pred) for x in list(v.keys()) + list(v.values()))
    return False


def _unprintable_hi(v) -> bool:
    return isinstance(v, str) and any(ord(c) >= 128 and not c.isprintable() for c in v)


def modelled(op, args) -> bool:
    """operand kinds PyU.lean states as 'not modelled' (they answer TypeError there) are left out"""
    a = args[0]
    if op in ("upper", "lower"):
        return not (isinstance(a, str) and any(ord(c) >= 128 for c in a))
    if op == "split":
        if isinstance(a, str) and args[1] is None:
            return not any(c.isspace() and c not in " \t\n\r\x0b\x0c\x1c\x1d\x1e\x1f\x85\xa0" for c in a)
        return True
    if op == "startswith":
        return not (isinstance(a, (bytes, str)) and isinstance(args[1], tuple))
    if op in ("fmtr", "fmts"):
        if op == "fmts" and not isinstance(a, (list, tuple, bytes)):
            return a is None or type(a) in (bool, int, str)
        return not _has(a, lambda x: isinstance(x, dict) or type(x) in CLASSES or _unprintable_hi(x))
    if op == "getattr":
        return isinstance(args[1], str) and not args[1].startswith("_") and args[1] not in ("count", "index") and args[1].isidentifier()
    if op == "replace":
        return isinstance(args[1], str) and args[1].isidentifier() and not args[1].startswith("_")
    if op == "isinstance":
        return isinstance(args[1], list) and all(type(c) is int and (0 <= c < len(TYPES) or 100 <= c < 100 + len(CLASSES)) for c in args[1])
    if op == "eq":
        # dict equality ignores the insertion order in CPython; the model compares in order
        return not (_has(a, lambda x: isinstance(x, dict) and len(x) > 1) and _has(args[1], lambda x: isinstance(x, dict) and len(x) > 1))
    if op == "int":
        return not isinstance(a, (str, bytes)) or len(a) < 4000
    if op in ("decascii", "decasciiign"):
        return not isinstance(a, urllib.parse.SplitResultBytes)      # urllib's result classes have a `decode` method of their own
    if op in ("contains", "getitem", "slice", "len", "iter", "truthy", "hashable"):
        # only the instance branch is new; the rest is C03's subject (and has documented gaps there)
        return type(a) in CLASSES
    return True


def case(rng):
    op = rng.choice(sorted(OPS))
    n = ARITY[op]
    a = value(rng)
    if op in ("getattr", "replace", "contains", "getitem", "slice", "len", "iter", "truthy", "hashable") or (op == "eq" and rng.random() < 0.5):
        a = rinst(rng, 0)
    elif op in ("upper", "lower", "split", "startswith", "decascii", "decasciiign", "fmtr") and rng.random() < 0.8:
        a = rbytes(rng) if rng.random() < 0.6 else rstr(rng)
    elif op in ("encutf8", "enclatin1", "encascii", "int") and rng.random() < 0.8:
        a = rstr(rng) if rng.random() < 0.8 else rbytes(rng)
    elif op in ("setitem",) and rng.random() < 0.8:
        a = rdict(rng, 0) if rng.random() < 0.7 else [value(rng, 1) for _ in range(rng.randrange(0, 4))]
    elif op in ("insert", "listof", "slicerev") and rng.random() < 0.7:
        a = [value(rng, 1) for _ in range(rng.randrange(0, 4))]
    args = [a]
    if op == "isinstance":
        args.append([rng.choice(list(range(len(TYPES))) + [100 + k for k in range(len(CLASSES))]) for _ in range(rng.choice([1, 1, 2, 3]))])
    elif op in ("getattr", "replace"):
        names = list(getattr(type(a), "_fields", ())) + ["uri", "body", "output", "x", "count", "path"]
        args.append(rng.choice(names))
        if op == "replace":
            args.append(value(rng, 1))
    elif op in ("split", "startswith"):
        b = rng.choice([None, b" ", b"\r\n", b": ", b"", b"HTTP/", b"a", " ", "", "a", "x y"]) if rng.random() < 0.7 else value(rng, 1)
        if op == "startswith" and rng.random() < 0.5 and isinstance(a, (bytes, str)) and len(a) > 0:
            b = a[: rng.randrange(0, len(a) + 1)]
        args.append(b)
    elif op == "setitem":
        k = rng.choice(list(a.keys())) if isinstance(a, dict) and a and rng.random() < 0.4 else (rint(rng) if isinstance(a, list) else value(rng, 1))
        args += [k, value(rng, 1)]
    elif op == "insert":
        args += [rng.choice([0, 1, -1, 2, 5, -7, True, None, b"x"]), value(rng, 1)]
    elif op == "eq":
        b = value(rng)
        if rng.random() < 0.5:
            b = tuple(a) if isinstance(a, tuple) and rng.random() < 0.6 else a
        if rng.random() < 0.2 and isinstance(a, tuple):
            b = rng.choice(CLASSES[2:5])(*a[:3]) if len(a) >= 3 else b
        args.append(b)
    elif op in ("contains", "getitem"):
        args.append(rng.choice(list(a) + [0, 1, -1, 4, 5, -6, None, b"x"]) if op == "contains" else rng.choice([0, 1, 2, 4, 5, -1, -5, -6, True, None, b"x"]))
    elif op == "slice":
        args += [rng.choice([None, 0, 1, -2, 9]), rng.choice([None, 0, 2, -1, 9])]
    assert len(args) == n
    if not modelled(op, args):
        return None
    try:
        return "pyu " + op + " " + " ".join(pshow(x) for x in args)
    except RuntimeError:
        return None


def run(line: str) -> str:
    """the real operation on the operands of a `pyu` line"""
    w = line.split()
    r = OPS[w[1]](*[pparse(t) for t in w[2:]])
    if w[1] == "hashable":
        r = True
    if w[1] in BOOL_OPS:
        return pshow(bool(r))
    return "ok " + pshow(r)

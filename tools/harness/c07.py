"""C07 — end-to-end: traffic produced by the beacon client is decoded to the packets that were sent.

One case = one *session* in one line.  A session is a configuration (a sample beacon of tests/beacons or a synthetic TLV
block built by the independent encoder below), the parameters of the beacon client, a decoder key variant and a history
of 1–12 events:

  G   the REAL `HttpBeaconClient.get_task()` (check-in request, answered by this harness' own team-server encoder with
      a task or with nothing),
  C   the REAL `HttpBeaconClient.send_callback()` (one callback),
  M   a message that the library client cannot produce: a multi-callback POST, a request carrying metadata and output, an
      unrelated request, a truncated message — built by this harness' independent reference encoder.

`httpx.request` is replaced (inside impl()/capture only) by a peer that sends the request through a real `httpx.Client`
with a mock transport, serialises the resulting `httpx.Request` with h11 exactly as httpcore would put it on the wire,
records it and answers with an `httpx.Response`.  All randomness is scripted (mask values, PKCS#1 padding bytes), so the
capture is reproducible and its RSA blobs / ciphertexts can be computed independently (own modexp, pycryptodome AES,
hmac, hashlib) for the oracle table the Lean model needs (DESIGN §1.2).

gen() performs the capture once and writes the wire bytes on the line; impl() re-runs the real client (the capture must
be byte-identical: token `cap`), checks that parsing the wire gives back what the client handed to httpx (token `ext`:
method, path, parameters and body equal, headers a superset — the httpx rendering assumption), decodes the capture with
the real `C2Http.iter_recover_http(raw bytes)` and prints every yielded packet; the Lean model (Driver/C07.lean) builds
the requests with its client model, decodes the same capture with its decoder model and prints the same things.
oracle(): plain statement of the property on impl's output — the list of packets the session script sent.

Line:  sess IM <n> <n impl-only tokens> CFG … KEY … CL … EV k <events> TB <oracle table>      (see Driver/C07.lean)
       route CFG … <method> <uri>
       ctor CFG … KEY … TB <table>
"""
from __future__ import annotations

import hashlib
import hmac as _hmac
import io
import json
import logging
import os
import random as _random
import struct
import urllib.parse
import zipfile
from pathlib import Path
from unittest import mock

import h11
import httpx
from Crypto.Cipher import AES, PKCS1_v1_5
from Crypto.PublicKey import RSA

import Crypto.Random as _CRandom

from dissect.cobaltstrike import beacon as B
from dissect.cobaltstrike import c2 as C2
from dissect.cobaltstrike import c_c2 as CC2
from dissect.cobaltstrike import client as CL

from . import common as C
from . import pyuval_t07

ID = "C07"
DRIVER = "drv_c07"
GEN = ["c2struct", "c16_unicode"]
GEN += ["py_utils", "py_c2u", "py_c2t", "py_c2", "py_c2h"]
EXTRA_PROP_FILES = ["Props/C07Gen.lean"]
KNOWN_ID = "C07-uri-append-initial-uri"
STREAMS = {
    "sess": {"relevant": True, "desc": "sessions of the real client + reference team server, decoded with rsa-only / aes_rand / aes+hmac keys"},
    "sess-keys": {"relevant": False, "desc": "the same sessions under other key variants (partial, wrong, redundant keys, verify_hmac=False)"},
    "unrelated": {"relevant": True, "desc": "sessions with interleaved unrelated requests (other verb / other URI / shorter prefix): ValueError, nothing decoded"},
    "multi": {"relevant": True, "desc": "sessions with multi-callback POSTs built by the independent reference encoder"},
    "uriappend-initial": {"relevant": True, "desc": "get program terminating in uri-append (known finding C04-uri-append-initial-uri)"},
    "overlap": {"relevant": False, "desc": "configurations violating RoutingDisjoint (same verb, a get URI is a prefix of the submit URI)"},
    "combo": {"relevant": False, "desc": "crafted requests carrying metadata AND output: keys are read before the metadata is processed"},
    "malformed": {"relevant": False, "desc": "truncated / damaged captured messages: packets yielded before the exception"},
    "route": {"relevant": True, "desc": "get_transform_for_http decisions on (method, uri) grids around the configured verbs and URIs"},
    "ctor": {"relevant": False, "desc": "C2Http.__init__ key validation: order and kind of the exceptions"},
    "g-route": {"relevant": False, "desc": "get_transform_for_http TRANSLATED from its source (Gen/PyC2H.lean) vs the method, on every case of route"},
    "g-route-arg": {"relevant": False, "desc": "translated get_transform_for_http vs the method on arguments of other kinds: raw bytes (through the translated "
                                               "parse_raw_http), responses, requests whose method / uri are not bytes, None, ints, str, tuples"},
    "g-sess": {"relevant": False, "desc": "every session of sess / sess-keys / unrelated / multi / overlap / combo / malformed decoded by iter_recover_http TRANSLATED from "
                                          "its source (one instance threaded as a value through the messages; all externals as in the hand model); when the translated "
                                          "generator raises, only the exception is compared (items before it / the state then come from the hand model)"},
    "g-ctor": {"relevant": False, "desc": "C2Http.__init__ TRANSLATED from its source vs the class on every case of ctor: the exception, or EVERY attribute of the "
                                          "new instance (keys, verbs, URIs, the three transform objects, cache, BeaconKeys)"},
}
TRUSTED = [
    "tools/harness/c07.py: session generator, capturing peer, independent TLV / transform-program / team-server / RSA-padding "
    "encoders, oracle; line protocol parsing in lean/CsVerif/Driver/C07.lean",
    "Model/C07.lean composes the C04, C05, C06, C16 models; cstruct parsing of TaskPacket / CallbackPacket, Python truthiness, "
    "bytes.startswith(tuple), dict, str(int) are modelled, not verified",
    "AES-CBC, HMAC-SHA256, SHA-256, RSA PKCS#1 v1.5 are parameters of the model; their results are supplied per case by the "
    "harness (pycryptodome / hashlib / hmac / own modexp called directly)",
    "httpx 0.28 / h11 0.16 serialisation of a request is NOT modelled: the model decodes the captured bytes; every captured "
    "request is checked to parse back to what the client handed to httpx (token ext)",
    "tools/py2leanu.py + tools/gen/py_c2h.py (source text of C2Http.__init__ / get_transform_for_http -> Gen/PyC2H.lean) and the run-time "
    "library Model/PyU.lean, PyU_T02.lean, PyU_T07.lean; Props/C07Gen.lean proves the translated definitions equal to routeRequest / "
    "getTransformForHttp / mkDecoder; the g-* streams run them against the real class on every run (bconfig and RSA key objects are "
    "records of what the code reads from them; RSA.import_key and derive_aes_hmac_keys are parameters)",
]
ASSUMPTIONS = [
    "well-formed HTTP configuration (theorem hypotheses WellFormedCfg + WireCfg): token verbs not starting with HTTP/, URIs that are "
    "clean absolute paths, RoutingDisjoint (a get URI is not a prefix of the submit URI when both verbs are equal), valid programs "
    "(C04.Ref.valid) with printable placements (header terminations fed by a CR-free encoder chain), static parameters with "
    "non-empty values, no uri-append (known finding); the generators additionally keep verbs upper-case and paths free of "
    "dot-segments / ';' because httpx upper-cases the method and urljoin/httpx normalise the path",
    "the theorems speak about C16's rendering of a request (every parameter byte outside [A-Za-z0-9_.~-] percent-encoded, exactly the "
    "client's headers); httpx renders a space as '+' and adds Accept / Accept-Encoding / Connection / Content-Length: that the "
    "captured bytes parse back to the client's request (headers a superset) is checked on every captured message, not proved",
    "random.getrandbits(32) and the PKCS#1 v1.5 padding bytes are scripted; time.time() is not used (counter is set by the harness)",
    "one beacon session per decoder object (one aes_rand); the `keys=` argument of iter_recover_http is not exercised",
    "send_callback is called with c_c2 BeaconCallback values (a plain int makes CallbackPacket.dumps() raise AttributeError)",
]
RULE = ("distinct = hash of (stream, line); non-trivial = the real decoder yielded at least one packet in the session "
        "(route/ctor: a transform / a decoder object was returned)")

REPO = Path(os.environ.get("VERIF_REPO", "/repo"))
BEACON_DIR = Path("/repo/tests/beacons")
if (REPO / "tests" / "beacons").is_dir():
    BEACON_DIR = REPO / "tests" / "beacons"
XOR_KEYS = [b"\x69", b"\x2e", b"\xaf", b"\xcc"]

# --------------------------------------------------------------------------------------------------------------------
# key material
# --------------------------------------------------------------------------------------------------------------------

OWN_PRIV_DER = bytes.fromhex(
    "3082025c02010002818100ac4695e48738dd0e498b8bd29c91d1d798a7347793e537a5d0281d0a320afdc450851db5c600d445b02ad639"
    "94564d25408ec2c5107a78830f97a65e46abf7e14b33cf2f1323bda18226c72e8b97ce741d968a9632555485d494dea3f31390177d66d4"
    "00b20dd0249606f41b4ced27c723442a7d44a6879acf9066fbfdec27fd020301000102818001d9dcf8c5cbd7c83459c2535828fd9b0b97"
    "59aa2295d7140f84017d34b8c72d945091d751a77c4b116501c4959cf07042dcd07d433b904eec31ccc6523667cfe87f540af4b9e22120"
    "dda4e02ccbbc81dd7fde8d44337b6a829dff9e123d4aec972d81cc1fe814a4329178145a30562701af8b5a83fa4dd0df0862d3a129642b"
    "024100b5534ccfb812af733c9535bed7a19aa8cae037a7ab2d937508a828937d53a5b8abeff0fcb8c95035a6344aac426b3e32e39a50e9"
    "1ddf00b204a637aca28febc3024100f3393370774cd9f249a6817200f20850233e83f63115d6468783704c41632694962b948fddce350f"
    "e211901c5b63ac9eca37dcd432998d63ba479b94eb9f213f024100ab3953e93a8afa7eb910b545d75d552c5b174bb6dae018c4853e35c2"
    "c0b00267d684a76e1e188bd37d7517a67eb9c26c4f9ce3169f0c7c1d9e624f6487c59bfd024050e2ee0371f961e5dcae7e100ed66f034f"
    "a543b7853d70e445bee582c6a015bd866f79d99a77305856e3665cb7dbdf1573c4be30e79eff51722acc47eb50217b02403c41dcadf97b"
    "f75b623dbb9cea9685e66f6863fd10b3fa31a7e85985c8a134dab485d62c76dd21ab14924a43904c56db6eb875bb7ec8cb99486172769f"
    "799e57"
)
# the private key of the c2test sample beacon (tests/test_c2.py `rsa_private`)
C2TEST_NED = (
    117427205845348485244015322822129549811247730233368658993207011448441178690532504818038502351592533412903992324819587429509365062557617469076848055744603713033993541074262699306731808123110723658011905734336339013104629861585165807593797388931565187434008170828073710103901578805379036254367111549325081196051,
    65537,
    63143753317910889550701801906932991514689126160094983163397901802867320417978485470688235063742198605431276889680136115527710059502159043406582576750470401211113680307065390018237044267922185483204732358859031408916065489305405381946331418517893749803908480784415439301698216721664479409505596732533109402129,
)
C2TEST_STEM = "37882262c9b5e971067fd989b26afe28.bin"
_KEYS = {}


def priv_key(which: str):
    if which not in _KEYS:
        _KEYS[which] = RSA.import_key(OWN_PRIV_DER) if which == "own" else RSA.construct(C2TEST_NED)
    return _KEYS[which]


def rsa_encrypt_ref(key, msg: bytes, ps_stream: bytes) -> bytes:
    """RSAES-PKCS1-v1_5 with the given padding string source (zero bytes are skipped, as pycryptodome does)."""
    k = key.size_in_bytes()
    need = k - len(msg) - 3
    ps = bytes(b for b in ps_stream if b != 0)[:need]
    assert len(ps) == need and need >= 8, "padding stream too short"
    em = b"\x00\x02" + ps + b"\x00" + msg
    return pow(int.from_bytes(em, "big"), key.e, key.n).to_bytes(k, "big")


def rsa_decrypt_direct(key, blob: bytes):
    """what PKCS1_v1_5.new(key).decrypt(blob, None) does: 'V' (raised ValueError) / None / bytes"""
    try:
        return PKCS1_v1_5.new(key).decrypt(blob, None)
    except ValueError:
        return "V"


def aes_enc(key, iv, data):
    try:
        return AES.new(key, AES.MODE_CBC, iv=iv).encrypt(data)
    except ValueError:
        return None


def aes_dec(key, iv, data):
    try:
        return AES.new(key, AES.MODE_CBC, iv=iv).decrypt(data)
    except ValueError:
        return None


def hmac256(key, msg):
    return _hmac.new(key, msg, "sha256").digest()


def sha256(x):
    return hashlib.sha256(x).digest()


IV = b"abcdefghijklmnop"

# --------------------------------------------------------------------------------------------------------------------
# independent reference codec of the Malleable C2 data-transform language (plain Python; mirrors lean C04.Ref)
# --------------------------------------------------------------------------------------------------------------------


def r_alpha(url):
    return bytes(range(65, 91)) + bytes(range(97, 123)) + bytes(range(48, 58)) + (b"-_" if url else b"+/")


def r_sextets(d):
    out = []
    for k in range(0, len(d), 3):
        g = d[k:k + 3]
        if len(g) == 3:
            a, b, c = g
            out += [a // 4, a % 4 * 16 + b // 16, b % 16 * 4 + c // 64, c % 64]
        elif len(g) == 2:
            a, b = g
            out += [a // 4, a % 4 * 16 + b // 16, b % 16 * 4]
        else:
            (a,) = g
            out += [a // 4, a % 4 * 16]
    return out


def r_b64enc(d):
    al = r_alpha(False)
    return bytes(al[s] for s in r_sextets(d)) + b"=" * ((3 - len(d) % 3) % 3)


def r_b64urlenc(d):
    al = r_alpha(True)
    return bytes(al[s] for s in r_sextets(d))


def r_b64dec(url, s):
    k = s.find(b"=")
    body, pad = (s, b"") if k < 0 else (s[:k], s[k:])
    if pad.strip(b"=") != b"" or len(pad) > 2:
        return None
    al = r_alpha(url)
    vs = []
    for c in body:
        v = al.find(bytes([c]))
        if v < 0:
            return None
        vs.append(v)
    out = bytearray()
    for k in range(0, len(vs), 4):
        g = vs[k:k + 4]
        if len(g) == 1:
            return None
        out.append((g[0] * 4 + g[1] // 16) % 256)
        if len(g) >= 3:
            out.append((g[1] % 16 * 16 + g[2] // 4) % 256)
        if len(g) == 4:
            out.append((g[2] % 4 * 64 + g[3]) % 256)
    return bytes(out)


def r_nbenc(base, d):
    out = bytearray()
    for c in d:
        out += bytes([base + c // 16, base + c % 16])
    return bytes(out)


def r_nbdec(base, s):
    if len(s) % 2:
        return None
    out = bytearray()
    for k in range(0, len(s), 2):
        a, b = s[k], s[k + 1]
        if not (base <= a < base + 16 and base <= b < base + 16):
            return None
        out.append((a - base) * 16 + (b - base))
    return bytes(out)


def r_xor(key, d):
    return bytes(b ^ key[i % len(key)] for i, b in enumerate(d)) if key else bytes(d)


def r_encstep(e, masks, d):
    k = e[0] if isinstance(e, tuple) else e
    if k == "append":
        return d + e[1]
    if k == "prepend":
        return e[1] + d
    if k == "base64":
        return r_b64enc(d)
    if k == "base64url":
        return r_b64urlenc(d)
    if k == "netbios":
        return r_nbenc(97, d)
    if k == "netbiosu":
        return r_nbenc(65, d)
    if k == "mask":
        key = struct.pack(">I", masks.pop(0) if masks else 0)
        return key + r_xor(key, d)
    raise RuntimeError(e)


def r_decstep(e, d):
    k = e[0] if isinstance(e, tuple) else e
    if k == "append":
        a = e[1]
        return d[:len(d) - len(a)] if len(a) <= len(d) and d[len(d) - len(a):] == a else None
    if k == "prepend":
        a = e[1]
        return d[len(a):] if d[:len(a)] == a else None
    if k == "base64":
        return r_b64dec(False, d)
    if k == "base64url":
        return r_b64dec(True, d)
    if k == "netbios":
        return r_nbdec(97, d)
    if k == "netbiosu":
        return r_nbdec(65, d)
    if k == "mask":
        return r_xor(d[:4], d[4:]) if len(d) >= 4 else None
    raise RuntimeError(e)


def r_encode(items, masks, c2, req):
    """reference encoder on a dict-shaped request {method, uri, params, headers, body}; `masks` is consumed"""
    r = {"method": req["method"], "uri": req["uri"], "params": dict(req["params"]), "headers": dict(req["headers"]), "body": req["body"]}
    for it in items:
        if it[0] == "deco":
            _, kind, n, v = it
            (r["params"] if kind == "parameter" else r["headers"])[n] = v
        else:
            _, field, encs, term = it
            d = c2.get(field) or b""
            for e in encs:
                d = r_encstep(e, masks, d)
            if term[0] == "print":
                r["body"] = d
            elif term[0] == "uri":
                r["uri"] = r["uri"] + d
            elif term[0] == "header":
                r["headers"][term[1]] = d
            else:
                r["params"][term[1]] = d
    return r


def r_decode(items, msg):
    """reference decoder; msg = {kind 'Q'/'S', uri, params, headers, body}"""
    acc = {"output": None, "metadata": None, "id": None}
    for it in items:
        if it[0] != "block":
            continue
        _, field, encs, term = it
        if term[0] == "print":
            d = msg["body"]
        elif term[0] == "uri":
            d = msg["uri"] if msg["kind"] == "Q" else None
        elif term[0] == "header":
            d = msg["headers"].get(term[1])
        else:
            d = msg["params"].get(term[1]) if msg["kind"] == "Q" else None
        for e in reversed(encs):
            if d is None:
                return None
            d = r_decstep(e, d)
        if d is None:
            return None
        acc[field] = d
    return acc


# --------------------------------------------------------------------------------------------------------------------
# programs: binary form (TLV settings 11/12/13), flat codes for the line
# --------------------------------------------------------------------------------------------------------------------

def u32(v):
    return struct.pack(">I", v)


def arg(b):
    return u32(len(b)) + b


ENC_CODE = {"base64": 3, "netbios": 8, "netbiosu": 11, "base64url": 13, "mask": 15}
CODE_ENC = {v: k for k, v in ENC_CODE.items()}


def prog_binary(items, build0):
    """http-get.client / http-post.client program as the team server stores it (setting 12 / 13)."""
    out = b""
    for it in items:
        if it[0] == "deco":
            _, kind, n, v = it
            if kind == "parameter":
                out += u32(9) + arg(n + b"=" + v)
            else:
                out += u32(10 if kind == "header" else 16) + arg(n + b": " + v)
        else:
            _, field, encs, term = it
            out += u32(7) + u32(0 if field == build0 else 1)
            for e in encs:
                if isinstance(e, tuple):
                    out += u32(1 if e[0] == "append" else 2) + arg(e[1])
                else:
                    out += u32(ENC_CODE[e])
            if term[0] == "print":
                out += u32(4)
            elif term[0] == "uri":
                out += u32(12)
            elif term[0] == "header":
                out += u32(6) + arg(term[1])
            else:
                out += u32(5) + arg(term[1])
    return out + u32(0)


def recover_binary(encs):
    """http-get.server.output as the beacon stores it (setting 11): print, then the statements last-to-first, lengths only."""
    out = u32(4)
    for e in reversed(encs):
        if isinstance(e, tuple):
            out += u32(1 if e[0] == "append" else 2) + u32(len(e[1]))
        else:
            out += u32(ENC_CODE[e])
    return out + u32(0)


def parse_prog_binary(data, build0):
    """independent reader of setting 12/13 -> items (for the sample beacons)"""
    p = io.BytesIO(data)
    items, cur = [], None

    def rd_arg():
        n = struct.unpack(">I", p.read(4))[0]
        return p.read(n)

    while True:
        d = p.read(4)
        if len(d) != 4:
            break
        v = struct.unpack(">I", d)[0]
        if v == 0:
            break
        if v == 7:
            bt = struct.unpack(">I", p.read(4))[0]
            cur = [build0 if bt == 0 else "output", []]
        elif v in CODE_ENC:
            cur[1].append(CODE_ENC[v])
        elif v == 1:
            cur[1].append(("append", rd_arg()))
        elif v == 2:
            cur[1].append(("prepend", rd_arg()))
        elif v in (4, 12, 5, 6):
            term = {4: ("print",), 12: ("uri",)}.get(v) or (("parameter" if v == 5 else "header"), rd_arg())
            items.append(("block", cur[0], cur[1], term))
            cur = None
        elif v in (9, 10, 16):
            a = rd_arg()
            if v == 9:
                n, _, val = a.partition(b"=")
                items.append(("deco", "parameter", n, val))
            else:
                n, _, val = a.partition(b": ")
                items.append(("deco", "header" if v == 10 else "hostheader", n, val))
        else:
            raise ValueError(f"unknown transform step {v}")
    return items


def parse_recover_binary_ref(data):
    """independent reader of setting 11 -> server statements in PROFILE order, prepend/append as lengths"""
    p = io.BytesIO(data)
    rev = []
    first = True
    while True:
        d = p.read(4)
        if len(d) != 4:
            break
        v = struct.unpack(">I", d)[0]
        if v == 0:
            break
        if v == 4:
            assert first
        elif v in CODE_ENC:
            rev.append(CODE_ENC[v])
        elif v in (1, 2):
            n = struct.unpack(">I", p.read(4))[0]
            rev.append(("append" if v == 1 else "prepend", n))
        else:
            raise ValueError(f"unknown recover step {v}")
        first = False
    return list(reversed(rev))


def enc_code(e, as_len=False):
    if isinstance(e, tuple):
        c = "A" if e[0] == "append" else "P"
        if isinstance(e[1], int):
            return f"{c}.i{e[1]}"
        return f"{c}.i{len(e[1])}" if as_len else f"{c}.{C.hx(e[1])}"
    return {"base64": "b64", "base64url": "b64u", "netbios": "nb", "netbiosu": "nbu", "mask": "mask"}[e]


def flat_codes(items):
    """the step list parse_transform_binary yields, as line codes"""
    codes = []
    for it in items:
        if it[0] == "deco":
            _, kind, n, v = it
            if kind == "parameter":
                codes.append("_Q." + C.hx(n + b"=" + v))
            else:
                codes.append(("_H." if kind == "header" else "_HH.") + C.hx(n + b": " + v))
        else:
            _, field, encs, term = it
            codes.append({"output": "Bo", "id": "Bi", "metadata": "Bm"}[field])
            codes += [enc_code(e) for e in encs]
            if term[0] == "print":
                codes.append("print")
            elif term[0] == "uri":
                codes.append("uri")
            else:
                codes.append(("H." if term[0] == "header" else "Q.") + C.hx(term[1]))
    return "s" + ",".join(codes)


def recover_codes(encs):
    return "s" + ",".join(["print"] + [enc_code(e, as_len=True) for e in reversed(encs)])


# --------------------------------------------------------------------------------------------------------------------
# configurations
# --------------------------------------------------------------------------------------------------------------------

def tlv(index, typ, value):
    return struct.pack(">HHH", index, typ, len(value)) + value


def t_short(i, v):
    return tlv(i, 1, struct.pack(">H", v))


def t_int(i, v):
    return tlv(i, 2, struct.pack(">I", v))


def t_ptr(i, v, size=None):
    if size is not None and len(v) < size:
        v = v + bytes(size - len(v))
    return tlv(i, 3, v)


def synth_block(cfg):
    """independent TLV encoder: the settings C2Http and the client read"""
    doms = ",".join(f"{d},{u.decode()}" for d, u in zip(cfg["domains"], cfg["get_uris"])).encode()
    items = [
        t_short(1, 8 if cfg["https"] else 0),
        t_short(2, cfg["port"]),
        t_int(3, 60000),
        t_short(5, 10),
        t_ptr(7, priv_key("own").publickey().export_key("DER"), 256),
        t_ptr(8, doms, 256),
        t_ptr(9, cfg["ua"], 128),
        t_ptr(10, cfg["submit_uri"], 64),
        t_ptr(11, recover_binary(cfg["server"]), 256),
        t_ptr(12, prog_binary(cfg["get"], "metadata"), 256),
        t_ptr(13, prog_binary(cfg["post"], "id"), 512),
        t_ptr(26, cfg["get_verb"], 16),
        t_ptr(27, cfg["submit_verb"], 16),
        t_short(31, 0),
        t_int(37, 305419896),
        t_ptr(54, cfg["host_header"], 128),
    ]
    return b"".join(items) + bytes(6)


_REAL = None


def cstr(b):
    """NUL-terminated ASCII setting value"""
    b = bytes(b)
    k = b.find(b"\x00")
    return b if k < 0 else b[:k]


def real_configs():
    """HTTP(S) sample beacons: [(stem, block, attrs, cfg-dict)] — cfg-dict read INDEPENDENTLY from the raw TLV values"""
    global _REAL
    if _REAL is None:
        out = []
        for p in sorted(BEACON_DIR.glob("*.bin.zip")):
            with zipfile.ZipFile(p) as zf:
                data = zf.read(p.stem, pwd=b"dissect.cobaltstrike")
            try:
                bc = B.BeaconConfig.from_bytes(data, xor_keys=XOR_KEYS)
            except ValueError:
                continue
            raw = raw_tlv(bytes(bc.config_block))
            if raw.get(1) is None or struct.unpack(">H", raw[1])[0] not in (0, 8):
                continue
            attrs = {k: getattr(bc, k) for k in ("xorkey", "xorencoded", "pe_export_stamp", "pe_compile_stamp", "architecture")}
            parts = cstr(raw[8]).decode("latin-1").split(",")
            server = parse_recover_binary_ref(raw[11])
            cfg = {
                "https": struct.unpack(">H", raw[1])[0] == 8,
                "port": struct.unpack(">H", raw[2])[0],
                "domains": parts[0::2],
                "get_uris": list(dict.fromkeys(u.encode() for u in parts[1::2])),
                "ua": cstr(raw[9]),
                "submit_uri": cstr(raw[10]),
                "server_len": server,
                "get": parse_prog_binary(raw[12], "metadata"),
                "post": parse_prog_binary(raw[13], "id"),
                "get_verb": cstr(raw[26]),
                "submit_verb": cstr(raw[27]),
                "host_header": cstr(raw.get(54, b"")),
            }
            out.append((p.stem, bytes(bc.config_block), attrs, cfg))
        _REAL = out
    return _REAL


def raw_tlv(block):
    """index -> raw value bytes (last occurrence wins), independent of the library"""
    out, k = {}, 0
    while k + 6 <= len(block):
        idx, typ, ln = struct.unpack(">HHH", block[k:k + 6])
        if idx == 0:
            break
        out[idx] = block[k + 6:k + 6 + ln]
        k += 6 + ln
    return out


def server_with_fillers(server_len, rng):
    """turn the length-only server statements of a sample beacon into real strings (what the team server would send)"""
    out = []
    for e in server_len:
        if isinstance(e, tuple):
            out.append((e[0], bytes(rng.choice(PRINTABLE_SAFE) for _ in range(e[1]))))
        else:
            out.append(e)
    return out


def bconfig_of(src):
    """the real BeaconConfig object of a case (`r<k>` sample beacon, `x<hex>` synthetic block)"""
    if src[0] == "r":
        stem, block, attrs, _ = real_configs()[int(src[1:])]
        bc = B.BeaconConfig(block)
        for k, v in attrs.items():
            setattr(bc, k, v)
        return bc, stem
    return B.BeaconConfig(C.unhx(src)), None


# --------------------------------------------------------------------------------------------------------------------
# generators of configurations
# --------------------------------------------------------------------------------------------------------------------

ALNUM = b"abcdefghijklmnopqrstuvwxyzABCDEFGHIJKLMNOPQRSTUVWXYZ0123456789"
PRINTABLE_SAFE = ALNUM + b"-_.=;|~*!"
HEADER_NAMES = [b"Cookie", b"X-Session", b"Authorization", b"X-Request-ID", b"Accept-Language", b"Referer", b"X-Csrf-Token", b"ETag", b"Pragma", b"X-Forwarded-For"]
PARAM_NAMES = [b"id", b"q", b"session", b"__cfduid", b"sn", b"token", b"utm", b"k", b"v", b"ref", b"page", b"lang"]
VERBS = [b"GET", b"POST", b"PUT", b"PATCH", b"DELETE", b"OPTIONS", b"QUERY", b"REPORT"]


def rword(rng, lo=1, hi=8, alpha=ALNUM):
    return bytes(rng.choice(alpha) for _ in range(rng.randrange(lo, hi + 1)))


def gen_uri(rng):
    segs = [rword(rng, 1, 6) for _ in range(rng.randrange(1, 4))]
    u = b"/" + b"/".join(segs)
    if rng.random() < 0.3:
        u += rng.choice([b".css", b".js", b".php", b".gif", b"/"])
    return u


def gen_encs(rng, maxn=4, printable=True, alpha=None):
    """encoder statements whose output is printable ASCII when `printable`"""
    n = rng.randrange(0, maxn + 1)
    encs = []
    for _ in range(n):
        r = rng.random()
        if r < 0.55:
            encs.append(rng.choice(["base64", "base64url", "netbios", "netbiosu", "mask"]))
        elif r < 0.8:
            encs.append(("prepend", rword(rng, 0, 10, alpha or PRINTABLE_SAFE)))
        else:
            encs.append(("append", rword(rng, 0, 10, alpha or PRINTABLE_SAFE)))
    if printable:
        # the payload is binary: after the last non-printable producer there must be a printable encoder
        last_raw = max([i for i, e in enumerate(encs) if e == "mask"], default=-1)
        if not any(e in ("base64", "base64url", "netbios", "netbiosu") for e in encs[last_raw + 1:]):
            encs.insert(rng.randrange(last_raw + 1, len(encs) + 1), rng.choice(["base64", "base64url", "netbios", "netbiosu"]))
    return encs


def gen_decos(rng, used_headers, used_params, maxn=3):
    out = []
    for _ in range(rng.randrange(0, maxn + 1)):
        r = rng.random()
        if r < 0.55:
            n = rng.choice([b"Accept", b"Connection", b"Content-Type", b"X-Static", b"Cache-Control", b"Accept-Encoding", b"X-" + rword(rng, 2, 6)])
            if n in used_headers:
                continue
            v = rng.choice([b"*/*", b"close", b"text/plain", b"application/octet-stream", b"no-cache", b"gzip, deflate", rword(rng, 1, 12, PRINTABLE_SAFE), b"a: b", b"k=v; x=y"])
            out.append(("deco", "header", n, v))
        elif r < 0.7:
            out.append(("deco", "hostheader", b"Host", rword(rng, 3, 8, b"abcdefghijklmnop") + b".com"))
        else:
            n = rng.choice([b"sz", b"oe", b"s", b"dc_ref", b"static", b"z" + rword(rng, 1, 4)])
            if n in used_params:
                continue
            v = rng.choice([b"160x600", b"oe=ISO-8859-1;", b"3717", b"http%3A%2F%2Fwww.amazon.com", b"a b", b"x+y&z", rword(rng, 1, 8, PRINTABLE_SAFE)])
            out.append(("deco", "parameter", n, v))
    return out


def gen_term(rng, used, allow_print=True, uri=False):
    if uri:
        return ("uri",)
    for _ in range(20):
        r = rng.random()
        if r < 0.3 and allow_print:
            t = ("print",)
        elif r < 0.7:
            t = ("header", rng.choice(HEADER_NAMES))
        else:
            t = ("parameter", rng.choice(PARAM_NAMES))
        if t not in used:
            return t
    raise RuntimeError("no free termination")


def term_names(items):
    hs = {it[3][1] for it in items if it[0] == "block" and it[3][0] == "header"}
    ps = {it[3][1] for it in items if it[0] == "block" and it[3][0] == "parameter"}
    return hs, ps


def interleave(rng, decos, blocks):
    """static decorations may come before, between and after the blocks (a decoration never shares a name with a block)"""
    items = list(blocks)
    for d in decos:
        items.insert(rng.randrange(0, len(items) + 1), d)
    return items


def gen_synth_cfg(rng, uri_append=False, overlap=False):
    gv = rng.choice([b"GET", b"GET", b"GET", b"POST"] + VERBS)
    sv = rng.choice([b"POST", b"POST", b"POST", b"GET", gv] + VERBS)
    nuri = rng.choice([1, 1, 2, 3, 4])
    get_uris = []
    while len(get_uris) < nuri:
        u = gen_uri(rng)
        if rng.random() < 0.3 and get_uris:
            u = rng.choice(get_uris) + rword(rng, 1, 3)          # URIs that extend one another
        if u not in get_uris:
            get_uris.append(u)
    for _ in range(50):
        su = gen_uri(rng)
        if rng.random() < 0.3:
            g = rng.choice(get_uris)
            su = rng.choice([g[:-1] if len(g) > 2 else g + b"x", g + b"_s", g[: max(2, len(g) // 2)] + b"Z"])
        clash = gv == sv and any(su.startswith(g) for g in get_uris)
        if overlap and gv == sv:
            su = rng.choice(get_uris) + rng.choice([b"", b"/submit", b"2"])
            break
        if not clash:
            break
    if overlap:
        sv = gv
        su = rng.choice(get_uris) + rng.choice([b"", b"/submit", b"2"])
    # get program: metadata block
    mterm = gen_term(rng, set(), uri=uri_append)
    # (uri-append: the data becomes part of the URL, which urljoin/httpx normalise: only unreserved characters)
    mblock = ("block", "metadata", gen_encs(rng, 4, printable=mterm[0] != "print", alpha=(ALNUM + b"-_.~") if uri_append else None), mterm)
    hs, ps = term_names([mblock])
    get_items = interleave(rng, gen_decos(rng, hs, ps), [mblock])
    # post program: id + output
    used = set()
    oterm = gen_term(rng, used) if rng.random() < 0.35 else ("print",)
    used.add(oterm)
    iterm = gen_term(rng, used, allow_print=True)
    oblock = ("block", "output", gen_encs(rng, 3, printable=oterm[0] != "print"), oterm)
    iblock = ("block", "id", gen_encs(rng, 3, printable=iterm[0] != "print") if rng.random() < 0.7 else [], iterm)
    blocks = [iblock, oblock] if rng.random() < 0.6 else [oblock, iblock]
    hs, ps = term_names(blocks)
    post_items = interleave(rng, gen_decos(rng, hs, ps), blocks)
    server = gen_encs(rng, 4, printable=False)
    ndom = len(get_uris)
    return {
        "https": rng.random() < 0.5,
        "port": rng.choice([80, 443, 8080, 8443]),
        "domains": [rword(rng, 3, 8, b"abcdefghijklmnopqrstuvwxyz").decode() + ".example.com" for _ in range(ndom)],
        "get_uris": get_uris,
        "ua": rng.choice([b"Mozilla/5.0 (Windows NT 6.1; Trident/7.0; rv:11.0) like Gecko", b"curl/8.0", b"UA " + rword(rng, 1, 8)]),
        "submit_uri": su,
        "server": server,
        "get": get_items,
        "post": post_items,
        "get_verb": gv,
        "submit_verb": sv,
        "host_header": rng.choice([b"", b"", b"Host: cdn." + rword(rng, 3, 6, b"abcdefghijklmnop") + b".net", b"Host: front.example.org\r\n"]),
    }


# --------------------------------------------------------------------------------------------------------------------
# beacon metadata, packets (independent of cstruct)
# --------------------------------------------------------------------------------------------------------------------

META_FMT = ">II16sHHIIHBBBHIIII"
META_NAMES = ["magic", "size", "aes_rand", "ansi_cp", "oem_cp", "bid", "pid", "port", "flag", "ver_major", "ver_minor", "ver_build",
              "ptr_x64", "ptr_gmh", "ptr_gpa", "ip", "info"]


def meta_dumps(m):
    return struct.pack(META_FMT, *[m[k] for k in META_NAMES[:-1]]) + m["info"]


def meta_tokens(m):
    return " ".join(C.hx(m[k]) if k in ("aes_rand", "info") else str(m[k]) for k in META_NAMES)


def show_meta_obj(md):
    return " ".join(C.hx(bytes(getattr(md, k))) if k in ("aes_rand", "info") else str(int(getattr(md, k))) for k in META_NAMES)


def task_bytes(t):
    epoch, total, cmd, size, data = t
    return struct.pack(">IIII", epoch, total, cmd, size) + data


def cb_bytes(counter, cbid, data):
    return struct.pack(">III", counter, len(data), cbid) + data


def pad16(d):
    return d + b"A" * (16 - len(d) % 16)


def enc_frame(keys, pt, tbl):
    """own encrypt_packet: returns (ct, sig) and records the primitive results"""
    ak, hk = keys
    p = pad16(pt)
    ct = aes_enc(ak, IV, p)
    tbl.aes("E", ak, IV, p, ct)
    mac = hmac256(hk, ct)
    tbl.hmac(hk, ct, mac)
    return ct, mac[:16]


class Table:
    """oracle table: primitive results computed by the harness, deduplicated"""

    def __init__(self):
        self.toks = []
        self.seen = set()

    def _add(self, key, toks):
        if key not in self.seen:
            self.seen.add(key)
            self.toks += toks

    def hmac(self, k, m, d):
        self._add(("H", k, m), ["H", C.hx(k), C.hx(m), C.hx(d)])

    def aes(self, kind, k, iv, d, r):
        self._add((kind, k, iv, d), [kind, C.hx(k), C.hx(iv), C.hx(d), "!" if r is None else C.hx(r)])

    def rsa_dec(self, blob, r):
        self._add(("RD", blob), ["RD", C.hx(blob), "V" if r == "V" else ("none" if r is None else C.hx(r))])

    def rsa_enc(self, m, rr, blob):
        self._add(("RE", m, rr), ["RE", C.hx(m), C.hx(rr), "V" if blob is None else C.hx(blob)])

    def sha(self, x, d):
        self._add(("S", x), ["S", C.hx(x), C.hx(d)])


# --------------------------------------------------------------------------------------------------------------------
# wire
# --------------------------------------------------------------------------------------------------------------------

def h11_wire(request: httpx.Request) -> bytes:
    """the bytes httpcore's HTTP/1.1 connection writes for this request"""
    conn = h11.Connection(h11.CLIENT)
    out = conn.send(h11.Request(method=request.method, target=request.url.raw_path, headers=request.headers.raw))
    body = request.content
    if body:
        out += conn.send(h11.Data(data=body))
    out += conn.send(h11.EndOfMessage())
    return out


def quote_ref(b: bytes) -> bytes:
    out = bytearray()
    for c in b:
        if chr(c).isalnum() and c < 128 or c in b"_.~-":
            out.append(c)
        else:
            out += b"%%%02X" % c
    return bytes(out)


def render_request_ref(r) -> bytes:
    """C16-style rendering of a crafted request (percent-encoded parameters)"""
    target = r["uri"]
    if r["params"]:
        target += b"?" + b"&".join(quote_ref(k) + b"=" + quote_ref(v) for k, v in r["params"].items())
    head = r["method"] + b" " + target + b" HTTP/1.1"
    for k, v in r["headers"].items():
        head += b"\r\n" + k + b": " + v
    return head + b"\r\n\r\n" + r["body"]


def render_response(headers, body) -> bytes:
    head = b"HTTP/1.1 200 OK"
    for k, v in headers.items():
        head += b"\r\n" + k + b": " + v
    return head + b"\r\n\r\n" + body


# --------------------------------------------------------------------------------------------------------------------
# session specification
# --------------------------------------------------------------------------------------------------------------------

def info_bytes(computer, user, process):
    s = f"{computer}\t{user}\t{process}".encode()[:51]
    return s.decode(errors="ignore").encode()


def session_aes_rand(bid):
    return _random.Random(bid ^ 0xACCE55ED).getrandbits(128).to_bytes(16, "big")


def ip_le(ip):
    return int.from_bytes(bytes(int(x) for x in ip.split(".")), "little")


NAMES = ["alice", "Bob Smith", "svc-sql", "administrator", "jörg", "ユーザー", "a" * 30, ""]
HOSTS = ["WIN-0123456789A", "DESKTOP-ABCDEFG", "srv", "DC01", "héllo-pc", "H" * 25]
PROCS = ["rundll32.exe", "svchost.exe", "x.exe", "powershell.exe", "a-very-long-process-name.exe"]


def gen_client(rng, cfg):
    bid = rng.getrandbits(31) & ~1
    if rng.random() < 0.1:
        bid = rng.choice([0, 2, 0x7FFFFFFE, 10, 1000000])
    arch = rng.choice(["x86", "x64"])
    barch = rng.choice(["x86", "x64"])
    hi = rng.random() < 0.3
    flag = (2 if barch == "x64" else 0) | (4 if arch == "x64" else 0) | (8 if hi else 0)
    ip = ".".join(str(rng.randrange(1, 255)) for _ in range(4))
    computer, user, process = rng.choice(HOSTS), rng.choice(NAMES), rng.choice(PROCS)
    m = {
        "magic": 0xBEEF, "size": 0, "aes_rand": session_aes_rand(bid), "ansi_cp": rng.choice([58372, 1252, 0, 65535]),
        "oem_cp": rng.choice([46337, 437, 0, 65535]), "bid": bid, "pid": rng.randrange(1, 70000),
        "port": rng.choice([0, 0, 22, 65535]), "flag": flag, "ver_major": rng.choice([10, 6, 5, 255]), "ver_minor": rng.choice([0, 1, 3]),
        "ver_build": rng.choice([19041, 7601, 2600, 65535]), "ptr_x64": rng.choice([0, 0, 0x7FFE]), "ptr_gmh": rng.choice([0, 0x77001000, 0xFFFFFFFF]),
        "ptr_gpa": rng.choice([0, 0x77002000]), "ip": ip_le(ip), "info": info_bytes(computer, user, process),
    }
    return {
        "bid": bid, "pid": m["pid"], "computer": computer, "user": user, "process": process, "ip": ip, "arch": arch, "barch": barch,
        "hi": hi, "meta": m, "get_uri": rng.choice(cfg["get_uris"]), "counter": rng.choice([0, 1, 1700000000, rng.getrandbits(31), 2 ** 32 - 40]),
    }


def host_header_value(cfg, domain):
    _, _, fqdn = cfg["host_header"].partition(b": ")
    return fqdn.decode().strip().encode() if fqdn else domain.encode()


CB_IDS = [0, 30, 31, 32, 22, 13, 1, 99, 4000000000]
CMD_IDS = [53, 2, 4, 3, 6, 6, 100, 77, 0, 1000]


def gen_task(rng):
    data = C.rbytes(rng, rng.choice([0, 0, 1, 4, 11, 12, 15, 16, 17, 40, 200]))
    return (rng.getrandbits(32), rng.getrandbits(16), rng.choice(CMD_IDS), len(data), data)


def gen_cb(rng):
    return (rng.choice(CB_IDS), C.rbytes(rng, rng.choice([0, 1, 3, 4, 5, 19, 20, 21, 36, 64, 300])))


# --------------------------------------------------------------------------------------------------------------------
# running the real client against the capturing peer
# --------------------------------------------------------------------------------------------------------------------

class _Scripted:
    """replacement of the module-level random.getrandbits during get_task / send_callback"""

    def __init__(self):
        self.vals = []

    def __call__(self, n):
        if n != 32:
            raise RuntimeError("unexpected getrandbits width")
        return self.vals.pop(0) if self.vals else 0


class _PadSource:
    def __init__(self):
        self.stream = b""
        self.pos = 0

    def load(self, b):
        self.stream, self.pos = b, 0

    def __call__(self, n):
        out = self.stream[self.pos:self.pos + n]
        self.pos += n
        if len(out) != n:
            raise RuntimeError("padding stream exhausted")
        return out


class Peer:
    """the other end of httpx.request: records, renders, answers"""

    def __init__(self):
        self.records = []       # (method, uri, params, headers, body) as handed to httpx.request
        self.wires = []         # raw request bytes
        self.responses = []     # (headers dict, body, raw response bytes)
        self.next_response = None
        self.base_url = ""

    def handler(self, request: httpx.Request) -> httpx.Response:
        self.wires.append(h11_wire(request))
        headers, body = self.next_response
        self.responses.append((headers, body, render_response(headers, body)))
        return httpx.Response(200, headers=[(k, v) for k, v in headers.items()], content=body)

    def request(self, method, url, headers=None, params=None, content=None, verify=None, **kw):
        uri = url[len(self.base_url):] if url.startswith(self.base_url) else "?" + url
        self.records.append((bytes(method), uri.encode(), {k.encode(): v.encode() for k, v in (params or {}).items()},
                             dict(headers or {}), bytes(content or b"")))
        with httpx.Client(transport=httpx.MockTransport(self.handler)) as cl:
            return cl.request(method, url, headers=headers, params=params, content=content)


def show_req_tuple(t):
    m, u, p, h, b = t
    return f"{C.hx(m)} {C.hx(u)} {dict_token(p)} {dict_token(h)} {C.hx(b)}"


def dict_token(d):
    return "d" + ",".join(bytes(k).hex() + "." + bytes(v).hex() for k, v in d.items())


def undict(t):
    assert t[0] == "d"
    out = {}
    if len(t) > 1:
        for kv in t[1:].split(","):
            k, v = kv.split(".")
            out[bytes.fromhex(k)] = bytes.fromhex(v)
    return out


class Patches:
    """everything that is patched while the real client runs; restored on exit"""

    def __init__(self, stem, keysrc):
        self.stem, self.keysrc = stem, keysrc
        self.rand = _Scripted()
        self.pad = _PadSource()
        self.peer = Peer()

    def __enter__(self):
        self._saved = (_random.getrandbits, _CRandom.get_random_bytes, httpx.request, logging.root.manager.disable)
        _random.getrandbits = self.rand
        _CRandom.get_random_bytes = self.pad
        httpx.request = self.peer.request
        logging.disable(logging.CRITICAL)
        self._pk = None
        if self.stem is not None and self.keysrc == "own":
            self._pk = mock.patch.object(B.BeaconConfig, "public_key", new_callable=mock.PropertyMock,
                                         return_value=priv_key("own").publickey().export_key("DER"))
            self._pk.start()
        return self

    def __exit__(self, *a):
        if self._pk is not None:
            self._pk.stop()
        _random.getrandbits, _CRandom.get_random_bytes, httpx.request = self._saved[:3]
        logging.disable(self._saved[3])
        return False


def make_client(bc, cl_spec, domain):
    """the real client, set up by run(dry_run=True); random choices of run() are overridden by the script"""
    client = CL.HttpBeaconClient()
    saved_getrandbits = _random.getrandbits
    _random.getrandbits = _random._inst.getrandbits      # run() seeds the module RNG and draws aes_rand from it
    try:
        if isinstance(cl_spec["bid"], int) and (cl_spec["bid"] // 2) % 2 == 0:
            # an earlier session of the SAME client object on the same configuration object under another beacon id (and other
            # names): nothing of it may survive into the session under test (keys, metadata, transforms are per session)
            try:
                client.run(bconfig=bc, dry_run=True, domain=domain, beacon_id=(cl_spec["bid"] ^ 0x10) & 0x7FFFFFFE, pid=cl_spec["pid"] + 1,
                           computer="WARMUP", user="warm", process="up.exe", internal_ip="10.9.8.7",
                           arch=cl_spec["arch"], barch=cl_spec["barch"], high_integrity=not cl_spec["hi"], sleeptime=0, jitter=0)
            except Exception:  # noqa: BLE001
                pass
        client.run(bconfig=bc, dry_run=True, domain=domain, beacon_id=cl_spec["bid"], pid=cl_spec["pid"],
                   computer=cl_spec["computer"], user=cl_spec["user"], process=cl_spec["process"], internal_ip=cl_spec["ip"],
                   arch=cl_spec["arch"], barch=cl_spec["barch"], high_integrity=cl_spec["hi"],
                   ansi_cp=cl_spec["meta"]["ansi_cp"], oem_cp=cl_spec["meta"]["oem_cp"], sleeptime=0, jitter=0)
    finally:
        _random.getrandbits = saved_getrandbits
    m = cl_spec["meta"]
    for k in ("port", "ver_major", "ver_minor", "ver_build", "ptr_x64", "ptr_gmh", "ptr_gpa"):
        setattr(client.metadata, k, m[k])
    client.get_uri = cl_spec["get_uri"].decode()
    client.counter = cl_spec["counter"]
    return client


RESP_HEADER_POOL = [
    {b"Content-Type": b"application/octet-stream"},
    {b"Content-Type": b"text/html; charset=utf-8", b"Server": b"nginx"},
    {b"Date": b"Tue, 2 Feb 2021 16:32:16 GMT", b"Content-Type": b"application/octet-stream", b"Connection": b"close"},
    {},
]


def run_session(spec):
    """Run the script of `spec` against the real client.  Returns per event a dict with the wires / records / results.
    (Used by gen() to capture and by impl() to re-check.)"""
    bc, stem = bconfig_of(spec["cfgsrc"])
    cfg = spec["cfg"]
    out = []
    with Patches(stem, spec["keysrc"]) as P:
        domain = spec["domain"]
        client = make_client(bc, spec["client"], domain)
        P.peer.base_url = client.base_url
        sess_keys = (sha256(spec["client"]["meta"]["aes_rand"])[:16], sha256(spec["client"]["meta"]["aes_rand"])[16:])
        for ev in spec["events"]:
            if ev["kind"] == "G":
                P.pad.load(ev["pad"])
                P.rand.vals = list(ev["masks"])
                smasks = list(ev["smasks"])
                pt = None if ev["task"] is None else task_bytes(ev["task"])
                body = server_body(cfg["server"], sess_keys, pt, smasks, Table())
                hdrs = dict(ev["rhdr"])
                hdrs[b"Content-Length"] = str(len(body)).encode()
                P.peer.next_response = (hdrs, body)
                n0 = len(P.peer.wires)
                try:
                    res = client.get_task()
                    res_s = "ok none" if res is None else "ok " + show_task_obj(res)
                except Exception as e:  # noqa: BLE001
                    if type(e).__name__ == "Timeout":
                        raise
                    res_s = "exc " + canon(e)
                sent = len(P.peer.wires) > n0
                out.append({"wreq": P.peer.wires[-1] if sent else b"", "wresp": P.peer.responses[-1][2] if sent else b"",
                            "rhdr": hdrs, "rbody": body, "rec": P.peer.records[-1] if sent else None, "res": res_s})
            elif ev["kind"] == "C":
                P.rand.vals = list(ev["masks"])
                P.peer.next_response = ({b"Content-Length": b"0"}, b"")
                n0 = len(P.peer.wires)
                exc = None
                try:
                    for cbid, data in ev["cbs"]:
                        client.send_callback(CC2.c2struct.BeaconCallback(cbid), data)
                except Exception as e:  # noqa: BLE001
                    if type(e).__name__ == "Timeout":
                        raise
                    exc = canon(e)
                sent = len(P.peer.wires) > n0
                out.append({"wreq": P.peer.wires[-1] if sent else b"", "wresp": P.peer.responses[-1][2] if sent else b"",
                            "rec": P.peer.records[-1] if sent else None, "exc": exc})
            else:
                out.append({})
    return out


def canon(e):
    for cls, name in ((EOFError, "EOFError"), (IndexError, "IndexError"), (KeyError, "KeyError"), (OverflowError, "OverflowError"),
                      (ValueError, "ValueError"), (OSError, "OSError"), (AttributeError, "AttributeError"), (TypeError, "TypeError"),
                      (AssertionError, "AssertionError")):
        if isinstance(e, cls):
            return name
    return type(e).__name__


def show_task_obj(t):
    return f"T {int(t.epoch)} {int(t.total_size)} {int(t.command)} {int(t.size)} {C.hx(bytes(t.data))}"


def show_cb_obj(p):
    return f"C {int(p.counter)} {int(p.size)} {int(p.callback)} {C.hx(bytes(p.data))}"


def server_body(server_encs, keys, pt, masks, tbl):
    """the independent team-server encoder: encrypt (own AES/HMAC), then the output block applied forward"""
    if pt is None:
        out = b""
    else:
        ct, sig = enc_frame(keys, pt, tbl)
        out = ct + sig
    d = out
    for e in server_encs:
        d = r_encstep(e, masks, d)
    return d


# --------------------------------------------------------------------------------------------------------------------
# building a case line
# --------------------------------------------------------------------------------------------------------------------

def initial_request(spec, post):
    cfg = spec["cfg"]
    hh = host_header_value(cfg, spec["domain"])
    return {"method": cfg["submit_verb"] if post else cfg["get_verb"], "uri": cfg["submit_uri"] if post else spec["client"]["get_uri"],
            "params": {}, "headers": {b"User-Agent": cfg["ua"], b"Host": hh}, "body": b""}


def sized_meta(m):
    m2 = dict(m)
    m2["size"] = 51 + len(m["info"])
    return m2


def key_variant(name, spec):
    """(KEY tokens for the model, kwargs for the real C2Http)"""
    ar = spec["client"]["meta"]["aes_rand"]
    ak, hk = sha256(ar)[:16], sha256(ar)[16:]
    other = sha256(b"other session")
    priv = priv_key(spec["keysrc"])
    v = {
        "rsa": dict(rsa_private_key=priv),
        "rand": dict(aes_rand=ar),
        "keys": dict(aes_key=ak, hmac_key=hk),
        "rsa+keys": dict(aes_key=ak, hmac_key=hk, rsa_private_key=priv),
        "rsa+rand": dict(aes_rand=ar, rsa_private_key=priv),
        "aes-noverify": dict(aes_key=ak, verify_hmac=False),
        "aes-only": dict(aes_key=ak),
        "rsa+aes": dict(aes_key=ak, rsa_private_key=priv),
        "rsa+hmac": dict(hmac_key=hk, rsa_private_key=priv),
        "rsa+wrong": dict(aes_key=other[:16], hmac_key=other[16:], rsa_private_key=priv),
        "wrongrand": dict(aes_rand=b"0123456789abcdef"),
        "wrong-noverify": dict(aes_key=other[:16], verify_hmac=False),
        "rsa-noverify": dict(rsa_private_key=priv, verify_hmac=False),
    }[name]
    return v


def key_tokens(kw):
    ob = lambda b: "none" if b is None else C.hx(b)  # noqa: E731
    return ["KEY", ob(kw.get("aes_key")), ob(kw.get("hmac_key")), ob(kw.get("aes_rand")),
            "T" if kw.get("rsa_private_key") is not None else "N", C.tf(kw.get("verify_hmac", True)), "T", "F"]


def cfg_tokens(cfg):
    uris = "u" + ",".join((u.hex() or "-") for u in cfg["get_uris"])
    server = cfg.get("server_codes") or recover_codes(cfg["server"])
    return ["CFG", C.hx(cfg["get_verb"]), uris, C.hx(cfg["submit_verb"]), C.hx(cfg["submit_uri"]),
            flat_codes(cfg["get"]), flat_codes(cfg["post"]), server]


def decoder_key_sets(kw, spec):
    """the (aes, hmac) pairs a decoder of this variant can ever hold"""
    ar = spec["client"]["meta"]["aes_rand"]
    sets = [(sha256(ar)[:16], sha256(ar)[16:])]
    if kw.get("aes_rand"):
        d = sha256(kw["aes_rand"])
        sets.append((d[:16], d[16:]))
    if kw.get("aes_key") or kw.get("hmac_key"):
        sets.append((kw.get("aes_key"), kw.get("hmac_key")))
    return sets


def add_packet_entries(tbl, key_sets, ct, sig):
    for ak, hk in key_sets:
        if hk:
            tbl.hmac(hk, ct, hmac256(hk, ct))
        if ak:
            tbl.aes("D", ak, IV, ct, aes_dec(ak, IV, ct))


def probe_inputs(spec, wire):
    """For damaged messages only: WHICH primitive inputs the decoder will ask for is read off the library's own
    recover + framing (the results are still computed independently; if the model frames differently it misses
    the table and the difference shows)."""
    frames, blobs = [], []
    try:
        bc, stem = bconfig_of(spec["cfgsrc"])
        with with_pubkey(stem, spec["keysrc"]):
            c2http = C2.C2Http(bc, aes_key=bytes(16), hmac_key=bytes(16))
        http = C2.parse_raw_http(wire)
        c2data = c2http.get_transform_for_http(http).recover(http)
        if c2data.metadata:
            blobs.append(bytes(c2data.metadata))
        for p in c2data.iter_encrypted_packets():
            frames.append((bytes(p.ciphertext), bytes(p.signature)))
    except Exception:  # noqa: BLE001
        pass
    return frames, blobs


def split_client_frames(out):
    """independent reader of the callback framing (well-formed input)"""
    frames = []
    while out:
        n = struct.unpack(">I", out[:4])[0]
        frames.append((out[4:4 + n - 16], out[4 + n - 16:4 + n]))
        out = out[4 + n:]
    return frames


def build_line(spec, variant, capture):
    """one `sess` line for `spec` under key variant `variant`; `capture` = run_session(spec) or None"""
    cfg, cl = spec["cfg"], spec["client"]
    kw = key_variant(variant, spec)
    tbl = Table()
    ar = cl["meta"]["aes_rand"]
    sess_keys = (sha256(ar)[:16], sha256(ar)[16:])
    tbl.sha(ar, sha256(ar))
    if kw.get("aes_rand"):
        tbl.sha(kw["aes_rand"], sha256(kw["aes_rand"]))
    key_sets = decoder_key_sets(kw, spec)
    priv = priv_key(spec["keysrc"])
    has_priv = kw.get("rsa_private_key") is not None
    mbytes = meta_dumps(sized_meta(cl["meta"]))
    counter = cl["counter"]
    ev_toks, im_ev = [], []
    for k, ev in enumerate(spec["events"]):
        cap = capture[k] if capture is not None else {}
        if spec.get("probe_all") and ev["kind"] in ("G", "C") and cap.get("wreq"):
            for wv in (cap["wreq"], cap.get("wresp", b"")):
                fr, bl = probe_inputs(spec, wv)
                for ct, sig in fr:
                    add_packet_entries(tbl, key_sets, ct, sig)
                for b in bl:
                    tbl.rsa_dec(b, rsa_decrypt_direct(priv, b))
        if ev["kind"] == "G":
            blob = rsa_encrypt_ref(priv, mbytes, ev["pad"])
            tbl.rsa_enc(mbytes, ev["pad"], blob)
            tbl.rsa_dec(blob, rsa_decrypt_direct(priv, blob))
            pt = None if ev["task"] is None else task_bytes(ev["task"])
            stbl = Table()
            body = server_body(cfg["server"], sess_keys, pt, list(ev["smasks"]), stbl)
            if pt is not None:
                p = pad16(pt)
                ct = aes_enc(sess_keys[0], IV, p)
                add_packet_entries(tbl, key_sets + [sess_keys], ct, hmac256(sess_keys[1], ct)[:16])
            hdrs = dict(ev["rhdr"])
            hdrs[b"Content-Length"] = str(len(body)).encode()
            ev_toks += ["G", C.hx(ev["pad"]), C.ints(ev["masks"]), C.hx(cap.get("wreq", b"")), dict_token(hdrs), C.hx(body),
                        C.hx(cap.get("wresp", b""))]
            im_ev += ["G", "none" if ev["task"] is None else ",".join(str(x) for x in ev["task"][:4]) + "," + ev["task"][4].hex(),
                      C.ints(ev["smasks"]), dict_token(ev["rhdr"])]
        elif ev["kind"] == "C":
            for cbid, data in ev["cbs"]:
                counter += 1
                if counter < 2 ** 32 and cbid < 2 ** 32:
                    pt = cb_bytes(counter, cbid, data)
                    ct, sig = enc_frame(sess_keys, pt, tbl)
                    add_packet_entries(tbl, key_sets, ct, sig)
            toks = ["C", str(len(ev["cbs"]))]
            for cbid, data in ev["cbs"]:
                toks += [str(cbid), C.hx(data)]
            ev_toks += toks + [C.ints(ev["masks"]), C.hx(cap.get("wreq", b"")), C.hx(cap.get("wresp", b""))]
            im_ev += ["C"]
        else:
            ev_toks += ["M", C.hx(ev["wire"])]
            if ev.get("probe"):
                ev = dict(ev)
                ev["frames"], ev["blobs"] = probe_inputs(spec, ev["wire"])
            for ct, sig in ev.get("frames", []):
                add_packet_entries(tbl, key_sets, ct, sig)
            for blob in ev.get("blobs", []):
                tbl.rsa_dec(blob, rsa_decrypt_direct(priv, blob))
            im_ev += ["M", ev["expect"]]
    m = cl["meta"]
    cl_toks = ["CL", meta_tokens(m), str(cl["bid"]), C.hx(sess_keys[0]), C.hx(sess_keys[1]), C.hx(cl["get_uri"]),
               C.hx(cfg["ua"]), C.hx(host_header_value(cfg, spec["domain"])), str(cl["counter"])]
    im = [spec["cfgsrc"], spec["keysrc"], variant, spec["domain"], C.hx(cl["computer"].encode()), C.hx(cl["user"].encode()),
          C.hx(cl["process"].encode()), cl["ip"], cl["arch"], cl["barch"], C.tf(cl["hi"]),
          spec.get("server_tok") or ("s" + ",".join(enc_code(e) for e in cfg["server"])), str(len(spec["events"]))] + im_ev
    return " ".join(["sess", "IM", str(len(im))] + im + cfg_tokens(cfg) + key_tokens(kw) + cl_toks
                    + ["EV", str(len(spec["events"]))] + ev_toks + ["TB"] + tbl.toks)


# --------------------------------------------------------------------------------------------------------------------
# parsing a line back (impl / oracle side)
# --------------------------------------------------------------------------------------------------------------------

def parse_encs(tok):
    assert tok[0] == "s"
    out = []
    for c in (tok[1:].split(",") if len(tok) > 1 else []):
        p = c.split(".")
        if p[0] in ("A", "P"):
            a = int(p[1][1:]) if p[1][0] == "i" else C.unhx(p[1])
            out.append(("append" if p[0] == "A" else "prepend", a))
        else:
            out.append({"b64": "base64", "b64u": "base64url", "nb": "netbios", "nbu": "netbiosu", "mask": "mask"}[p[0]])
    return out


class Cur:
    def __init__(self, toks, k=0):
        self.t, self.k = toks, k

    def next(self):
        self.k += 1
        return self.t[self.k - 1]

    def expect(self, s):
        v = self.next()
        assert v == s, (v, s)


def parse_cfg_section(c):
    c.expect("CFG")
    gv = C.unhx(c.next())
    ut = c.next()
    uris = [] if ut == "u" else [b"" if h == "-" else bytes.fromhex(h) for h in ut[1:].split(",")]
    sv, su = C.unhx(c.next()), C.unhx(c.next())
    progs = [c.next(), c.next(), c.next()]
    return {"get_verb": gv, "get_uris": uris, "submit_verb": sv, "submit_uri": su, "progs": progs}


def parse_key_section(c):
    c.expect("KEY")
    unob = lambda t: None if t == "none" else C.unhx(t)  # noqa: E731
    ak, hk, ar = unob(c.next()), unob(c.next()), unob(c.next())
    pr, vf, po, tr = c.next(), c.next() == "T", c.next() == "T", c.next() == "T"
    return {"aes_key": ak, "hmac_key": hk, "aes_rand": ar, "priv": pr, "verify": vf, "pubok": po, "trial": tr}


def parse_sess(line):
    w = line.split(" ")
    c = Cur(w, 1)
    c.expect("IM")
    n = int(c.next())
    im = Cur(w[c.k:c.k + n])
    c.k += n
    spec = {"cfgsrc": im.next(), "keysrc": im.next()}
    variant = im.next()
    spec["domain"] = im.next()
    cl = {"computer": C.unhx(im.next()).decode(), "user": C.unhx(im.next()).decode(), "process": C.unhx(im.next()).decode(),
          "ip": im.next(), "arch": im.next(), "barch": im.next(), "hi": im.next() == "T"}
    server = parse_encs(im.next())
    nev = int(im.next())
    cfgsec = parse_cfg_section(c)
    keysec = parse_key_section(c)
    c.expect("CL")
    mt = [c.next() for _ in range(17)]
    meta = {k: (C.unhx(t) if k in ("aes_rand", "info") else int(t)) for k, t in zip(META_NAMES, mt)}
    cl["bid"] = int(c.next())
    c.next(), c.next()
    cl["get_uri"] = C.unhx(c.next())
    c.next(), c.next()
    cl["counter"] = int(c.next())
    cl["meta"], cl["pid"] = meta, meta["pid"]
    c.expect("EV")
    assert int(c.next()) == nev
    events, wires = [], []
    for _ in range(nev):
        kind = c.next()
        assert im.next() == kind
        if kind == "G":
            pad, masks, wreq, rh, rb, wresp = C.unhx(c.next()), C.unints(c.next()), C.unhx(c.next()), undict(c.next()), C.unhx(c.next()), C.unhx(c.next())
            tt, smasks, rhdr = im.next(), C.unints(im.next()), undict(im.next())
            task = None
            if tt != "none":
                p = tt.split(",")
                task = (int(p[0]), int(p[1]), int(p[2]), int(p[3]), bytes.fromhex(p[4]))
            events.append({"kind": "G", "pad": pad, "masks": masks, "smasks": smasks, "task": task, "rhdr": rhdr})
            wires.append((wreq, wresp))
        elif kind == "C":
            k = int(c.next())
            cbs = []
            for _ in range(k):
                cbs.append((int(c.next()), C.unhx(c.next())))
            masks, wreq, wresp = C.unints(c.next()), C.unhx(c.next()), C.unhx(c.next())
            events.append({"kind": "C", "cbs": cbs, "masks": masks})
            wires.append((wreq, wresp))
        else:
            wire = C.unhx(c.next())
            events.append({"kind": "M", "wire": wire, "expect": im.next()})
            wires.append((wire,))
    spec["client"] = cl
    spec["cfg"] = {"server": server}
    spec["events"] = events
    return spec, variant, cfgsec, keysec, wires


def real_c2http(bc, keysec, keysrc):
    kw = {}
    if keysec["aes_key"] is not None:
        kw["aes_key"] = keysec["aes_key"]
    if keysec["hmac_key"] is not None:
        kw["hmac_key"] = keysec["hmac_key"]
    if keysec["aes_rand"] is not None:
        kw["aes_rand"] = keysec["aes_rand"]
    if keysec["priv"] == "T":
        kw["rsa_private_key"] = priv_key(keysrc)
    elif keysec["priv"] == "F":
        kw["rsa_private_key"] = priv_key("c2test" if keysrc == "own" else "own")
    return C2.C2Http(bc, verify_hmac=keysec["verify"], **kw)


def show_packet(p):
    n = type(p).__name__
    if n == "BeaconMetadata":
        return "M " + show_meta_obj(p)
    if n == "TaskPacket":
        return show_task_obj(p)
    if n == "CallbackPacket":
        return show_cb_obj(p)
    return "?" + n


def decode_real(c2http, raw):
    """list(c2http.iter_recover_http(raw)) with the items yielded before an exception kept"""
    items = []
    try:
        for p in c2http.iter_recover_http(raw):
            items.append(show_packet(p))
    except Exception as e:  # noqa: BLE001
        if type(e).__name__ == "Timeout":
            raise
        return "D exc " + canon(e) + " " + " ".join([str(len(items))] + items)
    return "D ok " + " ".join([str(len(items))] + items)


def ext_ok(rec, wire):
    """the httpx rendering assumption: the wire parses back to what the client handed to httpx"""
    try:
        h = C2.parse_raw_http(wire)
    except Exception:  # noqa: BLE001
        return False
    m, u, p, hd, b = rec
    if not isinstance(h, C2.HttpRequest):
        return False
    return (h.method == m and h.uri == u and h.body == b and h.params == {k: v for k, v in p.items() if v != b""}
            and all(h.headers.get(k) == v for k, v in hd.items()))


def show_state(c2http):
    k = c2http.beacon_keys
    ob = lambda b: "none" if b is None else C.hx(b)  # noqa: E731
    blobs = list(c2http.metadata_cache.keys())
    return " ".join(["K", ob(k.aes_key), ob(k.hmac_key), C.hx(k.iv), str(len(blobs))] + [C.hx(b) for b in blobs])


def with_pubkey(stem, keysrc):
    """context: sample beacons other than c2test get the harness' public key"""
    if stem is not None and keysrc == "own":
        return mock.patch.object(B.BeaconConfig, "public_key", new_callable=mock.PropertyMock,
                                 return_value=priv_key("own").publickey().export_key("DER"))
    import contextlib
    return contextlib.nullcontext()


def impl_sess(line):
    spec, variant, cfgsec, keysec, wires = parse_sess(line)
    capture = run_session(spec)
    bc, stem = bconfig_of(spec["cfgsrc"])
    saved = logging.root.manager.disable
    logging.disable(logging.CRITICAL)
    try:
        with with_pubkey(stem, spec["keysrc"]):
            c2http = real_c2http(bc, keysec, spec["keysrc"])
            cap_ok, ext = True, True
            out = []
            for ev, cap, w in zip(spec["events"], capture, wires):
                if ev["kind"] == "G":
                    cap_ok &= cap["wreq"] == w[0] and cap["wresp"] == w[1]
                    if cap["rec"] is not None:
                        ext &= ext_ok(cap["rec"], cap["wreq"])
                        out.append("Q ok " + show_req_tuple(cap["rec"]))
                    else:
                        out.append("Q " + cap["res"])
                    out.append(decode_real(c2http, w[0]))
                    out.append(decode_real(c2http, w[1]))
                    out.append("R " + cap["res"])
                elif ev["kind"] == "C":
                    cap_ok &= cap["wreq"] == w[0] and cap["wresp"] == w[1]
                    if cap["rec"] is not None:
                        ext &= ext_ok(cap["rec"], cap["wreq"])
                        out.append("Q ok " + show_req_tuple(cap["rec"]))
                    else:
                        out.append("Q exc " + (cap["exc"] or "?"))
                    out.append(decode_real(c2http, w[0]))
                    out.append(decode_real(c2http, w[1]))
                else:
                    out.append(decode_real(c2http, w[0]))
            return " ".join([f"cap={C.tf(cap_ok)}", f"ext={C.tf(ext)}"] + out + [show_state(c2http)])
    finally:
        logging.disable(saved)


def impl_route(line):
    w = line.split(" ")
    c = Cur(w, 1)
    c.expect("IM")
    assert c.next() == "1"
    src = c.next()
    parse_cfg_section(c)
    method, uri = C.unhx(c.next()), C.unhx(c.next())
    bc, stem = bconfig_of(src)
    with with_pubkey(stem, "own"):
        c2http = C2.C2Http(bc, aes_key=bytes(16), hmac_key=bytes(16))
    import zlib as _zlib
    if _zlib.crc32(line.encode()) % 2 == 0:
        # routing is a function of the request alone: earlier decisions of the SAME decoder (the same path under the other verbs,
        # the other configured paths under this verb) must leave no trace
        try:
            warm = [(m, uri) for m in (c2http.get_verb, c2http.submit_verb, b"PUT")] + \
                   [(method, u) for u in list(c2http.get_uris) + [c2http.submit_uri]]
        except Exception:  # noqa: BLE001
            warm = []
        for m, u in warm:
            if (m, u) == (method, uri):
                continue
            try:
                c2http.get_transform_for_http(C2.HttpRequest(method=m, uri=u, params={}, headers={}, body=b""))
            except Exception:  # noqa: BLE001
                pass
    try:
        t = c2http.get_transform_for_http(C2.HttpRequest(method=method, uri=uri, params={}, headers={}, body=b""))
    except ValueError:
        return "none"
    if t is c2http.transform_get:
        return "get"
    if t is c2http.transform_submit:
        return "submit"
    return "response" if t is c2http.transform_response else "?"


def impl_ctor(line):
    w = line.split(" ")
    c = Cur(w, 1)
    c.expect("IM")
    assert c.next() == "2"
    src, keysrc = c.next(), c.next()
    parse_cfg_section(c)
    keysec = parse_key_section(c)
    bc, stem = bconfig_of(src)
    with with_pubkey(stem, keysrc):
        c2http = real_c2http(bc, keysec, keysrc)
    k = c2http.beacon_keys
    ob = lambda b: "none" if b is None else C.hx(b)  # noqa: E731
    return f"ok {ob(k.aes_key)} {ob(k.hmac_key)} {C.hx(k.iv)} {C.tf(bool(c2http.priv))} {C.tf(c2http.verify_hmac)}"


G_SESS = ("sess", "sess-keys", "unrelated", "multi", "overlap", "combo", "malformed")
SIX_SETTINGS = ["SETTING_SUBMITURI", "SETTING_C2_VERB_POST", "SETTING_C2_VERB_GET", "SETTING_C2_POSTREQ", "SETTING_C2_REQUEST", "SETTING_C2_RECOVER"]


def _other_priv(keysrc):
    return "c2test" if keysrc == "own" else "own"


def gctor_line(line):
    """the `gctor` line of a `ctor` line: the same sections, then what the constructor reads from the real BeaconConfig (the six
    settings, `uris`), the moduli of the public key and of the private key that is passed, and sha256(aes_rand)"""
    w = line.split(" ")
    head = w[:w.index("TB")]
    src, keysrc = w[3], w[4]
    c = Cur(w, 5)
    parse_cfg_section(c)
    keysec = parse_key_section(c)
    bc, stem = bconfig_of(src)
    with with_pubkey(stem, keysrc):
        npub = RSA.import_key(bc.public_key).n
    settings = {k: bc.settings[k] for k in SIX_SETTINGS}
    settings = {k: (list(v) if isinstance(v, (list, tuple)) else v) for k, v in settings.items()}
    npriv = {"N": "none", "T": str(priv_key(keysrc).n), "F": str(priv_key(_other_priv(keysrc)).n)}[keysec["priv"]]
    digest = "none" if keysec["aes_rand"] is None else C.hx(sha256(keysec["aes_rand"]))
    return " ".join(["gctor"] + head[1:] + ["GV", pyuval_t07.pshow(settings), pyuval_t07.pshow(list(bc.uris)), str(npub), npriv, digest])


def _show_c2http(c):
    pv = pyuval_t07.pshow
    key = lambda k: "N" if k is None else f"I7705[i{k.n}]"  # noqa: E731
    tr = lambda t: f"I6[{pv(list(t.tsteps))};{pv(list(t.rsteps))}]"  # noqa: E731
    k = c.beacon_keys
    return ";".join([pv(c.aes_key), pv(c.hmac_key), pv(c.verify_hmac), key(c.pub), key(c.priv), pv(c.submit_uri), pv(c.submit_verb),
                     pv(tuple(c.get_uris)), pv(c.get_verb), tr(c.transform_submit), tr(c.transform_get), tr(c.transform_response),
                     pv(c.metadata_cache), f"I7704[{pv(k.aes_key)};{pv(k.hmac_key)};{pv(k.iv)}]"])


def impl_gctor(line):
    w = line.split(" ")
    c = Cur(w, 1)
    c.expect("IM")
    assert c.next() == "2"
    src, keysrc = c.next(), c.next()
    parse_cfg_section(c)
    keysec = parse_key_section(c)
    bc, stem = bconfig_of(src)
    with with_pubkey(stem, keysrc):
        c2http = real_c2http(bc, keysec, keysrc)
    return "ok " + _show_c2http(c2http)


def grarg_values(rng, cfg):
    """arguments of other kinds for get_transform_for_http"""
    gv, sv, su = cfg["get_verb"], cfg["submit_verb"], cfg["submit_uri"]
    uris = cfg["get_uris"] or [b"/"]
    u = rng.choice(uris)
    req = lambda m, x: C2.HttpRequest(method=m, uri=x, params={}, headers={}, body=b"")  # noqa: E731
    out = [None, 5, True, "GET", (gv, u), [gv, u], {},
           C2.HttpResponse(status=200, headers={}, reason=b"OK", body=b"x"),
           C2.HttpResponse(status=404, headers={b"A": b"b"}, reason=b"", body=b"", request=None),
           req(gv, u), req(sv, su), req(gv.decode("latin-1"), u), req(gv, u.decode("latin-1")), req(gv, None), req(None, u), req(gv, 5),
           req(sv, su.decode("latin-1")), req(sv, None), req(b"PUT", None), req(gv, (u,)),
           gv + b" " + u + b" HTTP/1.1\r\nHost: a\r\n\r\n", sv + b" " + su + b"?a=b HTTP/1.1\r\n\r\nbody", b"PUT /zzz HTTP/1.1\r\n\r\n",
           b"HTTP/1.1 200 OK\r\nA: b\r\n\r\nxyz", b"HTTP/1.1 2x0 OK\r\n\r\n", b"GET /", b"", gv + b" " + u + b"x/y?q=%41 HTTP/1.0\r\n\r\n"]
    return out


def impl_grarg(line):
    w = line.split(" ")
    c = Cur(w, 1)
    c.expect("IM")
    assert c.next() == "1"
    src = c.next()
    parse_cfg_section(c)
    http = pyuval_t07.pparse(c.next())
    bc, stem = bconfig_of(src)
    with with_pubkey(stem, "own"):
        c2http = C2.C2Http(bc, aes_key=bytes(16), hmac_key=bytes(16))
    try:
        t = c2http.get_transform_for_http(http)
    except ValueError as e:
        if isinstance(e, UnicodeError):
            raise
        return "none"
    if t is c2http.transform_get:
        return "get"
    if t is c2http.transform_submit:
        return "submit"
    return "response" if t is c2http.transform_response else "?"


def impl(stream, line):
    if stream == "g-route":
        return impl_route(line[1:])
    if stream == "g-sess":
        return impl_sess(line[1:])
    if stream == "g-ctor":
        return impl_gctor(line)
    if stream == "g-route-arg":
        return impl_grarg(line)
    op = line.split(" ", 1)[0]
    if op == "sess":
        return impl_sess(line)
    if op == "route":
        return impl_route(line)
    if op == "ctor":
        return impl_ctor(line)
    raise RuntimeError("unknown op " + op)


# --------------------------------------------------------------------------------------------------------------------
# oracle: the packets that were sent, in order
# --------------------------------------------------------------------------------------------------------------------

MAIN_VARIANTS = {"rsa": (True, False), "rand": (False, True), "keys": (False, True), "rsa+keys": (True, True), "rsa+rand": (True, True)}


def split_out(out):
    """impl output of a sess line -> list of segments (each a list of tokens starting with Q/D/R/K)"""
    toks = out.split(" ")
    segs, cur = [], None
    for t in toks[2:]:
        if t in ("Q", "D", "R", "K") :
            cur = [t]
            segs.append(cur)
        elif cur is not None:
            cur.append(t)
    return toks[:2], segs


def _known_active():
    try:
        kf = json.loads((Path(__file__).resolve().parent.parent.parent / "known_findings.json").read_text())
        return any(k.get("property") == ID and k.get("id") == KNOWN_ID and k.get("status") == "known" for k in kf.get("findings", []))
    except Exception:  # noqa: BLE001
        return False


def oracle(stream, line, out):
    if stream.startswith("g-"):
        return None
    if stream == "route":
        w = line.split(" ")
        c = Cur(w, 1)
        c.expect("IM")
        c.next(), c.next()
        cfg = parse_cfg_section(c)
        method, uri = C.unhx(c.next()), C.unhx(c.next())
        if method == cfg["get_verb"] and any(uri[:len(g)] == g for g in cfg["get_uris"]):
            exp = "get"
        elif method == cfg["submit_verb"] and uri[:len(cfg["submit_uri"])] == cfg["submit_uri"]:
            exp = "submit"
        else:
            exp = "none"
        return out == exp
    if stream not in ("sess", "unrelated", "multi", "uriappend-initial"):
        return None
    if stream == "uriappend-initial" and not _known_active():
        return None
    spec, variant, cfgsec, keysec, wires = parse_sess(line)
    if variant not in MAIN_VARIANTS:
        return None
    if out.startswith("exc "):
        return False
    has_priv, known = MAIN_VARIANTS[variant]
    head, segs = split_out(out)
    if head != ["cap=T", "ext=T"]:
        return False
    meta = " ".join(["M", meta_tokens(sized_meta(spec["client"]["meta"]))])
    exp = []
    counter = spec["client"]["counter"]
    for ev in spec["events"]:
        if ev["kind"] == "G":
            exp.append(None)                                   # Q: correspondence only
            exp.append(f"D ok 1 {meta}" if has_priv else "D ok 0")
            if has_priv:
                known_after = True
            else:
                known_after = known
            t = ev["task"]
            # the response is decoded after the request: keys derived from the check-in are available
            known = known_after
            if t is None:
                exp.append("D ok 0")
                exp.append("R ok none")
            else:
                ts = f"T {t[0]} {t[1]} {t[2]} {t[3]} {C.hx(t[4])}"
                exp.append(f"D ok 1 {ts}" if known else "D exc ValueError 0")
                exp.append("R ok none" if t[2] == 6 else f"R ok {ts}")
        elif ev["kind"] == "C":
            exp.append(None)
            items = []
            for cbid, data in ev["cbs"]:
                counter += 1
                items.append(f"C {counter} {len(data)} {cbid} {C.hx(data)}")
            exp.append(("D ok " + " ".join([str(len(items))] + items)) if known else "D exc ValueError 0")
            exp.append("D ok 0")
        else:
            e = ev["expect"]
            if e == "V":
                exp.append("D exc ValueError 0")
            elif e == "-":
                exp.append(None)
            else:
                exp.append(bytes.fromhex(e[1:]).decode() if known else "D exc ValueError 0")
    if len(segs) != len(exp) + 1:
        return False
    for s, e in zip(segs, exp):
        if e is not None and " ".join(s) != e:
            return False
    return True


def known(stream, line, known_list):
    if stream == "uriappend-initial" and any(k.get("id") == KNOWN_ID for k in known_list):
        return KNOWN_ID
    return None


def nontrivial(stream, line, out):
    if stream.startswith("g-"):
        return not out.startswith("exc ") and out != "none"
    if stream == "route":
        return out in ("get", "submit")
    if stream == "ctor":
        return out.startswith("ok ")
    return " D ok 1 " in out or " D ok 2 " in out or " D ok 3 " in out or " D ok 4 " in out


def shrink(stream, line):
    return []


# --------------------------------------------------------------------------------------------------------------------
# crafted messages (independent reference encoder)
# --------------------------------------------------------------------------------------------------------------------

def count_masks(items):
    return sum(1 for it in items if it[0] == "block" for e in it[2] if e == "mask")


def craft_request(spec, post, c2, masks, method=None, uri=None):
    cfg = spec["cfg"]
    r = r_encode(cfg["post"] if post else cfg["get"], list(masks), c2, initial_request(spec, post))
    if method is not None:
        r["method"] = method
    if uri is not None:
        r["uri"] = uri
    return render_request_ref(r)


def craft_frames(spec, cbs, counter0):
    """(output bytes, [(ct, sig)], expected item strings) of a multi-callback POST"""
    ar = spec["client"]["meta"]["aes_rand"]
    keys = (sha256(ar)[:16], sha256(ar)[16:])
    out, frames, items = b"", [], []
    counter = counter0
    for cbid, data in cbs:
        counter += 1
        ct, sig = enc_frame(keys, cb_bytes(counter, cbid, data), Table())
        out += u32(len(ct) + 16) + ct + sig
        frames.append((ct, sig))
        items.append(f"C {counter} {len(data)} {cbid} {C.hx(data)}")
    return out, frames, items


def ref_route(cfg, method, uri):
    if method == cfg["get_verb"] and any(uri.startswith(g) for g in cfg["get_uris"]):
        return "get"
    if method == cfg["submit_verb"] and uri.startswith(cfg["submit_uri"]):
        return "submit"
    return None


def ev_multi(rng, spec, k=None):
    cbs = [gen_cb(rng) for _ in range(k or rng.randrange(2, 5))]
    cbs = [(c if c < 2 ** 32 else 31, d) for c, d in cbs]
    out, frames, items = craft_frames(spec, cbs, rng.randrange(0, 2 ** 31))
    masks = [rng.getrandbits(32) for _ in range(count_masks(spec["cfg"]["post"]))]
    wire = craft_request(spec, True, {"output": out, "id": str(spec["client"]["bid"]).encode()}, masks)
    exp = "D ok " + " ".join([str(len(items))] + items)
    return {"kind": "M", "wire": wire, "frames": frames, "expect": "I" + exp.encode().hex()}


def ev_unrelated(rng, spec):
    """a request that matches neither route (checked with the independent routing predicate)"""
    cfg = spec["cfg"]
    for _ in range(40):
        post = rng.random() < 0.5
        base_m = cfg["submit_verb"] if post else cfg["get_verb"]
        base_u = cfg["submit_uri"] if post else spec["client"]["get_uri"]
        r = rng.random()
        if r < 0.3:
            m = rng.choice([v for v in VERBS if v not in (cfg["get_verb"], cfg["submit_verb"])] + [base_m.lower(), base_m + b"X", base_m[:-1] or b"G"])
            u = base_u
        elif r < 0.55:
            m, u = base_m, rng.choice([b"/", b"/unrelated/" + rword(rng), base_u[:-1], base_u[:max(1, len(base_u) // 2)], b"/x" + base_u, base_u.upper(), base_u.lower() + b"~"])
        elif r < 0.8:
            m, u = (cfg["get_verb"], cfg["submit_uri"]) if post else (cfg["submit_verb"], spec["client"]["get_uri"])
        else:
            m, u = rng.choice([b"HEAD", b"CONNECT", b"TRACE"]), b"/" + rword(rng)
        if ref_route(cfg, m, u) is None and u.startswith(b"/") and not u.startswith(b"//") and m and not m.upper().startswith(b"HTTP/"):
            break
    else:
        m, u = b"TRACE", b"/nowhere"
    out, frames, _ = craft_frames(spec, [gen_cb(rng)], 7)
    blob = C.rbytes(rng, 128)
    c2 = {"output": out, "id": str(spec["client"]["bid"]).encode(), "metadata": blob}
    masks = [rng.getrandbits(32) for _ in range(4)]
    wire = craft_request(spec, post, c2, masks, method=m, uri=u)
    return {"kind": "M", "wire": wire, "expect": "V"}


def ev_combo(rng, spec):
    """a GET carrying metadata and output (the get program of a combo configuration has an output block)"""
    cl = spec["client"]
    pad = gen_pad(rng)
    blob = rsa_encrypt_ref(priv_key(spec["keysrc"]), meta_dumps(sized_meta(cl["meta"])), pad)
    out, frames, items = craft_frames(spec, [gen_cb(rng) for _ in range(rng.randrange(1, 3))], rng.randrange(0, 1000))
    masks = [rng.getrandbits(32) for _ in range(count_masks(spec["cfg"]["get"]))]
    wire = craft_request(spec, False, {"metadata": blob, "output": out}, masks)
    return {"kind": "M", "wire": wire, "frames": frames, "blobs": [blob], "expect": "-"}


def gen_pad(rng):
    b = bytearray(rng.randrange(1, 256) for _ in range(150))
    if rng.random() < 0.3:
        b[rng.randrange(0, 60)] = 0            # pycryptodome skips zero bytes
    return bytes(b)


def gen_events(rng, cfg, n, multi=False, unrelated=False, combo=False, spec=None):
    evs, pads = [], []
    nm_get, nm_post, nm_srv = count_masks(cfg["get"]), count_masks(cfg["post"]), sum(1 for e in cfg["server"] if e == "mask")
    for _ in range(n):
        r = rng.random()
        if unrelated and r < 0.35:
            evs.append(ev_unrelated(rng, spec))
        elif multi and r < 0.4:
            evs.append(ev_multi(rng, spec))
        elif combo and r < 0.5:
            evs.append(ev_combo(rng, spec))
        elif r < 0.6 or not evs and r < 0.8:
            pad = rng.choice(pads) if pads and rng.random() < 0.3 else gen_pad(rng)
            pads.append(pad)
            task = gen_task(rng) if rng.random() < 0.7 else None
            evs.append({"kind": "G", "pad": pad, "masks": [rng.choice([0, 0xFFFFFFFF, rng.getrandbits(32)]) for _ in range(nm_get)],
                        "smasks": [rng.getrandbits(32) for _ in range(nm_srv)], "task": task, "rhdr": rng.choice(RESP_HEADER_POOL)})
        else:
            evs.append({"kind": "C", "cbs": [gen_cb(rng)], "masks": [rng.choice([0, rng.getrandbits(32)]) for _ in range(nm_post)]})
    return evs


def real_cfg(rng, k):
    stem, _, _, cfg = real_configs()[k]
    cfg = dict(cfg)
    cfg["server"] = server_with_fillers(cfg["server_len"], rng)
    return cfg, f"r{k}", ("c2test" if stem == C2TEST_STEM else "own")


def make_spec(rng, real_k=None, n=None, **kw):
    flags = {k: kw.pop(k, False) for k in ("multi", "unrelated", "combo")}
    if real_k is not None:
        cfg, src, keysrc = real_cfg(rng, real_k)
    else:
        cfg = gen_synth_cfg(rng, **kw)
        if flags["combo"]:
            hs, ps = term_names(cfg["get"])
            used = {it[3] for it in cfg["get"] if it[0] == "block"}
            t = gen_term(rng, used)
            cfg["get"] = cfg["get"] + [("block", "output", gen_encs(rng, 2, printable=t[0] != "print"), t)]
        src, keysrc = C.hx(synth_block(cfg)), "own"
    spec = {"cfgsrc": src, "keysrc": keysrc, "cfg": cfg, "domain": rng.choice(["c2.example.net", "127.0.0.1", "teamserver.local"])}
    spec["client"] = gen_client(rng, cfg)
    spec["events"] = gen_events(rng, cfg, n or rng.randrange(1, 13), spec=spec, **flags)
    return spec


def capture_or_none(spec):
    try:
        return run_session(spec)
    except Exception:  # noqa: BLE001   (a broken client must show up as a difference, not as a crashed generator)
        return None


def sess_lines(spec, variants):
    cap = capture_or_none(spec)
    return [build_line(spec, v, cap) for v in variants]


def truncated(rng, spec, cap):
    """malformed stream: the session with one captured POST request / task response cut short, as M events"""
    evs = []
    for ev, c in zip(spec["events"], cap):
        if ev["kind"] in ("G", "C") and c.get("wreq"):
            w = c["wresp"] if ev["kind"] == "G" else c["wreq"]
            head, sep, body = w.partition(b"\r\n\r\n")
            if body:
                cut = rng.randrange(0, len(body))
                w2 = head + sep + body[:cut] if rng.random() < 0.7 else head + sep + body + C.rbytes(rng, rng.choice([1, 3, 4, 16, 20]))
            else:
                w2 = w[:rng.randrange(0, len(w))]
            if ev["kind"] == "G":
                evs.append({"kind": "M", "wire": c["wreq"], "expect": "-",
                            "blobs": [rsa_encrypt_ref(priv_key(spec["keysrc"]), meta_dumps(sized_meta(spec["client"]["meta"])), ev["pad"])]})
            evs.append({"kind": "M", "wire": w2, "expect": "-", "probe": True})
    return evs


ROUTE_VERBS = [b"GET", b"POST", b"get", b"GE", b"GETT", b"PUT", b""]


def route_lines(rng, cfg, src):
    head = ["route", "IM", "1", src] + cfg_tokens(cfg)
    verbs = list(dict.fromkeys([cfg["get_verb"], cfg["submit_verb"]] + ROUTE_VERBS))
    uris = []
    for u in cfg["get_uris"] + [cfg["submit_uri"]]:
        uris += [u, u[:-1], u + b"x", u + b"/more?x", u[:1], u.upper(), b"x" + u]
    uris += [b"", b"/", b"/zzz"]
    for m in verbs:
        for u in dict.fromkeys(uris):
            yield " ".join(head + [C.hx(m), C.hx(u)])


def ctor_lines(rng, spec):
    cfg, cl = spec["cfg"], spec["client"]
    ar = cl["meta"]["aes_rand"]
    opts_k = [None, b"", bytes(16), bytes(15), bytes(17), bytes(32), sha256(ar)[:16]]
    opts_r = [None, b"", ar, b"short", bytes(40)]
    for _ in range(12):
        ak, hk, r = rng.choice(opts_k), rng.choice(opts_k), rng.choice(opts_r)
        pr = rng.choice(["N", "N", "T", "T", "F"])
        vf = rng.random() < 0.8
        ob = lambda b: "none" if b is None else C.hx(b)  # noqa: E731
        tbl = Table()
        if r:
            tbl.sha(r, sha256(r))
        key = ["KEY", ob(ak), ob(hk), ob(r), pr, C.tf(vf), "T", "F"]
        yield " ".join(["ctor", "IM", "2", spec["cfgsrc"], spec["keysrc"]] + cfg_tokens(cfg) + key + ["TB"] + tbl.toks)


# --------------------------------------------------------------------------------------------------------------------
# gen
# --------------------------------------------------------------------------------------------------------------------

SIDE_VARIANTS = ["rsa+keys", "rsa+rand", "aes-noverify", "aes-only", "rsa+aes", "rsa+hmac", "rsa+wrong", "wrongrand", "wrong-noverify", "rsa-noverify"]


def gen(tier, rng, shard, nshards):
    """every `route` / `ctor` case is also run through the definitions translated from the source (g-*)"""
    seen_cfg = 0
    for stream, line in gen0(tier, rng, shard, nshards):
        yield stream, line
        if stream == "route":
            yield "g-route", "g" + line
            w = line.split(" ")
            if line.endswith(" " + C.hx(b"/zzz")) and w[-2] == C.hx(b"PUT"):
                # once per configuration: arguments of other kinds
                seen_cfg += 1
                c = Cur(w, 4)
                cfg = parse_cfg_section(c)
                for v in grarg_values(rng, cfg):
                    yield "g-route-arg", " ".join(["grarg"] + w[1:-2] + [pyuval_t07.pshow(v)])
        elif stream == "ctor":
            yield "g-ctor", gctor_line(line)
        elif stream in G_SESS:
            yield "g-sess", "g" + line


def gen0(tier, rng, shard, nshards):
    thorough = tier == "thorough"
    nreal = len(real_configs())
    k = 0

    def mine():
        nonlocal k
        k += 1
        return (k % nshards) == shard

    # --- sample beacons: every profile, the three key variants, short and long histories
    for rk in range(nreal):
        for rep in range(16 if thorough else 4):
            if not mine():
                continue
            spec = make_spec(rng, real_k=rk, n=rng.choice([1, 2, 3, 5, 8, 12]), multi=rep % 2 == 1)
            for ln in sess_lines(spec, ["rsa", "rand", "keys"]):
                yield ("multi" if rep % 2 == 1 else "sess"), ln
            if rep == 0:
                for ln in sess_lines(spec, [rng.choice(SIDE_VARIANTS)]):
                    yield "sess-keys", ln
            if rep == 0:
                for ln in route_lines(rng, spec["cfg"], spec["cfgsrc"]):
                    yield "route", ln

    # --- synthetic configurations
    nsyn = (2400 if thorough else 200) // nshards + 1
    for i in range(nsyn):
        spec = make_spec(rng)
        for ln in sess_lines(spec, ["rsa", "rand", "keys"]):
            yield "sess", ln
        if i % 2 == 0:
            for ln in sess_lines(spec, rng.sample(SIDE_VARIANTS, 2)):
                yield "sess-keys", ln
        if i % 12 == 0:
            for ln in route_lines(rng, spec["cfg"], spec["cfgsrc"]):
                yield "route", ln
        if i % 6 == 1:
            for ln in ctor_lines(rng, spec):
                yield "ctor", ln
        if i % 3 == 0:
            cap = capture_or_none(spec)
            if cap is not None:
                sp2 = dict(spec)
                sp2["events"] = truncated(rng, spec, cap)
                if sp2["events"]:
                    yield "malformed", build_line(sp2, rng.choice(["rsa", "rand", "keys"]), [{}] * len(sp2["events"]))
    for i in range((600 if thorough else 60) // nshards + 1):
        spec = make_spec(rng, unrelated=True)
        for ln in sess_lines(spec, ["rsa", "keys"]):
            yield "unrelated", ln
        spec = make_spec(rng, multi=True)
        for ln in sess_lines(spec, ["rsa", "rand", "keys"]):
            yield "multi", ln
    # the callback counter overflows 32 bits: send_callback raises struct.error before anything is sent
    if mine():
        spec = make_spec(rng, n=3)
        spec["client"]["counter"] = 2 ** 32 - 1
        spec["events"] = [e for e in gen_events(rng, spec["cfg"], 6, spec=spec)]
        for ln in sess_lines(spec, ["keys"]):
            yield "sess-keys", ln
    for i in range((240 if thorough else 24) // nshards + 1):
        spec = make_spec(rng, uri_append=True, n=rng.randrange(1, 4))
        spec["probe_all"] = True
        for ln in sess_lines(spec, ["rsa"]):
            yield "uriappend-initial", ln
        spec = make_spec(rng, overlap=True)
        spec["probe_all"] = True
        for ln in sess_lines(spec, ["rsa", "keys"]):
            yield "overlap", ln
        spec = make_spec(rng, combo=True, n=rng.randrange(1, 5))
        for ln in sess_lines(spec, ["rsa", "rsa+keys", "rsa-noverify"]):
            yield "combo", ln

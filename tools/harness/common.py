"""Shared helpers of the correspondence harnesses (line protocol encoding, shrinking)."""
from __future__ import annotations


def hx(b: bytes) -> str:
    return "x" + bytes(b).hex()


def unhx(t: str) -> bytes:
    assert t[0] == "x", t
    return bytes.fromhex(t[1:])


def tf(b) -> str:
    return "T" if b else "F"


def rbytes(rng, n: int) -> bytes:
    return bytes(rng.getrandbits(8) for _ in range(n)) if n else b""


def ints(xs) -> str:
    return "l" + ",".join(str(int(x)) for x in xs)


def unints(t: str):
    assert t[0] == "l", t
    return [int(x) for x in t[1:].split(",") if x]


def shrink_tokens(line: str):
    """Candidate smaller lines: shorten hex / list tokens, zero bytes, shrink integers."""
    w = line.split(" ")
    for i, t in enumerate(w):
        if i == 0:
            continue
        if t.startswith("x") and len(t) > 1 and all(c in "0123456789abcdef" for c in t[1:]):
            b = bytes.fromhex(t[1:])
            n = len(b)
            cands = []
            if n > 1:
                cands += [b[: n // 2], b[n // 2:], b[1:], b[:-1]]
            if n >= 1:
                cands += [b[:-1], b[1:]]
            for k in range(min(n, 16)):
                if b[k] != 0:
                    cands.append(b[:k] + b"\x00" + b[k + 1:])
            for c in cands:
                yield " ".join(w[:i] + ["x" + c.hex()] + w[i + 1:])
        elif t.startswith("l") and len(t) > 1 and t[1:].replace(",", "").replace("-", "").isdigit():
            xs = t[1:].split(",")
            n = len(xs)
            for c in ([xs[: n // 2], xs[n // 2:], xs[1:], xs[:-1]] if n > 1 else [[]]):
                yield " ".join(w[:i] + ["l" + ",".join(c)] + w[i + 1:])
        elif t.lstrip("-").isdigit() and len(t) > 1:
            v = int(t)
            for c in (v // 2, v - 1 if v > 0 else v + 1, 0):
                if len(str(c)) < len(t):
                    yield " ".join(w[:i] + [str(c)] + w[i + 1:])


def drop_defaults(line: str, documented: dict, **named) -> dict:
    """Keyword arguments for a library call: in half of the cases (chosen by a checksum of the case line, so a replay repeats the
    choice) every argument that EQUALS its documented default is left out of the call.  `documented` is written down in the
    harness from the function's documentation - not read from the function object - so a changed default is observable."""
    import zlib
    if zlib.crc32(line.encode()) % 2:
        return named
    return {k: v for k, v in named.items()
            if not (k in documented and type(v) is type(documented[k]) and v == documented[k])}

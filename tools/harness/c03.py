"""C03 — structured settings: typed generators, independent encoders/oracle, adapters to the real library.

Every parser is called directly AND through `BeaconConfig(block).settings[...]` where `block` is produced by the
TLV encoder below (independent of the library).  The oracle never calls the function under test: expected values
are computed from the *program* the generator encoded (reference encoders `enc_*` + `view_*`), kept in EXPECT.
"""
from __future__ import annotations

import hashlib
import io
import json
import logging
import struct
from pathlib import Path

from dissect.cobaltstrike import beacon as B

from . import common as C

# parse_recover_binary reports unknown steps with logger.error; keep the runner's output readable
logging.getLogger("dissect.cobaltstrike.beacon").setLevel(logging.CRITICAL)

ID = "C03"
DRIVER = "drv_c03"
GEN = ["beacon"]
GEN += ["py_beacon"]
EXTRA_PROP_FILES = ["Props/C03Gen.lean"]
STREAMS = {
    "tr": {"relevant": True, "desc": "parse_transform_binary(program, build)"},
    "rc": {"relevant": True, "desc": "parse_recover_binary(program)"},
    "ex": {"relevant": True, "desc": "parse_execute_list(data)"},
    "it": {"relevant": True, "desc": "parse_process_injection_transform_steps(data)"},
    "gg": {"relevant": True, "desc": "parse_gargle(data)"},
    "pv": {"relevant": True, "desc": "parse_pivot_frame(data)"},
    "gate": {"relevant": True, "desc": "beacon_gate_options_string(parse_beacon_gate(data)) (tail compared as a sorted set)"},
    "nts": {"relevant": True, "desc": "null_terminated_str(data)"},
    "ntb": {"relevant": True, "desc": "null_terminated_bytes(data)"},
    "pk": {"relevant": True, "desc": "sha256sum_pubkey(data) with hashlib.sha256 replaced by the identity (observes the pre-image)"},
    "dns": {"relevant": True, "desc": "SETTING_DNS_IDLE pretty function on an int"},
    "bof": {"relevant": True, "desc": "SETTING_BOF_ALLOCATOR pretty function on an int"},
    "proto": {"relevant": False, "desc": "BeaconProtocol(x).name for arbitrary x (cstruct/enum.Flag naming; property only speaks about defined values)"},
    "cfg": {"relevant": True, "desc": "BeaconConfig(tlv(index,type,value)).settings: SETTING_TO_PRETTYFUNC dispatch end to end"},
    "der": {"relevant": True, "desc": "derived properties of BeaconConfig(block): domain_uri_pairs/uris/domains/killdate/protocol/port/watermark/is_trial/public_key"},
    "g-tr": {"relevant": False, "desc": "parse_transform_binary TRANSLATED from its source (Gen/PyBeacon.lean) vs the function"},
    "g-rc": {"relevant": False, "desc": "translated parse_recover_binary vs the function"},
    "g-ex": {"relevant": False, "desc": "translated parse_execute_list vs the function"},
    "g-it": {"relevant": False, "desc": "translated parse_process_injection_transform_steps vs the function"},
    "g-gg": {"relevant": False, "desc": "translated parse_gargle vs the function"},
    "g-pv": {"relevant": False, "desc": "translated parse_pivot_frame vs the function"},
    "g-nts": {"relevant": False, "desc": "translated null_terminated_str vs the function"},
    "g-ntb": {"relevant": False, "desc": "translated null_terminated_bytes vs the function"},
    "pyu": {"relevant": False, "desc": "every operation of lean/CsVerif/Model/PyU.lean (run-time library of the untyped translator) vs CPython / "
                                       "dissect.cstruct on random operands of all kinds, restricted to the operand kinds the operation models"},
    "g-arg": {"relevant": False, "desc": "translated functions vs the functions on arguments that are not bytes (None, int, str, list, True), "
                                         "which the hand-written model cannot express"},
}
G_STREAMS = {"tr", "rc", "ex", "it", "gg", "pv", "nts", "ntb"}
G_ARGS = {"none": None, "int": 5, "str": "ab", "list": [1], "true": True}
G_FUNCS = {"tr": "parse_transform_binary", "rc": "parse_recover_binary", "ex": "parse_execute_list",
           "it": "parse_process_injection_transform_steps", "gg": "parse_gargle", "pv": "parse_pivot_frame",
           "nts": "null_terminated_str", "ntb": "null_terminated_bytes"}


PYU_ENUMS = [B.TransformStep, B.InjectExecutor]


def pshow(v):
    """generic rendering of a Python value (must match `vShow` of lean/CsVerif/Driver/C03.lean)"""
    if v is None:
        return "N"
    if v is True or v is False:
        return "T" if v else "F"
    if type(v) in PYU_ENUMS:
        return f"E{PYU_ENUMS.index(type(v))}:{int(v.value)}"
    if isinstance(v, int) and type(v) is int:
        return f"i{v}"
    if isinstance(v, dict):
        return "D[" + ";".join(pshow(x) for x in v.keys()) + "|" + ";".join(pshow(x) for x in v.values()) + "]"
    if isinstance(v, io.BytesIO):
        return "O" + v.getvalue().hex() + ":" + str(v.tell())
    if isinstance(v, bytes):
        return "b" + v.hex()
    if isinstance(v, str):
        return "s" + ".".join(str(ord(c)) for c in v)
    if isinstance(v, list):
        return "L[" + ";".join(pshow(x) for x in v) + "]"
    if isinstance(v, tuple):
        return "U[" + ";".join(pshow(x) for x in v) + "]"
    raise RuntimeError(f"pshow: {v!r}")
TRUSTED = [
    "tools/harness/c03.py generators, reference encoders and renderers; line protocol parsing in lean/CsVerif/Driver/C03.lean",
    "tools/gen/beacon.py (opcode tables by introspection of the imported package)",
    "modelled, not verified: io.BytesIO.read, int.from_bytes, bytes.rstrip/partition/decode (UTF-8 strict, latin-1), str.split/rstrip/format, "
    "dict.fromkeys, itertools.zip_longest, ipaddress.IPv4Address, dissect.cstruct 4.7 enum/flag/struct construction and `.name`",
    "SHA-256 is a parameter of the model (the harness observes the pre-image with a stub hash and supplies hashlib's digest as a one-point table)",
    "tools/py2leanu.py + lean/CsVerif/Model/PyU.lean (untyped source-to-Lean translation of the eight decoders; Props/C03Gen.lean proves the "
    "translated definitions equal to the hand-written model, the g-* streams run the translated definitions against the real functions, "
    "the pyu stream runs every PyU operation against CPython / dissect.cstruct on random operands)",
]
ASSUMPTIONS = [
    "settings reach the pretty functions with the value type Cobalt Strike uses (bytes for TYPE_PTR settings, int for DNS_IDLE/BOF_ALLOCATOR/KILLDATE/PROTOCOL); "
    "other type combinations raise TypeError/AttributeError/EOFError in the library and are outside the modelled domain",
    "iter_settings (TLV parsing, User-Agent continuation) is C02's subject: configurations here are well-formed TLV sequences",
]
RULE = ("typed programs over the full opcode set + malformed tails + exhaustive small enumerations; distinct = hash of (stream, input line); "
        "non-trivial = the real code returned a non-empty decoded value (no exception, not the empty list/bytes)")

# ----------------------------------------------------------------------------------------------------------
# Cobalt Strike's numbering, written by hand (independent of the library's enums)
# ----------------------------------------------------------------------------------------------------------
REF_TS = {1: "APPEND", 2: "PREPEND", 3: "BASE64", 4: "PRINT", 5: "PARAMETER", 6: "HEADER", 7: "BUILD", 8: "NETBIOS",
          9: "_PARAMETER", 10: "_HEADER", 11: "NETBIOSU", 12: "URI_APPEND", 13: "BASE64URL", 14: "STRREP", 15: "MASK",
          16: "_HOSTHEADER"}
TS_ENABLE = [3, 13, 8, 11, 12, 4, 15]
TS_ARG = [10, 6, 5, 9, 16, 1, 2]
TS_UNKNOWN = [14, 17, 18, 255, 256, 0x01000000, 0xFFFFFFFF]
RC_FLAG = {3: "base64", 4: "print", 8: "netbios", 11: "netbiosu", 13: "base64url", 15: "mask"}
RC_LEN = {1: "append", 2: "prepend"}
RC_UNKNOWN = [5, 6, 7, 9, 10, 12, 14, 16, 17, 255, 0x01000000, 0xFFFFFFFF]
REF_EX = {1: "CreateThread", 2: "SetThreadContext", 3: "CreateRemoteThread", 4: "RtlCreateUserThread", 5: "NtQueueApcThread",
          6: "CreateThread_", 7: "CreateRemoteThread_", 8: "NtQueueApcThread_s"}
GATE_FIELDS = ["InternetOpenA", "InternetConnectA", "VirtualAlloc", "VirtualAllocEx", "VirtualProtect", "VirtualProtectEx",
               "VirtualFree", "GetThreadContext", "SetThreadContext", "ResumeThread", "CreateThread", "CreateRemoteThread",
               "OpenProcess", "OpenThread", "CloseHandle", "CreateFileMappingA", "MapViewOfFile", "UnmapViewOfFile",
               "VirtualQuery", "DuplicateHandle", "ReadProcessMemory", "WriteProcessMemory", "ExitThread"]
GATE_GROUPS = [("Comms", GATE_FIELDS[0:2]), ("Core", GATE_FIELDS[2:22]), ("Cleanup", GATE_FIELDS[22:23])]
GROUP_LABELS = ("All", "Comms", "Core", "Cleanup")
PROTO = {0: "http", 1: "dns", 2: "smb", 4: "tcp", 8: "https", 16: "bind"}
BOF = {0: "VirtualAlloc", 1: "MapViewOfFile", 2: "HeapAlloc"}

# setting index -> kind of the human readable value
K_NULLSTR = [8, 54, 26, 27, 15, 29, 30, 9, 10, 60, 61, 62, 63, 64, 65, 66]
K_HEX = [53, 14, 74]
NAME = {1: "SETTING_PROTOCOL", 2: "SETTING_PORT", 7: "SETTING_PUBKEY", 8: "SETTING_DOMAINS", 31: "SETTING_CRYPTO_SCHEME",
        37: "SETTING_WATERMARK", 40: "SETTING_KILLDATE"}

EXPECT: dict = {}

_known_file = Path(__file__).resolve().parent.parent.parent / "known_findings.json"
try:
    _KNOWN_IDS = {k["id"] for k in json.loads(_known_file.read_text()).get("findings", []) if k.get("property") == "C03" and k.get("status") == "known"}
except Exception:  # noqa: BLE001
    _KNOWN_IDS = set()
KILLDATE_FINDING = "C03-killdate-legacy-fallback-dead"


# ----------------------------------------------------------------------------------------------------------
# reference encoders (the independent oracle's half) and views
# ----------------------------------------------------------------------------------------------------------
def be32(n):
    return struct.pack(">I", n)


def be16(n):
    return struct.pack(">H", n)


def le32(n):
    return struct.pack("<I", n)


def tlv(index, typ, value):
    return be16(index) + be16(typ) + be16(len(value)) + value


def enc_transform(steps):
    out = b""
    for st in steps:
        if st[0] == "build":
            out += be32(7) + be32(st[1])
        elif st[0] in ("en", "skip"):
            out += be32(st[1])
        else:
            out += be32(st[1]) + be32(len(st[2])) + st[2]
    return out


def view_transform(steps, build):
    out = []
    for st in steps:
        if st[0] == "build":
            out.append("BUILD=" + show_str({0: build, 1: "output"}.get(st[1], "UNKNOWN BUILD ARG")))
        elif st[0] == "en":
            out.append(REF_TS[st[1]] + "=T")
        elif st[0] == "arg":
            out.append(REF_TS[st[1]] + "=" + C.hx(st[2]))
    return show_list(out)


def enc_recover(steps):
    out = b""
    for st in steps:
        out += be32(st[0])
        if st[0] in RC_LEN:
            out += be32(st[1])
    return out


def view_recover(steps):
    out = []
    for st in steps:
        if st[0] in RC_LEN:
            out.append(f"{RC_LEN[st[0]]}={st[1]}")
        elif st[0] in RC_FLAG:
            out.append(f"{RC_FLAG[st[0]]}=T")
    return show_list(out)


def enc_execute(items):
    out = b""
    for it in items:
        out += bytes([it[0]])
        if it[0] in (6, 7):
            _, off, mod, modpad, fn, fnpad = it
            out += be16(off) + be32(len(mod) + modpad) + mod + bytes(modpad) + be32(len(fn) + fnpad) + fn + bytes(fnpad)
    return out


def view_execute(items):
    out = []
    for it in items:
        if it[0] in (6, 7):
            _, off, mod, _, fn, _ = it
            s = mod.decode("ascii") + "!" + fn.decode("ascii") + (("+0x%x" % off) if off else "")
            out.append(show_cps(REF_EX[it[0]][:-1] + ' "' + s + '"'))
        else:
            out.append(show_cps(REF_EX.get(it[0])))
    return "ok " + show_list(out)


def enc_injt(app, pre):
    return be32(len(app)) + app + be32(len(pre)) + pre


def enc_gargle(rows):
    return b"".join(le32(a) + le32(b) for a, b in rows)


def view_gargle(rows):
    return show_list([f"0x{a:x}-0x{b:x}" for a, b in rows if (a, b) != (0, 0)])


def enc_pivot(data):
    return be16(len(data) + 4) + data


def enc_gate(enabled, on=1):
    return bytes(on if f in enabled else 0 for f in GATE_FIELDS)


def view_gate(flags):
    enabled = {f for f, v in zip(GATE_FIELDS, flags) if v}
    groups, covered = [], set()
    if len(enabled) == len(GATE_FIELDS):
        groups, covered = ["All"], set(GATE_FIELDS)
    else:
        for label, members in GATE_GROUPS:
            if enabled.issuperset(members):
                groups.append(label)
                covered |= set(members)
    return "ok " + show_list(groups) + " {" + ",".join(sorted(enabled - covered)) + "}"


# ----------------------------------------------------------------------------------------------------------
# renderers (must match lean/CsVerif/Driver/C03.lean)
# ----------------------------------------------------------------------------------------------------------
def show_list(items):
    return "[" + ",".join(items) + "]"


def show_str(s):
    return "s" + s.encode("utf-8").hex()


def show_cps(s):
    if s is None:
        return "none"
    if s == "":
        return "e"
    return ".".join(str(ord(c)) for c in s)


def show_tr(lst):
    out = []
    for name, v in lst:
        if v is True:
            r = "T"
        elif isinstance(v, bytes):
            r = C.hx(v)
        elif isinstance(v, str):
            r = show_str(v)
        else:
            raise RuntimeError(f"unexpected transform value {v!r}")
        out.append(f"{name}={r}")
    return show_list(out)


def show_rc(lst):
    out = []
    for name, v in lst:
        if v is True:
            out.append(f"{name}=T")
        elif isinstance(v, int) and not isinstance(v, bool):
            out.append(f"{name}={v}")
        else:
            raise RuntimeError(f"unexpected recover value {v!r}")
    return show_list(out)


def show_ex(lst):
    return show_list([show_cps(x) for x in lst])


def show_it(lst):
    return show_list([f"{n}={C.hx(v)}" for n, v in lst])


def show_gate(ret):
    k = 0
    while k < len(ret) and ret[k] in GROUP_LABELS:
        k += 1
    return show_list(ret[:k]) + " {" + ",".join(sorted(ret[k:])) + "}"


def show_lstr(s):
    return "s" + s.encode("latin-1").hex()


def show_name(n):
    return "None" if n is None else str(n)


def show_raw(v):
    if v is None:
        return "None"
    if isinstance(v, bytes):
        return C.hx(v)
    return f"i{int(v)}"


def render_pretty(index, typ, v):
    if index == 36 and typ == 1:
        return f"i{int(v)}"
    if index in K_HEX or index == 7:
        return "t" + v
    if index == 11:
        return show_rc(v)
    if index in (12, 13):
        return show_tr(v)
    if index == 51:
        return show_ex(v)
    if index in (46, 47):
        return show_it(v)
    if index == 42:
        return show_list(v)
    if index in (57, 58):
        return C.hx(v)
    if index in K_NULLSTR:
        return show_lstr(v)
    if index == 19:
        return "t" + v
    if index == 36:
        return show_raw(v)
    if index == 16:
        return "None" if v is None else "t" + v
    if index == 78:
        return show_gate(v)
    return show_raw(v)


# ----------------------------------------------------------------------------------------------------------
# generators
# ----------------------------------------------------------------------------------------------------------
ARGLENS = [0, 1, 2, 255, 300]


def rarg(rng):
    n = rng.choice(ARGLENS + [3, 4, 5, 8, 17])
    r = rng.random()
    if r < 0.2:
        return bytes(n)
    if r < 0.3:
        return bytes([0, 0, 0, rng.choice([1, 3, 7, 13])] * ((n + 3) // 4))[:n]  # looks like opcodes
    return C.rbytes(rng, n)


def gen_tprogram(rng):
    """1-3 BUILD blocks; every defined opcode >= 5 % of all steps (measured: see evidence `by_stream`/RULE); unknown opcodes ~7 %"""
    n = rng.choice([0, 1, 2, 3, 5, 8, 12, 20, 30])
    known = [op for op in range(1, 17) if op not in (7, 14)]
    steps = []
    for _ in range(n):
        if rng.random() < 0.1:
            steps.append(("skip", rng.choice(TS_UNKNOWN + [14, 14, 17])))
            continue
        op = rng.choice(known)
        if op in TS_ENABLE:
            steps.append(("en", op))
        else:
            steps.append(("arg", op, rarg(rng)))
    for _ in range(rng.choice([1, 1, 2, 3])):
        steps.insert(rng.randrange(0, len(steps) + 1), ("build", rng.choice([0, 1, 0, 1, 2, 7, 0xFFFFFFFF])))
    return steps


def tails(rng, data):
    """(tail, wellformed?) variants: EOF, zero opcode + junk, short padding, NUL padding"""
    r = rng.random()
    if r < 0.35:
        return b"", True
    if r < 0.6:
        return be32(0) + C.rbytes(rng, rng.choice([0, 1, 4, 9])), True
    if r < 0.75:
        return C.rbytes(rng, rng.choice([1, 2, 3])), True
    if r < 0.9:
        return bytes(rng.choice([1, 2, 3, 5, 16])), True
    return b"", False  # truncate (malformed)


def pparse(tok):
    """inverse of pshow (operands of the `pyu` stream)"""
    def one(i):
        c = tok[i]
        if c == "N":
            return None, i + 1
        if c in "TF":
            return c == "T", i + 1
        if c in "ibsOE":
            j = i + 1
            while j < len(tok) and tok[j] not in ";]|":
                j += 1
            body = tok[i + 1:j]
            if c == "i":
                return int(body), j
            if c == "b":
                return bytes.fromhex(body), j
            if c == "s":
                return "".join(chr(int(x)) for x in body.split(".") if x), j
            if c == "O":
                h, pos = body.split(":")
                o = io.BytesIO(bytes.fromhex(h))
                o.seek(int(pos))
                return o, j
            cid, val = body.split(":")
            return PYU_ENUMS[int(cid)](int(val)), j
        if c in "LUD":
            i += 2
            groups, cur = [], []
            while True:
                if tok[i] == "]":
                    groups.append(cur)
                    i += 1
                    break
                if tok[i] == "|":
                    groups.append(cur)
                    cur = []
                    i += 1
                    continue
                if tok[i] == ";":
                    i += 1
                    continue
                v, i = one(i)
                cur.append(v)
            if c == "L":
                return list(groups[0]), i
            if c == "U":
                return tuple(groups[0]), i
            return dict(zip(groups[0], groups[1])), i
        raise RuntimeError("pparse: " + tok)
    v, i = one(0)
    if i != len(tok):
        raise RuntimeError("pparse: trailing input in " + tok)
    return v


def _iadd(a, b):
    a += b
    return a


def _append(a, b):
    a.append(b)
    return a


def _read(p, n):
    d = p.read(n)
    return (d, p)


def _unpack(k):
    def f(x):
        if k == 2:
            a, b = x
            return (a, b)
        a, b, c = x
        return (a, b, c)
    return f


PYU_OPS = {
    "truthy": lambda a: bool(a), "isnone": lambda a: a is None, "neg": lambda a: -a, "len": lambda a: len(a),
    "unpack2": _unpack(2), "unpack3": _unpack(3), "newbio": lambda a: io.BytesIO(a), "decutf8": lambda a: a.decode(),
    "declatin1": lambda a: a.decode("latin-1", "ignore"), "fmt": lambda a: "{}".format(a), "fmtx": lambda a: "{:x}".format(a),
    "name": lambda a: a.name, "value": lambda a: a.value, "enum0": lambda a: B.TransformStep(a), "enum1": lambda a: B.InjectExecutor(a),
    "u32be": lambda a: B.u32be(a), "mkdict": lambda a: {k: v for k, v in a},
    "eq": lambda a, b: a == b, "lt": lambda a, b: a < b, "le": lambda a, b: a <= b, "gt": lambda a, b: a > b, "ge": lambda a, b: a >= b,
    "add": lambda a, b: a + b, "iadd": _iadd, "sub": lambda a, b: a - b, "mul": lambda a, b: a * b, "floordiv": lambda a, b: a // b,
    "mod": lambda a, b: a % b, "band": lambda a, b: a & b, "bor": lambda a, b: a | b, "bxor": lambda a, b: a ^ b,
    "shl": lambda a, b: a << b, "shr": lambda a, b: a >> b, "contains": lambda a, b: b in a, "getitem": lambda a, b: a[b],
    "append": _append, "read": _read, "rstrip": lambda a, b: a.rstrip(b), "partition": lambda a, b: a.partition(b),
    "slice": lambda a, b, c: a[b:c], "dictget": lambda a, b, c: a.get(b, c),
}
PYU_ARITY = {op: f.__code__.co_argcount for op, f in PYU_OPS.items()}


def _kind(v):
    if v is None:
        return "none"
    if isinstance(v, bool):
        return "bool"
    if type(v) in PYU_ENUMS:
        return "enum"
    return {int: "int", bytes: "bytes", str: "str", list: "list", tuple: "tuple", dict: "dict", io.BytesIO: "bio"}[type(v)]


def _intlike(v):
    return _kind(v) in ("bool", "int", "enum")


def _contains_kind(v, kinds):
    if _kind(v) in kinds:
        return True
    if isinstance(v, (list, tuple)):
        return any(_contains_kind(x, kinds) for x in v)
    if isinstance(v, dict):
        return any(_contains_kind(x, kinds) for x in list(v.keys()) + list(v.values()))
    return False


def pyu_modelled(op, args):
    """False for the operand kinds an operation of PyU.lean documents as not modelled (its doc comment says which)"""
    ks = [_kind(a) for a in args]
    if op in ("eq", "contains", "getitem", "dictget") and (sum(_contains_kind(a, ("dict",)) for a in args) >= 2 or sum(_contains_kind(a, ("bio",)) for a in args) >= 2):
        return False        # dict == dict ignores the order; BytesIO == BytesIO is identity
    if op in ("contains", "getitem", "dictget", "mkdict") and any(_contains_kind(a, ("bio",)) for a in args):
        return False        # BytesIO as a key: hashed by identity
    if op in ("lt", "le", "gt", "ge") and ks[0] == ks[1] and ks[0] in ("list", "tuple"):
        return False
    if op == "iadd" and ks[0] == "list":
        return False
    if op == "mod" and ks[0] in ("str", "bytes"):
        return False
    if op == "bor" and ks[0] == ks[1] == "dict":
        return False
    if op in ("enum0", "enum1") and (ks[0] in ("str", "bio") or ks[0] == "enum" and PYU_ENUMS.index(type(args[0])) != int(op[-1])):
        return False
    if op == "fmt" and ks[0] in ("bytes", "list", "tuple", "dict", "bio", "enum"):
        return False
    if op in ("unpack2", "unpack3") and ks[0] == "bio":
        return False
    if op == "u32be" and ks[0] in ("list", "tuple"):
        return False
    if op in ("mul", "shl", "shr") and any(_intlike(a) and abs(int(a)) > 64 for a in args):
        return False        # keep the results small
    return True


def pyu_value(rng, depth=0):
    """a random value of every kind; small alphabets so that equal / contained / prefix operands are frequent"""
    r = rng.random()
    if r < 0.08:
        return None
    if r < 0.16:
        return rng.choice([True, False])
    if r < 0.34:
        return rng.choice([0, 1, 2, 3, 4, 7, -1, -2, 5, 16, 255, 256, -256, 65, 97, 1 << 32, rng.randrange(-70, 70)])
    if r < 0.50:
        n = rng.choice([0, 1, 1, 2, 3, 4, 5, 8])
        return bytes(rng.choice([0, 0, 65, 66, 32, 9, 0xC3, 0xA9, 0xFF, 0x80, 1, 2, 7]) for _ in range(n))
    if r < 0.64:
        n = rng.choice([0, 1, 1, 2, 3, 5])
        return "".join(rng.choice("ab_ x\t\n\x1c\x85\xa0é€_0") for _ in range(n))
    if r < 0.70:
        cls = rng.choice(PYU_ENUMS)
        return cls(rng.choice([0, 1, 2, 6, 7, 8, 16, 17, 255, -1, 300]))
    if r < 0.76:
        d = bytes(rng.choice([0, 1, 65, 255]) for _ in range(rng.choice([0, 1, 3, 6])))
        o = io.BytesIO(d)
        o.seek(rng.randrange(0, len(d) + 2))
        return o
    if depth >= 2:
        return rng.choice([0, 1, b"a", "a", None])
    if r < 0.86:
        return [pyu_value(rng, depth + 1) for _ in range(rng.choice([0, 1, 2, 3]))]
    if r < 0.95:
        return tuple(pyu_value(rng, depth + 1) for _ in range(rng.choice([0, 1, 2, 3])))
    d = {}
    for _ in range(rng.choice([0, 1, 2, 3])):
        k = pyu_value(rng, 2)
        try:
            d[k] = pyu_value(rng, depth + 1)
        except TypeError:
            pass
    return d


def pyu_case(rng):
    op = rng.choice(sorted(PYU_OPS))
    n = PYU_ARITY[op]
    args = [pyu_value(rng) for _ in range(n)]
    r = rng.random()
    # bias towards the kinds the operation is about
    if op in ("rstrip", "partition") and r < 0.8:
        args[0] = rng.choice([pyu_value(rng) for _ in range(6)] + [b"ab\x00\x00", b"a\x00b\x00", "x_ab__", "a_b_", b" ab \n", "ab \x85\xa0"])
        if rng.random() < 0.7:
            args[1] = rng.choice([b"\x00", b"", b"ab", "_", "", "ab", None, b"b\x00"])
    elif op == "read" and r < 0.85:
        d = bytes(rng.randrange(0, 256) for _ in range(rng.choice([0, 1, 4, 9])))
        o = io.BytesIO(d)
        o.seek(rng.randrange(0, len(d) + 2))
        args[0] = o
        args[1] = rng.choice([None, -1, -5, 0, 1, 2, 4, 100, True, B.TransformStep(2), pyu_value(rng)])
    elif op in ("dictget", "getitem", "contains") and r < 0.5:
        d = {}
        for _ in range(3):
            d[rng.choice([0, 1, 2, True, "a", b"a", (0,), None, B.TransformStep(1), B.InjectExecutor(1)])] = pyu_value(rng, 1)
        args[0] = d
        args[1] = rng.choice([0, 1, True, False, 2, "a", b"a", (0,), (0, [1]), [0], None, B.TransformStep(1), B.InjectExecutor(1), 3])
    elif op in ("getitem", "slice") and r < 0.9:
        args[0] = rng.choice([b"abc", "abc", [1, 2, 3], (1, 2, 3), b"", "", [], pyu_value(rng)])
        for i in range(1, n):
            args[i] = rng.choice([None, 0, 1, 2, 3, 4, -1, -2, -3, -4, True, B.TransformStep(1), "a", pyu_value(rng)])
    elif op == "contains" and r < 0.9:
        args[0] = rng.choice([b"abcab", "abcab", [1, "a", b"a", None, (1, 2)], (True, 2, B.TransformStep(3)), pyu_value(rng)])
        args[1] = rng.choice([b"", b"ab", b"ca", b"ba", 97, 300, -1, "", "ab", "ca", "ba", 1, "a", (1, 2), [1, 2], 3, None, B.InjectExecutor(3), pyu_value(rng)])
    elif op in ("unpack2", "unpack3") and r < 0.8:
        k = rng.choice([1, 2, 3, 4])
        args[0] = rng.choice([tuple(range(k)), list(range(k)), bytes(range(k)), "abcd"[:k], {i: i for i in range(k)}])
    elif op in ("decutf8", "declatin1") and r < 0.85:
        args[0] = rng.choice([b"", b"abc", "é€".encode(), b"\xff", b"\xc3", b"\xed\xa0\x80", b"\xc0\x80", b"\xf4\x90\x80\x80", "😀".encode(),
                              b"\xe0\x9f\x80", b"\xf0\x8f\x80\x80", b"a\xe2\x82", bytes(rng.randrange(0, 256) for _ in range(rng.choice([1, 2, 3, 4])))])
    elif op in ("enum0", "enum1") and r < 0.8:
        args[0] = rng.choice([None, 0, 1, 6, 7, 300, -1, True, b"", b"\x06", b"\x00\x00\x00\x07", b"\x01\x02\x03\x04\x05", b"\x00\x00\x01",
                              PYU_ENUMS[int(op[-1])](5), [1], (1,), {}])
    elif op == "u32be" and r < 0.8:
        args[0] = bytes(rng.randrange(0, 256) for _ in range(rng.choice([0, 1, 3, 4, 5, 8])))
    elif op in ("name", "value") and r < 0.8:
        args[0] = rng.choice(PYU_ENUMS)(rng.choice([0, 1, 2, 6, 7, 8, 9, 14, 16, 17, 255, -1, 1 << 33]))
    elif op == "mkdict":
        items = []
        for _ in range(rng.choice([0, 1, 2, 3, 4])):
            items.append((rng.choice([0, 1, True, False, "a", b"a", (0, 1), None, 2, [1], {}, (0, [1]), B.TransformStep(1), B.InjectExecutor(1)]), pyu_value(rng, 1)))
        args[0] = items
    elif op in ("fmt", "fmtx") and r < 0.8:
        args[0] = rng.choice([0, 1, -1, 255, 256, -255, 65535, 1 << 40, True, False, None, "ab", "", B.TransformStep(10), B.InjectExecutor(255), b"a", (1,)])
    elif n == 2 and r < 0.5:
        # the same kind on both sides (ordering / concatenation / equality)
        a = pyu_value(rng)
        b = rng.choice([pyu_value(rng) for _ in range(8)] + [a])
        cand = [x for x in [pyu_value(rng) for _ in range(12)] if _kind(x) == _kind(a)]
        args = [a, rng.choice(cand) if cand and rng.random() < 0.8 else b]
    if not pyu_modelled(op, args):
        return None
    try:
        return "pyu " + op + " " + " ".join(pshow(a) for a in args)
    except RuntimeError:
        return None


def gen(tier, rng, shard, nshards):
    """every case of a stream whose function is translated from source is also run through the translated definition"""
    for stream, line in gen0(tier, rng, shard, nshards):
        yield stream, line
        if stream in G_STREAMS:
            yield "g-" + stream, "g" + line
    for _ in range((120000 if tier == "thorough" else 12000) // nshards):
        line = pyu_case(rng)
        if line is not None:
            yield "pyu", line
    k = 0
    for fn in sorted(G_STREAMS):
        for kind in G_ARGS:
            k += 1
            if k % nshards == shard:
                yield "g-arg", f"garg {fn} {kind}"


def gen0(tier, rng, shard, nshards):
    thorough = tier == "thorough"
    EXPECT.clear()
    k = 0

    def mine():
        nonlocal k
        k += 1
        return (k % nshards) == shard

    def vol(n_quick, n_thorough):
        return (3 * n_thorough if thorough else 3 * n_quick) // nshards

    def emit(stream, line, expect=None):
        if expect is not None:
            EXPECT[(stream, line)] = expect
        return stream, line

    # ---------------- transform programs
    def tr_cases(steps, build, tail, wf):
        data = enc_transform(steps) + tail
        exp = view_transform(steps, build) if wf else None
        yield emit("tr", f"tr {build} {C.hx(data)}", exp)
        if build in ("metadata", "id"):
            idx = 12 if build == "metadata" else 13
            yield emit("cfg", f"cfg - {idx} 3 {C.hx(data)}", ("ok " + exp) if exp is not None else None)

    for op in range(0, 21):
        for alen in (0, 1):
            for build in ("metadata", "id"):
                if not mine():
                    continue
                if op == 0:
                    steps, tail = [], be32(0) + bytes(alen)
                elif op == 7:
                    steps, tail = [("build", alen)], b""
                elif op in TS_ENABLE:
                    steps, tail = [("en", op)], bytes(alen)
                elif op in TS_ARG:
                    steps, tail = [("arg", op, b"A" * alen)], b""
                else:
                    steps, tail = [("skip", op)], b""
                yield from tr_cases(steps + [("en", 4)], build, tail, True)
    for _ in range(vol(6000, 60000)):
        steps = gen_tprogram(rng)
        build = rng.choice(["metadata", "id", "metadata", "id", "output", "x"])
        tail, wf = tails(rng, None)
        data = enc_transform(steps)
        if not wf:
            cut = rng.randrange(0, len(data) + 1)
            yield emit("tr", f"tr {build} {C.hx(data[:cut])}")
            if build in ("metadata", "id"):
                yield emit("cfg", f"cfg - {12 if build == 'metadata' else 13} 3 {C.hx(data[:cut])}")
        else:
            yield from tr_cases(steps, build, tail, True)
    for _ in range(vol(500, 5000)):  # raw junk
        d = C.rbytes(rng, rng.randrange(0, 40))
        if rng.random() < 0.5:
            d = bytes(x & 0x1F if i % 4 == 3 else 0 for i, x in enumerate(d))
        yield emit("tr", f"tr metadata {C.hx(d)}")

    # every prefix of one program per shard (truncated tails at every byte position)
    steps = gen_tprogram(rng)[:8]
    data = enc_transform(steps)[:120]
    for cut in range(len(data) + 1):
        yield emit("tr", f"tr metadata {C.hx(data[:cut])}")
        yield emit("cfg", f"cfg - 13 3 {C.hx(data[:cut])}")
    data = enc_recover([(rng.choice(list(RC_LEN) + list(RC_FLAG) + [7]), rng.getrandbits(32)) for _ in range(8)])
    for cut in range(len(data) + 1):
        yield emit("rc", f"rc {C.hx(data[:cut])}")
    data = enc_execute([(6, 0x21, b"ntdll", 1, b"RtlUserThreadStart", 1), (3,), (7, 0, b"k32", 0, b"f", 2), (8,)])
    for cut in range(len(data) + 1):
        yield emit("ex", f"ex {C.hx(data[:cut])}")
    data = enc_injt(b"\x90\x90", b"ABC") + b"zz"
    for cut in range(len(data) + 1):
        yield emit("it", f"it {C.hx(data[:cut])}")
    data = enc_gargle([(1, 2), (0, 0), (0x1000, 0x2000)])
    for cut in range(len(data) + 1):
        yield emit("gg", f"gg {C.hx(data[:cut])}")

    # ---------------- recover programs
    rc_ops = list(RC_LEN) + list(RC_FLAG) + [5, 7, 14, 17]
    for op in range(0, 21):
        for n in (0, 1):
            if not mine():
                continue
            steps = [(op, n)] if op else []
            data = enc_recover(steps + [(4,)]) if op else be32(0) + be32(4)
            exp = view_recover(steps + [(4,)]) if op else "[]"
            yield emit("rc", f"rc {C.hx(data)}", exp)
            yield emit("cfg", f"cfg - 11 3 {C.hx(data)}", "ok " + exp)
    for _ in range(vol(4000, 40000)):
        n = rng.choice([0, 1, 2, 3, 5, 8, 12])
        steps = []
        for _ in range(n):
            op = rng.choice(rc_ops)
            if rng.random() < 0.1:
                op = rng.choice(RC_UNKNOWN)
            steps.append((op, rng.choice([0, 1, 4, 255, 300, 65536, 0xFFFFFFFF, rng.getrandbits(32)])))
        data = enc_recover(steps)
        r = rng.random()
        exp = view_recover(steps)
        if r < 0.4:
            pass
        elif r < 0.65:
            data += be32(0) + C.rbytes(rng, rng.choice([0, 1, 4, 9]))
        elif r < 0.8:
            data += C.rbytes(rng, rng.choice([1, 2, 3]))  # a short read is still interpreted as a step
            exp = None
        else:
            data = data[: rng.randrange(0, len(data) + 1)]
            exp = None
        yield emit("rc", f"rc {C.hx(data)}", exp)
        yield emit("cfg", f"cfg - 11 3 {C.hx(data)}", ("ok " + exp) if exp is not None else None)

    # ---------------- execute lists
    def rname(rng, odd):
        base = rng.choice([b"ntdll", b"kernel32.dll", b"RtlUserThreadStart", b"LoadLibraryA", b"a", b"", b"x" * 40])
        if not odd:
            return base
        return rng.choice([base + b"\x00x", "é".encode(), "😀€".encode(), b"\xff", b"\xc3", b"\xed\xa0\x80", b"\xc0\x80", b"\xf4\x90\x80\x80",
                           b'q"q', b"a!b", b"a+0x1", b"\xe0\x9f\x80", b"\xf0\x8f\x80\x80", b"\xe2\x82", b"\x00a", C.rbytes(rng, 3),
                           "߿ࠀ￿\U00010000\U0010ffff".encode(), b"\xef\xbf\xbe", b"\xf1\x80\x80\x80", b"\xf5\x80\x80\x80", b"\x80"])

    for op in range(0, 12):
        if mine():
            items = [(op,)] if op not in (6, 7) else [(op, 0, b"m", 1, b"f", 1)]
            if op == 0:
                yield emit("ex", "ex x00", "ok []")
            else:
                data = enc_execute(items + [(1,)])
                exp = view_execute(items + [(1,)])
                yield emit("ex", f"ex {C.hx(data)}", exp)
                yield emit("cfg", f"cfg - 51 3 {C.hx(data)}", exp)
    for _ in range(vol(5000, 50000)):
        n = rng.choice([0, 1, 2, 3, 4, 6])
        items, wf = [], True
        for _ in range(n):
            op = rng.choice([1, 2, 3, 4, 5, 6, 7, 8, 6, 7, 6, 7, rng.randrange(9, 256)])
            if op in (6, 7):
                odd = rng.random() < 0.2
                wf = wf and not odd
                items.append((op, rng.choice([0, 0, 1, 0x21, 0x100, 0xFFFF]), rname(rng, odd), rng.choice([0, 1, 1, 3]),
                              rname(rng, odd and rng.random() < 0.5), rng.choice([0, 1, 1, 3])))
            else:
                items.append((op,))
        data = enc_execute(items)
        r = rng.random()
        if r < 0.3:
            data += b"\x00" + C.rbytes(rng, rng.choice([0, 1, 5]))
        elif r < 0.4:
            data = data[: rng.randrange(0, len(data) + 1)]
            wf = False
        exp = view_execute(items) if wf else None
        yield emit("ex", f"ex {C.hx(data)}", exp)
        yield emit("cfg", f"cfg - 51 3 {C.hx(data)}", exp)

    # ---------------- process-inject transforms
    for _ in range(vol(2500, 25000)):
        app, pre = rarg(rng), rarg(rng)
        data = enc_injt(app, pre)
        r = rng.random()
        exp = show_it([("append", app), ("prepend", pre)])
        if r < 0.15:
            data += C.rbytes(rng, rng.choice([1, 4, 7]))
        elif r < 0.35:
            data = data[: rng.randrange(0, len(data) + 1)]
            exp = None
        elif r < 0.4:
            data = C.rbytes(rng, rng.choice([0, 1, 2, 3, 4, 5]))
            exp = None
        yield emit("it", f"it {C.hx(data)}", exp)
        yield emit("cfg", f"cfg - {rng.choice([46, 47])} 3 {C.hx(data)}", ("ok " + exp) if exp is not None else None)

    # ---------------- gargle tables
    for _ in range(vol(2500, 25000)):
        rows = []
        for _ in range(rng.choice([0, 1, 2, 3, 6])):
            r = rng.random()
            if r < 0.25:
                rows.append((0, 0))
            elif r < 0.35:
                rows.append((0, rng.getrandbits(32)))
            elif r < 0.45:
                rows.append((rng.getrandbits(32), 0))
            else:
                rows.append((rng.choice([1, 0x1000, 0xFFFFFFFF, rng.getrandbits(32)]), rng.choice([15, 0x2A000, rng.getrandbits(32)])))
        data = enc_gargle(rows)
        exp = view_gargle(rows)
        if rng.random() < 0.3:
            data += C.rbytes(rng, rng.randrange(1, 8)) if rng.random() < 0.7 else bytes(rng.randrange(1, 8))
            exp = None
        yield emit("gg", f"gg {C.hx(data)}", exp)
        yield emit("cfg", f"cfg - 42 3 {C.hx(data)}", ("ok " + exp) if exp is not None else None)

    # ---------------- pivot frames
    for length in list(range(0, 10)) + [0xFF, 0x100, 0xFFFF]:
        for dl in (0, 1, 3, 4, 5, 8):
            if not mine():
                continue
            data = be16(length) + bytes(range(65, 65 + dl))
            yield emit("pv", f"pv {C.hx(data)}")
            yield emit("cfg", f"cfg - {57 + (dl & 1)} 3 {C.hx(data)}")
    for d in (b"", b"\x00", b"\x05", b"\xff"):
        if mine():
            yield emit("pv", f"pv {C.hx(d)}")
    for _ in range(vol(1500, 15000)):
        d = rarg(rng)
        data = enc_pivot(d)
        exp = C.hx(d)
        r = rng.random()
        if r < 0.3:
            data += C.rbytes(rng, rng.choice([1, 4]))
        elif r < 0.45:
            data = data[: rng.randrange(0, len(data) + 1)]
            exp = None
        yield emit("pv", f"pv {C.hx(data)}", exp)
        yield emit("cfg", f"cfg - {rng.choice([57, 58])} 3 {C.hx(data)}", ("ok " + exp) if exp is not None else None)

    # ---------------- BeaconGate vectors
    def gate_cases(flags, extra=b""):
        data = bytes(flags) + extra
        exp = view_gate(flags) if len(flags) >= 23 else "exc EOFError"
        yield emit("gate", f"gate {C.hx(data)}", exp)
        yield emit("cfg", f"cfg - 78 3 {C.hx(data)}", exp)

    vectors = []
    for i in range(23):
        vectors.append([1 if j == i else 0 for j in range(23)])       # single flag
        vectors.append([0 if j == i else 1 for j in range(23)])       # all but one
    group_idx = {"Comms": range(0, 2), "Core": range(2, 22), "Cleanup": range(22, 23)}
    for mask in range(8):
        on = [g for b, g in enumerate(group_idx) if mask >> b & 1]
        base = [0] * 23
        for g in on:
            for j in group_idx[g]:
                base[j] = 1
        vectors.append(list(base))
        for g in group_idx:
            if g in on:
                continue
            for j in group_idx[g]:
                v = list(base)
                v[j] = 1                                                # one member of a missing group on
                vectors.append(v)
                w = list(base)
                for jj in group_idx[g]:
                    w[jj] = 1
                w[j] = 0                                                # all but one member of a further group
                vectors.append(w)
    for v in vectors:
        if mine():
            yield from gate_cases(v)
            yield from gate_cases([x * rng.choice([2, 0x80, 0xFF]) for x in v], extra=C.rbytes(rng, rng.choice([0, 1, 9])))
    for n in list(range(0, 23)) + [24, 30]:
        if mine():
            yield from gate_cases([1] * min(n, 23), extra=b"\x01" * max(0, n - 23))
    for _ in range(vol(3000, 25000)):
        p = rng.choice([0.1, 0.5, 0.9, 0.97])
        yield from gate_cases([rng.choice([1, 1, 1, 2, 255]) if rng.random() < p else 0 for _ in range(23)])

    # ---------------- NUL-terminated strings, digest pre-image
    def rstr(rng):
        n = rng.choice([0, 1, 2, 5, 16, 64])
        r = rng.random()
        if r < 0.3:
            body = bytes(rng.choice([0, 0, 65, 66, 0x80, 0xFF, 0xE9, 44, 47]) for _ in range(n))
        elif r < 0.6:
            body = bytes(rng.randrange(32, 127) for _ in range(n)) + bytes(rng.choice([0, 1, 4])) + C.rbytes(rng, rng.choice([0, 3]))
        else:
            body = C.rbytes(rng, n)
        return body

    for b in range(256):
        if mine():
            d = bytes([65, b, 66, 0, b])
            yield emit("nts", f"nts {C.hx(d)}", "s" + d.split(b"\x00")[0].hex())
            yield emit("ntb", f"ntb {C.hx(d)}", C.hx(d.split(b"\x00")[0]))
    for _ in range(vol(3000, 30000)):
        d = rstr(rng)
        head = d.split(b"\x00")[0]
        yield emit("nts", f"nts {C.hx(d)}", "s" + head.hex())
        yield emit("ntb", f"ntb {C.hx(d)}", C.hx(head))
        idx = rng.choice(K_NULLSTR)
        if not (idx == 9 and len(d) == 128):
            yield emit("cfg", f"cfg - {idx} 3 {C.hx(d)}", "ok s" + head.hex())
        yield emit("cfg", f"cfg - 36 3 {C.hx(d)}", "ok " + C.hx(head))
        pre = d
        while pre.endswith(b"\x00"):
            pre = pre[:-1]
        yield emit("pk", f"pk {C.hx(d)}", "t" + pre.hex())
        dg = hashlib.sha256(pre).digest()
        yield emit("cfg", f"cfg {C.hx(pre)}:{C.hx(dg)} 7 3 {C.hx(d)}", "ok t" + dg.hex())
        yield emit("cfg", f"cfg - {rng.choice(K_HEX)} 3 {C.hx(d)}", "ok t" + d.hex())

    # ---------------- DNS idle, BOF allocator, protocol names, plain settings
    def quad(x):
        return ".".join(str((x >> s) & 255) for s in (24, 16, 8, 0))

    dns_vals = [0, 1, 255, 256, 65535, 65536, 1 << 24, (1 << 24) - 1, 0x7F000001, 0x08080808, 0xFFFFFFFF, 0x01020304]
    for x in dns_vals + [1 << 32, (1 << 32) + 5, 1 << 40]:
        if mine():
            yield emit("dns", f"dns {x}", ("ok " + quad(x)) if x < (1 << 32) else "exc ValueError")
    for _ in range(vol(1500, 15000)):
        x = rng.getrandbits(32) if rng.random() < 0.8 else rng.choice(dns_vals)
        yield emit("dns", f"dns {x}", "ok " + quad(x))
        yield emit("cfg", f"cfg - 19 2 {C.hx(be32(x))}", "ok t" + quad(x))
        if rng.random() < 0.1:
            yield emit("cfg", f"cfg - 19 1 {C.hx(be16(x & 0xFFFF))}", "ok t" + quad(x & 0xFFFF))
    for x in list(range(0, 8)) + [255, 256, 65535, 65536, 1 << 31]:
        if mine():
            yield emit("bof", f"bof {x}", BOF.get(x, "None"))
            if x < 65536:
                yield emit("cfg", f"cfg - 16 1 {C.hx(be16(x))}", "ok " + (("t" + BOF[x]) if x in BOF else "None"))
    for x in range(0, 130):
        if mine():
            yield emit("proto", f"proto {x}", PROTO.get(x) if x in PROTO else None)
    for _ in range(vol(1500, 15000)):
        x = rng.choice([rng.getrandbits(5), rng.getrandbits(8), rng.getrandbits(16), rng.getrandbits(32), 1 << rng.randrange(0, 33)])
        yield emit("proto", f"proto {x}", PROTO.get(x) if x in PROTO else None)
    for _ in range(vol(1500, 15000)):
        idx = rng.choice([1, 2, 3, 4, 5, 17, 18, 20, 31, 37, 40, 41, 43, 44, 45, 50, 52, 55, 59, 67, 71, 76, 77, 36, 36, 100, 200, 75])
        typ = rng.choice([1, 2, 3, 0])
        n = {1: rng.choice([2, 2, 2, 0, 1, 3]), 2: rng.choice([4, 4, 4, 0, 2, 5])}.get(typ, rng.choice([0, 1, 4, 16]))
        val = C.rbytes(rng, n)
        if idx == 36 and typ != 1:
            typ = 3
        if typ == 1:
            exp = f"ok i{int.from_bytes(val[:2], 'big')}"
        elif typ == 2:
            exp = f"ok i{int.from_bytes(val[:4], 'big')}"
        elif idx == 36:
            exp = "ok " + C.hx(val.split(b"\x00")[0])
        else:
            exp = "ok " + C.hx(val)
        yield emit("cfg", f"cfg - {idx} {typ} {C.hx(val)}", exp)

    # ---------------- derived properties
    def rdomains(rng):
        names = [b"a.example.com", b"b.example.com", b"10.0.0.1", b"", b"c\xe9", b"a.example.com"]
        paths = [b"/x", b"/__utm.gif", b"/x", b"", b"/\xff", b"/en_US/all.js"]
        if rng.random() < 0.3:
            # spellings that a normalising rewrite would merge (case, trailing dot, surrounding blanks, percent-escapes): the
            # property is about the strings as encoded
            names = names + [b"A.Example.com", b"A.EXAMPLE.COM", b"a.example.com.", b" a.example.com", b"a.example.com ", b"C\xc9", b"010.0.0.1"]
            paths = paths + [b"/X", b"/x/", b"/x ", b"/%78", b"//x", b"/en_us/all.js"]
        n = rng.choice([0, 1, 2, 3, 4, 5, 7])
        items = []
        for i in range(n):
            items.append(rng.choice(names) if i % 2 == 0 else rng.choice(paths))
        if rng.random() < 0.2 and items:
            items.insert(rng.randrange(0, len(items) + 1), b"")
        txt = b",".join(items)
        pad = rng.choice([b"", b"\x00", b"\x00" * 5, b"\x00junk,more", b"\x00,"])
        return items, txt + pad

    def pack_settings(ss):
        return b"".join(tlv(i, t, v) for i, t, v in ss)

    for _ in range(vol(6000, 60000)):
        ss = []
        pool = [1, 2, 7, 8, 16, 17, 18, 31, 37, 40]
        chosen = [i for i in pool if rng.random() < 0.6]
        if rng.random() < 0.25:
            chosen += [rng.choice(pool)]
        rng.shuffle(chosen)
        for i in chosen:
            if i == 1:
                ss.append((1, 1, be16(rng.choice([0, 1, 2, 4, 8, 16, 0, 8, 3, 24, 32, 33, rng.getrandbits(16)]))))
            elif i == 2:
                ss.append((2, 1, be16(rng.choice([80, 443, 0, 65535, rng.getrandbits(16)]))))
            elif i == 7:
                ss.append((7, 3, C.rbytes(rng, rng.choice([0, 3, 16])) + bytes(rng.choice([0, 1, 7]))))
            elif i == 8:
                ss.append((8, 3, rdomains(rng)[1]))
            elif i == 16:
                ss.append((16, 1, be16(rng.choice([0, 1, 2, 2020, 2016, 9999]))))
            elif i == 17:
                ss.append((17, 1, be16(rng.choice([0, 1, 12, 6]))))
            elif i == 18:
                ss.append((18, 1, be16(rng.choice([0, 1, 31, 15]))))
            elif i == 31:
                ss.append((31, 1, be16(rng.choice([0, 1, 1, 2, 256]))))
            elif i == 37:
                ss.append((37, 2, be32(rng.choice([0, 1, 305419896, 0xFFFFFFFF, rng.getrandbits(32)]))))
            elif i == 40:
                ss.append((40, 2, be32(rng.choice([0, 0, 20201231, 20210102, 2020123, 202012, 20201, 2020, 999, 7, 99999999, 100000000,
                                                   0xFFFFFFFF, 10000101, rng.getrandbits(32), rng.getrandbits(27), rng.getrandbits(20)]))))
        line = "der " + " ".join(f"{i} {t} {C.hx(v)}" for i, t, v in ss)
        yield emit("der", line.strip() if ss else "der")


# ----------------------------------------------------------------------------------------------------------
# adapter to the real library
# ----------------------------------------------------------------------------------------------------------
class _IdHash:
    def __init__(self, data):
        self.data = bytes(data)

    def hexdigest(self):
        return self.data.hex()


class _IdHashlib:
    sha256 = _IdHash


def _prop(fn):
    try:
        return "ok", fn()
    except Exception as e:  # noqa: BLE001
        for cls in (EOFError, IndexError, KeyError, OverflowError, ValueError, OSError, AttributeError, TypeError):
            if isinstance(e, cls):
                return "exc", cls.__name__
        return "exc", type(e).__name__


def impl(stream, line):
    w = line.split()
    if stream == "g-arg":
        return "ok " + pshow(getattr(B, G_FUNCS[w[1]])(G_ARGS[w[2]]))
    if stream == "pyu":
        r = PYU_OPS[w[1]](*[pparse(t) for t in w[2:]])
        if w[1] in ("truthy", "isnone", "eq"):
            return pshow(r)
        return "ok " + pshow(r)
    if stream.startswith("g-"):
        # the same real functions; exceptions are reported by the runner as `exc <name>`
        base = stream[2:]
        if base in ("ex",):
            return impl(base, line[1:])
        return "ok " + impl(base, line[1:])
    if stream == "tr":
        return show_tr(B.parse_transform_binary(C.unhx(w[2]), **C.drop_defaults(line, {"build": "metadata"}, build=w[1])))
    if stream == "rc":
        return show_rc(B.parse_recover_binary(C.unhx(w[1])))
    if stream == "ex":
        return "ok " + show_ex(B.parse_execute_list(C.unhx(w[1])))
    if stream == "it":
        return show_it(B.parse_process_injection_transform_steps(C.unhx(w[1])))
    if stream == "gg":
        return show_list(B.parse_gargle(C.unhx(w[1])))
    if stream == "pv":
        return C.hx(B.parse_pivot_frame(C.unhx(w[1])))
    if stream == "gate":
        return "ok " + show_gate(B.beacon_gate_options_string(B.parse_beacon_gate(C.unhx(w[1]))))
    if stream == "nts":
        return show_lstr(B.null_terminated_str(C.unhx(w[1])))
    if stream == "ntb":
        return C.hx(B.null_terminated_bytes(C.unhx(w[1])))
    if stream == "pk":
        saved = B.hashlib
        B.hashlib = _IdHashlib
        try:
            return "t" + B.sha256sum_pubkey(C.unhx(w[1]))
        finally:
            B.hashlib = saved
    if stream == "dns":
        return "ok " + B.SETTING_TO_PRETTYFUNC[B.BeaconSetting.SETTING_DNS_IDLE](int(w[1]))
    if stream == "bof":
        return show_name(B.SETTING_TO_PRETTYFUNC[B.BeaconSetting.SETTING_BOF_ALLOCATOR](int(w[1])))
    if stream == "proto":
        return show_name(B.BeaconProtocol(int(w[1])).name)
    if stream == "cfg":
        index, typ, val = int(w[2]), int(w[3]), C.unhx(w[4])
        cfg = B.BeaconConfig(tlv(index, typ, val))
        settings = cfg.settings
        by_index = cfg.settings_by_index
        if len(settings) != 1 or list(by_index.keys()) != [index]:
            raise RuntimeError(f"harness: TLV block did not yield exactly one setting: {dict(settings)!r}")
        v = next(iter(settings.values()))
        v2 = by_index[index]
        r = render_pretty(index, typ, v)
        if render_pretty(index, typ, v2) != r:
            return "settings and settings_by_index disagree"
        return "ok " + r
    if stream == "der":
        ss = [(int(w[i]), int(w[i + 1]), C.unhx(w[i + 2])) for i in range(1, len(w), 3)]
        cfg = B.BeaconConfig(b"".join(tlv(i, t, v) for i, t, v in ss))

        def lat(s):
            return "none" if s is None else C.hx(s.encode("latin-1"))

        pairs = show_list([lat(a) + ":" + lat(b) for a, b in cfg.domain_uri_pairs])
        us = show_list([lat(u) for u in cfg.uris])
        ds = show_list([lat(d) for d in cfg.domains])
        st, kd = _prop(lambda: cfg.killdate)
        kd = f"{st}_{kd}"
        st, pr = _prop(lambda: cfg.protocol)
        pr = show_name(pr) if st == "ok" else f"exc_{pr}"
        return (f"pairs={pairs} uris={us} domains={ds} kd={kd} proto={pr} port={show_raw(cfg.port)} wm={show_raw(cfg.watermark)} "
                f"trial={C.tf(cfg.is_trial)} pk={C.hx(cfg.public_key)}")
    raise RuntimeError("unknown stream " + stream)


def nontrivial(stream, line, out):
    if out.startswith("exc ") or "unmodelled" in out:
        return False
    if stream == "pyu":
        return True
    if stream.startswith("g-"):
        return out[3:] not in ("[]", "x", "s")
    if stream == "der":
        return len(line.split()) > 1
    body = out[3:] if out.startswith("ok ") else out
    return body not in ("[]", "x", "s", "t", "None", "[] {}")


# ----------------------------------------------------------------------------------------------------------
# independent oracle
# ----------------------------------------------------------------------------------------------------------
def _der_expect(ss):
    """Property-level expectation for the derived values, from the settings the harness encoded (last duplicate wins)."""
    last = {}
    for i, t, v in ss:
        last[i] = (t, v)

    def intval(i):
        if i not in last:
            return None
        t, v = last[i]
        return int.from_bytes(v[:2] if t == 1 else v[:4], "big")

    out = {}
    if 8 in last:
        txt = last[8][1].split(b"\x00")[0]
        items = txt.split(b",")
        pairs = [(items[j], items[j + 1] if j + 1 < len(items) else None) for j in range(0, len(items), 2)]
    else:
        pairs = []

    def hb(b):
        return "none" if b is None else C.hx(b)

    def uniq(xs):
        seen, r = set(), []
        for x in xs:
            if x not in seen:
                seen.add(x)
                r.append(x)
        return r

    out["pairs"] = show_list([hb(a) + ":" + hb(b) for a, b in pairs])
    out["uris"] = show_list([hb(u) for u in uniq([b for _, b in pairs])])
    out["domains"] = show_list([hb(d) for d in uniq([a for a, _ in pairs])])
    p = intval(1)
    out["proto"] = "None" if p is None else (PROTO[p] if p in PROTO else None)  # None = property silent (undefined flag value)
    out["port"] = "None" if intval(2) is None else f"i{intval(2)}"
    out["wm"] = "None" if intval(37) is None else f"i{intval(37)}"
    out["trial"] = C.tf(intval(31) == 1)
    pk = last[7][1] if 7 in last else b""
    while pk.endswith(b"\x00"):
        pk = pk[:-1]
    out["pk"] = C.hx(pk)
    kd = intval(40)
    if kd:
        s = str(kd)
        out["kd"] = f"ok_{int(s[:4]):02d}-{int(s[4:6]):02d}-{int(s[6:8]):02d}" if len(s) >= 7 else "exc_ValueError"
    else:
        y, m, d = intval(16), intval(17), intval(18)
        if y and m and d:
            # legacy (Cobalt Strike < 3.12) kill date; the library's fallback branch is unreachable (see KILLDATE_FINDING)
            out["kd"] = f"ok_{y:02d}-{m:02d}-{d:02d}" if KILLDATE_FINDING in _KNOWN_IDS else None
        else:
            out["kd"] = "ok_None"
    return out


def ref_decode_transform(data):
    """Strict reference decoder (inverse of enc_transform) for well-formed programs only; None otherwise.
    Used when a line is not in EXPECT (shrunk candidates, replays)."""
    steps, i = [], 0
    while i < len(data):
        if len(data) - i < 4:
            return steps  # padding shorter than an opcode
        op = int.from_bytes(data[i:i + 4], "big")
        i += 4
        if op == 0:
            return steps
        if op == 7:
            if len(data) - i < 4:
                return None
            steps.append(("build", int.from_bytes(data[i:i + 4], "big")))
            i += 4
        elif op in TS_ENABLE:
            steps.append(("en", op))
        elif op in TS_ARG:
            if len(data) - i < 4:
                return None
            n = int.from_bytes(data[i:i + 4], "big")
            i += 4
            if len(data) - i < n:
                return None
            steps.append(("arg", op, data[i:i + n]))
            i += n
        else:
            steps.append(("skip", op))
    return steps


def ref_decode_recover(data):
    steps, i = [], 0
    while i < len(data):
        if len(data) - i < 4:
            return None
        op = int.from_bytes(data[i:i + 4], "big")
        i += 4
        if op == 0:
            return steps
        if op in RC_LEN:
            if len(data) - i < 4:
                return None
            steps.append((op, int.from_bytes(data[i:i + 4], "big")))
            i += 4
        else:
            steps.append((op, 0))
    return steps


def oracle(stream, line, out):
    if stream.startswith("g-") or stream == "pyu":
        return None
    if (stream, line) not in EXPECT and stream in ("tr", "rc"):
        w = line.split()
        if stream == "tr":
            p = ref_decode_transform(C.unhx(w[2]))
            return None if p is None else out == view_transform(p, w[1])
        p = ref_decode_recover(C.unhx(w[1]))
        return None if p is None else out == view_recover(p)
    if stream == "der":
        w = line.split()
        ss = [(int(w[i]), int(w[i + 1]), C.unhx(w[i + 2])) for i in range(1, len(w), 3)]
        exp = _der_expect(ss)
        got = dict(tok.split("=", 1) for tok in out.split()) if not out.startswith("exc ") else None
        if got is None:
            return False
        return all(v is None or got.get(k) == v for k, v in exp.items())
    exp = EXPECT.get((stream, line))
    if exp is None:
        return None
    return out == exp


def known(stream, line, known_list):
    if stream != "der":
        return None
    ids = {k["id"] for k in known_list}
    if KILLDATE_FINDING not in ids:
        return None
    w = line.split()
    last = {}
    for i in range(1, len(w), 3):
        last[int(w[i])] = int.from_bytes(C.unhx(w[i + 2])[:4 if int(w[i + 1]) == 2 else 2], "big")
    if not last.get(40) and last.get(16) and last.get(17) and last.get(18):
        return KILLDATE_FINDING
    return None


def shrink(stream, line):
    yield from C.shrink_tokens(line)

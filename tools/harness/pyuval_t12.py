"""`pyu` stream of C12: the operations that lean/CsVerif/Model/PyU_T12.lean adds to the run-time library of the untyped translator
(`repr`, `ord`, `chr`, `bytes`, `int(x, base)`, `str.replace`, `str.join`, attribute assignment), each run against CPython on random
operands of all kinds.  Value notation: tools/harness/pyuval.py / lean/CsVerif/Model/PyUShow.lean, with the two classes of
Gen/PyC2Prof.lean: `I0[type;value]` = `lark.Token(type, value)`, `I1[buffer;index]` = a `StringIterator` with these attributes.
"""
from __future__ import annotations

from lark import Token

from dissect.cobaltstrike import c2profile as cp

from . import pyuval as P


def pshow(v) -> str:
    if type(v) is Token:
        return f"I0[{pshow(v.type)};{pshow(v.value)}]"
    if type(v) is cp.StringIterator:
        return f"I1[{pshow(v.buffer)};{pshow(v.index)}]"
    if type(v) is list:
        return "L[" + ";".join(pshow(x) for x in v) + "]"
    if type(v) is tuple:
        return "U[" + ";".join(pshow(x) for x in v) + "]"
    if type(v) is dict:
        return "D[" + ";".join(pshow(x) for x in v.keys()) + "|" + ";".join(pshow(x) for x in v.values()) + "]"
    if type(v) in P.CLASSES:
        raise RuntimeError("pshow: a class of another unit")
    return P.pshow(v)


def pparse(tok: str):
    v, rest = _pv(tok, 0)
    if rest != len(tok):
        raise RuntimeError("pparse: trailing text in " + tok)
    return v


def _pl(s, i):
    out = []
    while s[i] not in "]|":
        v, i = _pv(s, i)
        out.append(v)
        if s[i] == ";":
            i += 1
    return out, i


def _pv(s, i):
    c = s[i]
    if c in "LU":
        xs, j = _pl(s, i + 2)
        return (xs if c == "L" else tuple(xs)), j + 1
    if c == "D":
        ks, j = _pl(s, i + 2)
        vs, j = _pl(s, j + 1)
        return dict(zip(ks, vs)), j + 1
    if c == "I":
        d, j = P._span(s, i + 1, str.isdigit)
        xs, j = _pl(s, j + 1)
        if d == "0":
            return Token(*xs), j + 1
        it = cp.StringIterator("")
        it.buffer, it.index = xs
        return it, j + 1
    return P._pv(s, i)


# ---------------------------------------------------------------------------------------------------------------------
# random operands
# ---------------------------------------------------------------------------------------------------------------------
HEXISH = ["ff", "7F", "0x1f", "0X_a", " 1f ", "+a", "-0", "1_0", "_1", "1_", "1__0", "0x", "", " ", "g", "0b1", "0o7", "z", "Zz", "١٢", "\xa01\x85",
          "1\x000", "\x1c1", "12", "10"]


def rinst(rng, depth):
    if rng.random() < 0.5:
        return Token(rng.choice(["STRING", "NAME", "", 5, None]), rng.choice([P.rstr(rng), P.rbytes(rng), None, 7]))
    it = cp.StringIterator(P.rstr(rng))
    it.index = rng.choice([0, 1, 2, -1, 5])
    return it


def value(rng, depth=0):
    r = rng.random()
    if r < 0.05:
        return None
    if r < 0.1:
        return rng.random() < 0.5
    if r < 0.25:
        return P.rint(rng)
    if r < 0.45:
        return P.rbytes(rng)
    if r < 0.65:
        return P.rstr(rng)
    if depth >= 2:
        return P.rstr(rng)
    if r < 0.77:
        return [value(rng, depth + 1) for _ in range(rng.choice([0, 1, 2, 3]))]
    if r < 0.87:
        return tuple(value(rng, depth + 1) for _ in range(rng.choice([0, 1, 2, 3])))
    if r < 0.94:
        d = {}
        for _ in range(rng.choice([0, 1, 2])):
            d[rng.choice([P.rbytes, P.rstr, P.rint])(rng)] = value(rng, depth + 1)
        return d
    return rinst(rng, depth)


def _setattr(x, name, v):
    setattr(x, name, v)
    return x


OPS = {
    "reprv": repr, "ord": ord, "chr": chr, "bytes": bytes, "intbase": lambda x, b: int(x, b),
    "strreplace": lambda x, a, b: x.replace(a, b), "join": lambda s, xs: s.join(xs), "setattr": _setattr,
}
ARITY = {"reprv": 1, "ord": 1, "chr": 1, "bytes": 1, "intbase": 2, "strreplace": 3, "join": 2, "setattr": 3}


def _has(v, pred) -> bool:
    if pred(v):
        return True
    if isinstance(v, (list, tuple)):
        return any(_has(x, pred) for x in v)
    if isinstance(v, dict):
        return any(_has(x, pred) for x in list(v.keys()) + list(v.values()))
    return False


def _obj(v) -> bool:
    return type(v) in (Token, cp.StringIterator)


def modelled(op, args) -> bool:
    """operand kinds PyU_T12.lean / PyU.lean state as 'not modelled' are left out"""
    a = args[0]
    if op != "setattr" and any(_has(x, _obj) for x in args):
        return False            # a Token is a str; instances of plain classes have an identity-based repr
    if op == "reprv":
        return not _has(a, lambda x: isinstance(x, dict) or P._unprintable_hi(x))
    if op == "bytes":
        return not (type(a) is int and a > 10 ** 6)
    if op == "intbase":
        return not (type(args[1]) in (int, bool) and args[1] == 0)
    if op == "setattr":
        if not isinstance(args[1], str) or not args[1].isidentifier() or args[1].startswith("_"):
            return False
        if type(a) is Token:
            return args[1] in ("type", "value")
        if type(a) is cp.StringIterator:
            return args[1] in ("buffer", "index")
        return not _has(a, _obj)
    return True


def case(rng):
    op = rng.choice(sorted(OPS))
    a = value(rng)
    if op == "ord" and rng.random() < 0.7:
        a = rng.choice(["a", "\xff", "Ā", "\U0001f600", "", "ab", b"a", b"", b"ab", b"\xff"])
    elif op == "chr" and rng.random() < 0.7:
        a = rng.choice([0, 65, 255, 256, 0xD800, 0x10FFFF, 0x110000, -1, 2 ** 31 - 1, 2 ** 31, -2 ** 31, -2 ** 31 - 1, 2 ** 64, True])
    elif op == "bytes" and rng.random() < 0.7:
        a = rng.choice([[rng.choice([0, 1, 255, 256, -1, True, None, "a", b"a", 65]) for _ in range(rng.randrange(0, 4))],
                        tuple(rng.choice([0, 7, 255, 300]) for _ in range(rng.randrange(0, 3))), rng.choice([0, 1, 3, -1, True, False]),
                        {65: 1, 66: 2}, {256: 1}, {"a": 1}, 2 ** 63, 2 ** 64])
    elif op == "intbase" and rng.random() < 0.85:
        if rng.random() < 0.5:
            a = rng.choice(HEXISH)
        else:
            a = "".join(rng.choice("0123456789abcdefABCDEFxX_+- \t\n\x0b\x0c\r\x00\x1c\x1f\x85\xa0zZgob١") for _ in range(rng.choice([0, 1, 2, 2, 2, 3, 4])))
        if rng.random() < 0.15:
            try:
                a = a.encode("latin-1")
            except UnicodeEncodeError:
                pass
    elif op in ("strreplace", "join") and rng.random() < 0.85:
        a = P.rstr(rng) if rng.random() < 0.7 else P.rbytes(rng)
    elif op == "setattr" and rng.random() < 0.7:
        a = rinst(rng, 0)
    args = [a]
    if op == "intbase":
        args.append(rng.choice([16, 16, 16, 2, 8, 10, 36, 35, 4, 32, 3, 1, 37, -1, 0, True, None, "16", 2 ** 70]))
    elif op == "strreplace":
        def piece():
            if isinstance(a, (str, bytes)) and len(a) > 0 and rng.random() < 0.6:
                i = rng.randrange(0, len(a))
                return a[i:i + rng.choice([0, 1, 1, 2])]
            return rng.choice(["", "a", "\\'", '"', b"", b"a", b"\r\n", None, 5]) if rng.random() < 0.8 else value(rng, 1)
        args += [piece(), piece()]
    elif op == "join":
        r = rng.random()
        if r < 0.6:
            items = [rng.choice([P.rstr, P.rstr, P.rbytes])(rng) if rng.random() < 0.9 else value(rng, 1) for _ in range(rng.randrange(0, 4))]
            if isinstance(a, bytes) and rng.random() < 0.7:
                items = [P.rbytes(rng) for _ in items]
            elif isinstance(a, str) and rng.random() < 0.7:
                items = [P.rstr(rng) for _ in items]
            args.append(items if rng.random() < 0.7 else tuple(items))
        else:
            args.append(value(rng, 1))
    elif op == "setattr":
        args += [rng.choice(["type", "value", "buffer", "index", "x", "count"]), value(rng, 1)]
    if not modelled(op, args):
        return None
    try:
        return "pyu " + op + " " + " ".join(pshow(x) for x in args)
    except RuntimeError:
        return None


def run(line: str) -> str:
    """the real operation on the operands of a `pyu` line"""
    w = line.split()
    r = OPS[w[1]](*[pparse(t) for t in w[2:]])
    return "ok " + pshow(r)

"""`pyu` / `g-arg` / `g-sel` helpers for the operations of lean/CsVerif/Model/PyU_T17.lean (guardrails.py, property C17): the text
notation of the objects of guardrails.py, random operands of all kinds, and the reference implementation (CPython itself /
dissect.cstruct / the real functions of utils.py and guardrails.py).

Notation (extends tools/harness/pyuval.py = `PyU.vShow`): a cstruct enum member `E30:<v>` (GuardOption) / `E31:<v>` (SettingsType),
a `GuardrailSetting` instance `I32[option;type;length;value]`, a `GuardrailMetadata` record `I33[<the 11 fields>]`, a file object
`I9000[b<data hex>;i<pos>;i<kind>]` (tools/harness/pyuval_t15.py).
"""
from __future__ import annotations

import collections
import io

from dissect.cobaltstrike import guardrails as G
from dissect.cobaltstrike import utils as U

from . import pyuval, pyuval_t15

META_FIELDS = ["beacon_config_offset", "guard_config_offset", "masked_beacon_config", "masked_guard_config", "beacon_xor_key",
               "guardrail_xor_key", "unmasked_guard_config", "checksum", "payload_xor_key", "unmasked_beacon_config", "settings"]
SettingsType = G.c_guardrails.SettingsType


def show(v) -> str:
    if isinstance(v, pyuval_t15.FileSpec):
        return v.tok()
    if type(v) is G.GuardOption:
        return f"E30:{int(v.value)}"
    if type(v) is SettingsType:
        return f"E31:{int(v.value)}"
    if type(v) is G.GuardrailSetting:
        return "I32[" + ";".join(show(getattr(v, f)) for f in ("option", "type", "length", "value")) + "]"
    if type(v) is G.GuardrailMetadata:
        return "I33[" + ";".join(show(getattr(v, f)) for f in META_FIELDS) + "]"
    if type(v) is list:
        return "L[" + ";".join(show(x) for x in v) + "]"
    if type(v) is tuple:
        return "U[" + ";".join(show(x) for x in v) + "]"
    if type(v) is dict or type(v) is collections.Counter:
        return "D[" + ";".join(show(x) for x in v.keys()) + "|" + ";".join(show(x) for x in v.values()) + "]"
    if isinstance(v, int) and type(v) not in (int, bool):
        return f"i{int(v)}"          # a cstruct integer (`uint16`) is an int
    if isinstance(v, bytes) and type(v) is not bytes:
        return "b" + bytes(v).hex()  # a cstruct `char[n]` value is bytes
    return pyuval.pshow(v)


def parse(tok: str):
    """an operand: a FileSpec, a metadata record (`I33[…]` at the top level or inside a top-level list) or an ordinary value"""
    if tok.startswith("I9000["):
        return pyuval_t15.parse(tok)
    if tok.startswith("I33["):
        return G.GuardrailMetadata(*[pyuval.pparse(t) for t in _split(tok[4:-1])])
    if tok.startswith("L[") and "I33[" in tok:
        return [parse(t) for t in _split(tok[2:-1])]
    return pyuval.pparse(tok)


def _split(s: str):
    """split at the `;` of nesting depth 0"""
    out, depth, cur = [], 0, ""
    for ch in s:
        if ch == "[":
            depth += 1
        elif ch == "]":
            depth -= 1
        if ch == ";" and depth == 0:
            out.append(cur)
            cur = ""
        else:
            cur += ch
    if cur or out:
        out.append(cur)
    return out


# ---------------------------------------------------------------------------------------------------------------------
# random operands
# ---------------------------------------------------------------------------------------------------------------------
def rsmall(rng):
    return rng.choice([0, 1, 2, 3, 4, 5, 7, -1, -3, True, False, 255, 256, 257, 300])


def ranyv(rng):
    return rng.choice([None, True, False, 0, 1, -2, 255, 256, b"", b"\x00", b"ab", b"\x00\x00\x01", "", "a", "ab", [1, 2], [], (1, 2), (), [0, 256],
                       [1, "a"], (255, 0, 7), {1: 2}, {}, [b"a"], (None,), 2 ** 63, 2 ** 63 - 1, -2 ** 31])


def rkeys(rng):
    alpha = [b"a", b"b", b"a", b"\x00\x00", b"", 1, 1, True, 0, False, "a", (1, 2), (1, 2), None, b"c", 2]
    ks = [rng.choice(alpha) for _ in range(rng.choice([0, 1, 2, 3, 5, 8, 13]))]
    if rng.random() < 0.1:
        ks.insert(rng.randrange(len(ks) + 1), rng.choice([[1], {}, [b"a"]]))      # unhashable
    return ks


def rsettings_bytes(rng):
    """guard-configuration-like bytes: some settings, optional terminator, optional truncation"""
    out = b""
    for _ in range(rng.choice([0, 1, 1, 2, 3])):
        v = bytes(rng.randrange(256) for _ in range(rng.choice([0, 1, 2, 4, 4, 7])))
        ln = len(v) if rng.random() < 0.85 else rng.choice([0, 1, len(v) + 3, 300, 65535])
        out += rng.choice([5, 6, 7, 8, 9, 9, 0, 77, 65535]).to_bytes(2, "big") + rng.choice([0, 1, 2, 3, 9]).to_bytes(2, "big") + ln.to_bytes(2, "big") + v
    out += rng.choice([b"", b"\x00\x00", b"\x00", b"\x00\x00\x00\x00\x00\x00\x00", b"\x00\x01"])
    if rng.random() < 0.3 and out:
        out = out[:rng.randrange(len(out) + 1)]
    return out


def case(rng):
    op = rng.choice(["range2", "grouper", "grouper", "bytes", "bytes", "cks", "newreader", "counter", "counter", "counter", "reader", "reader", "reader"])
    if op == "range2":
        args = [rng.choice([rsmall(rng), rsmall(rng), None, "1", b"", [1]]), rng.choice([rsmall(rng), rsmall(rng), rsmall(rng), None, "2", (1,)])]
    elif op == "grouper":
        it = rng.choice([bytes(rng.randrange(256) for _ in range(rng.choice([0, 1, 2, 3, 4, 5, 6, 7, 9, 12]))), b"", [1, 2, 3], (1, "a", None, b"x"), "abcde",
                         {1: 2, 3: 4, 5: 6}, None, 5, True])
        args = [it, rng.choice([1, 2, 2, 3, 3, 4, 5, 7, 0, -1, -3, True, False, None, "2", b"", [2]]), rng.choice([0, 0, 0, None, 255, b"z", "f"])]
    elif op == "bytes":
        args = [ranyv(rng)]
    elif op == "cks":
        args = [rng.choice([b"", b"\x01", b"\x01\x02\x03\xff", bytes(rng.randrange(256) for _ in range(rng.choice([5, 40, 400]))), None, 5, True, "a", "ab"])]
    elif op == "newreader":
        args = [rng.choice([None, 5, b"ab", "ab", [1], (1, 2), {}])]
    elif op == "counter":
        args = [rkeys(rng), rng.choice([2, 2, 2, 1, 3, 0, -1, 5, 100, None, True, False, "2", b"", [2]])]
    else:
        data = rsettings_bytes(rng)
        ops = []
        for _ in range(rng.choice([1, 2, 3, 4, 6])):
            ops.append(rng.choice(["p" + show(rng.choice([2, 2, 2, 0, 1, 5, -1, 100, True, None, "2", b""])), "s", "s"]))
        try:
            return "pyu reader " + show(data) + " " + " ".join(ops)
        except RuntimeError:
            return None
    if not modelled(op, args):
        return None
    try:
        return "pyu " + op + " " + " ".join(show(a) for a in args)
    except RuntimeError:
        return None


def _intlike(v) -> bool:
    return type(v) in (int, bool)


def modelled(op, args) -> bool:
    """operand kinds PyU_T17.lean states as 'not modelled' are left out"""
    if op == "range2":
        return all(_intlike(a) and abs(int(a)) < 10 ** 4 for a in args) or not all(_intlike(a) for a in args)
    if op == "bytes":
        x = args[0]
        return not (_intlike(x) and type(x) is int and 2 ** 31 <= x < 2 ** 63)
    if op == "cks":
        x = args[0]
        return type(x) is bytes or x is None or _intlike(x) or (type(x) is str and len(x) > 0)
    if op == "counter":
        return True
    return True


# ---------------------------------------------------------------------------------------------------------------------
# reference implementations
# ---------------------------------------------------------------------------------------------------------------------
def run(line: str) -> str:
    w = line.split()
    op = w[1]
    if op == "reader":
        data = pyuval.pparse(w[2])
        r = io.BufferedReader(io.BytesIO(data))
        outs = []
        for o in w[3:]:
            try:
                if o == "s":
                    outs.append(show(G.GuardrailSetting(r)))
                else:
                    outs.append(show(r.peek(pyuval.pparse(o[1:]))[:2]))
            except Exception as e:  # noqa: BLE001
                from check import canon_exc  # the runner's exception naming
                if not outs:
                    raise
                return " ".join(outs + ["exc " + canon_exc(e)])
        return "ok " + " ".join(outs)
    args = [parse(t) for t in w[2:]]
    if op == "range2":
        return "ok " + show(list(range(args[0], args[1])))
    if op == "grouper":
        return "ok " + show(list(U.grouper(args[0], args[1], args[2])))
    if op == "bytes":
        return "ok " + show(bytes(args[0]))
    if op == "cks":
        return "ok " + show(G.payload_checksum(args[0]))
    if op == "newreader":
        io.BufferedReader(args[0])
        return "ok reader"
    if op == "counter":
        c = collections.Counter()
        c.update(iter(args[0]))
        return "ok " + show(c) + " " + show(c.most_common(args[1]))
    raise RuntimeError("unknown pyu op " + op)

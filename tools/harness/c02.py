"""C02 — settings decoding (iter_settings / BeaconConfig) and the settings views: generators, adapters, oracle."""
from __future__ import annotations

import io
import itertools
import logging
import signal
import struct

from dissect.cobaltstrike import beacon as B

from . import common as C
from . import pyuval_t02

ID = "C02"
DRIVER = "drv_c02"
GEN = ["beacon"]
GEN += ["py_utils", "py_beaconcfg"]
EXTRA_PROP_FILES = ["Props/C02Gen.lean"]
G_STREAMS = ("parse", "trunc", "ua", "junk", "views", "real", "hist")
STREAMS = {
    "parse": {"relevant": True, "desc": "BeaconConfig(serialize(settings)+tail): settings_tuple, setting_enums, max_setting_enum"},
    "trunc": {"relevant": True, "desc": "every prefix of a serialized sample"},
    "ua": {"relevant": True, "desc": "User-Agent continuation edge cases"},
    "junk": {"relevant": True, "desc": "arbitrary bytes (small alphabets exhaustively, random)"},
    "views": {"relevant": True, "desc": "settings_map for 3x2x2 argument combinations + the 4 cached views, pretty functions stubbed by a tagging function"},
    "real": {"relevant": True, "desc": "the same 16 mappings with the real pretty functions, pretty results masked"},
    "hist": {"relevant": True, "desc": "sequences of accesses (4 cached properties, 12 settings_map combinations, setting_enums, "
                                       "max_setting_enum, settings_tuple) on ONE BeaconConfig object; every step also compared with a fresh object"},
    "g-parse": {"relevant": False, "desc": "iter_settings / BeaconConfig.__init__ / setting_enums / max_setting_enum TRANSLATED from their source "
                                           "(Gen/PyBeaconCfg.lean) vs the real code, on every case of parse"},
    "g-trunc": {"relevant": False, "desc": "translated definitions vs the real code on every case of trunc"},
    "g-ua": {"relevant": False, "desc": "translated definitions vs the real code on every case of ua"},
    "g-junk": {"relevant": False, "desc": "translated definitions vs the real code on every case of junk"},
    "g-views": {"relevant": False, "desc": "translated settings_map (12 combinations) and the uncached bodies of the 4 view properties "
                                           "(calling a pretty function = the tagging stub) vs the real code, on every case of views"},
    "g-real": {"relevant": False, "desc": "the same with the real pretty functions, pretty results masked, on every case of real"},
    "g-hist": {"relevant": False, "desc": "every access of every history answered by the (uncached) translated definitions vs the answers of ONE real object"},
    "g-arg": {"relevant": False, "desc": "translated iter_settings on arguments of any kind (None, int, str, list, BytesIO at any position, …) and "
                                         "translated settings_map with index_type / pretty / parse of any kind"},
    "pyu": {"relevant": False, "desc": "the operations of the translator's run-time library added for C02 (Model/PyU_T02.lean: BytesIO.seek, "
                                       "struct Setting read from a BytesIO, attribute assignment, str(), str.replace, tuple(), MappingProxyType, max) "
                                       "vs CPython / dissect.cstruct on random operands of all kinds"},
}
TRUSTED = [
    "tools/harness/c02.py generators, adapters, reference TLV decoder; line protocol parsing/rendering in lean/CsVerif/Driver/C02.lean",
    "tools/gen/beacon.py (enum value/name tables, SETTING_TO_PRETTYFUNC key set, struct Setting layout by introspection)",
    "dissect.cstruct struct/enum semantics (EOFError on short read, enum eq/hash by class+value, name resolution of aliases) and "
    "io.BytesIO, dict insertion order, int.from_bytes are modelled (Model/C02.lean, Model/PyFile.lean), not verified",
    "tools/py2leanu.py + lean/CsVerif/Model/PyU.lean, PyU_T15.lean (yield), PyU_T02.lean (untyped source-to-Lean translation of iter_settings, "
    "BeaconConfig.__init__ / settings_map / setting_enums / max_setting_enum and the uncached bodies of the four view properties; "
    "Props/C02Gen.lean proves the translated definitions equal to the hand-written model; the g-* streams run them against the real code "
    "on every case of the hand-model streams, the pyu stream runs the PyU_T02 operations against CPython / dissect.cstruct)",
]
ASSUMPTIONS = [
    "config blocks are `bytes` (BeaconConfig wraps them in io.BytesIO); iter_settings on other file objects is not modelled",
    "pretty functions are an abstract parameter: stream `views` replaces every value of SETTING_TO_PRETTYFUNC by a tagging stub "
    "(keys/dispatch untouched), stream `real` keeps the real functions and compares only keys, order and non-pretty values; "
    "inputs of `real` on which a real pretty function raises are filtered out (their content is C03's subject)",
    "the per-instance caching of the four views is modelled by four optional cache attributes (stream `hist`, theorem "
    "views_history_independent); mutation of the returned objects by callers is C14's subject",
]
RULE = ("distinct = hash of (stream, input line); non-trivial = the real code returned at least one setting "
        "(parse/trunc/ua/junk) resp. at least one non-empty mapping (views/real)")

logging.getLogger("dissect.cobaltstrike").setLevel(logging.CRITICAL)  # the real pretty functions log unknown opcodes

BS, DBS = B.BeaconSetting, B.DeprecatedBeaconSetting
DEFINED = sorted({int(m.value) for m in BS.__members__.values()})
PRETTY_VALUES = sorted({int(k.value) for k in B.SETTING_TO_PRETTYFUNC})
ALIASED = [16, 17, 36, 48]
LENGTHS = [0, 1, 2, 3, 4, 127, 128, 129, 255, 4000]


# ------------------------------------------------------------------------------------------------
# independent reference TLV decoder (the oracle; does not call the library)
# ------------------------------------------------------------------------------------------------

def ref_decode(data: bytes):
    """[(index, type, length, value, deprecated)] according to the property text."""
    out, pos, n = [], 0, len(data)
    while True:
        if data[pos:pos + 2] == b"\x00\x00":
            break
        if n - pos < 6:
            break
        idx, typ, ln = struct.unpack(">HHH", data[pos:pos + 6])
        if n - pos - 6 < ln:
            break
        val = data[pos + 6:pos + 6 + ln]
        pos += 6 + ln
        dep = False
        if idx == 9 and ln == 128 and val[127] != 0:
            j = pos
            while j < n and data[j] != 0:
                j += 1
            val += data[pos:j]
            pos = j
        elif idx == 36 and typ == 1:
            dep = True
        out.append((idx, typ, ln, val, dep))
    return out


def ck(b: bytes) -> int:
    a = 7
    for x in b:
        a = (a * 31 + x) % 4294967296
    return a


def show_bytes_short(b: bytes) -> str:
    return C.hx(b) if len(b) <= 8 else f"b{len(b)}.{ck(b)}"


def render_parsed(items) -> str:
    body = " ".join(f"{i}:{t}:{ln}:{'D' if d else 'B'}:{C.hx(v)}" for i, t, ln, v, d in items)
    enums = [i for i, *_ in items]
    mx = str(max(enums)) if enums else "exc ValueError"
    return f"ok {len(items)} {body} | enums {C.ints(enums)} | max {mx}"


_NAMES = {}
# the four values that carry two names: the newer name is the one reported (theorem alias_names; Cobalt Strike 4.x numbering)
ALIAS_REF = {16: "SETTING_BOF_ALLOCATOR", 17: "SETTING_SYSCALL_METHOD", 48: "SETTING_PROCINJ_BOF_REUSE_MEM", 36: "SETTING_WATERMARKHASH"}


def ref_name(idx: int, dep: bool) -> str:
    """Name key according to the property text: enum name (cstruct alias resolution), INJECT_OPTIONS for the deprecated
    identity, synthetic `BeaconSetting_<n>` otherwise."""
    k = (idx, dep)
    if k not in _NAMES:
        if dep:
            _NAMES[k] = "SETTING_INJECT_OPTIONS" if idx == 36 else f"DeprecatedBeaconSetting_{idx}"
        elif idx in ALIAS_REF:
            _NAMES[k] = ALIAS_REF[idx]
            return _NAMES[k]
        else:
            nm = None
            for n, m in BS.__members__.items():  # last definition wins
                if int(m.value) == idx:
                    nm = n
            _NAMES[k] = nm if nm is not None else f"BeaconSetting_{idx}"
    return _NAMES[k]


def ref_key(it: str, idx: int, dep: bool) -> str:
    if it == "name":
        return ref_name(idx, dep)
    if it == "const":
        return str(idx)
    return ("D" if dep else "B") + str(idx)


def ref_maps(items, raising, mask):
    """Expected rendering of the 16 mappings, from the reference decoding and a plain dict."""
    def one(it, pretty, parse):
        d = {}
        for idx, typ, ln, val, dep in items:
            if parse or pretty:
                if typ == 1:
                    v = "i" + str(int.from_bytes(val[:2], "big"))
                elif typ == 2:
                    v = "i" + str(int.from_bytes(val[:4], "big"))
                else:
                    v = show_bytes_short(val)
            else:
                v = show_bytes_short(val)
            if pretty and not dep and idx in PRETTY_VALUES:
                if idx in raising:
                    return "exc ValueError"
                v = "P" if mask else f"P{idx}({v})"
            d[ref_key(it, idx, dep)] = v
        return "[" + ";".join(f"{k}={v}" for k, v in d.items()) + "]"

    combos = [one(it, p, q) for it in ("name", "const", "enum") for p in (False, True) for q in (False, True)]
    views = [one("name", False, True), one("const", False, True), one("name", True, True), one("const", True, True)]
    return " | ".join(combos + views)


# ------------------------------------------------------------------------------------------------
# generators
# ------------------------------------------------------------------------------------------------

def enc(idx, typ, ln, val) -> bytes:
    return struct.pack(">HHH", idx, typ, ln) + val


def gen_index(rng, used):
    r = rng.random()
    if used and r < 0.12:
        return rng.choice(used)  # duplicate
    if r < 0.45:
        return rng.choice(DEFINED)
    if r < 0.60:
        return rng.choice(ALIASED)
    if r < 0.68:
        return 36
    if r < 0.74:
        return 9
    if r < 0.80:
        return rng.choice(PRETTY_VALUES)
    if r < 0.90:
        return rng.choice([75, 79, 80, 100, 128, 200, 254, 255, rng.randrange(79, 256)])
    return rng.choice([256, 257, 0x100 + 9, 0x100 + 36, 0x0900, 0x2400, 0x8000, 65535, 65534, rng.randrange(256, 65536)])


def gen_type(rng):
    r = rng.random()
    if r < 0.9:
        return rng.choice([0, 1, 2, 3, 1, 2, 3])
    if r < 0.97:
        return rng.randrange(4, 10)
    return rng.choice([0x0100, 0x0101, 0x0300, 65535, 256 + 2])


def gen_value(rng, ln):
    r = rng.random()
    if r < 0.55:
        return C.rbytes(rng, ln)
    if r < 0.65:
        return bytes(ln)
    if r < 0.80:  # text with NUL padding
        k = rng.randrange(0, ln + 1)
        return bytes(rng.randrange(0x20, 0x7F) for _ in range(k)) + bytes(ln - k)
    if r < 0.90:
        return bytes(rng.choice([0, 0, 1, 0xFF, 0x80, 9]) for _ in range(ln))
    return bytes(rng.randrange(1, 256) for _ in range(ln))  # no NUL at all


def gen_settings(rng, small=False, maxn=40):
    n = rng.choice([0, 1, 1, 2, 3, 4, 5, 8, 12, 20, maxn]) if rng.random() < 0.7 else rng.randrange(0, maxn + 1)
    used, out = [], []
    for _ in range(n):
        idx = gen_index(rng, used)
        typ = gen_type(rng)
        if small:
            ln = rng.choice([0, 1, 2, 2, 3, 4, 4, 5, 8, 9, 16, 128, 129] if rng.random() < 0.9 else LENGTHS)
        else:
            ln = rng.choice([2, 4, 2, 4, 16] + LENGTHS) if rng.random() < 0.85 else rng.randrange(0, 300)
        if idx == 36 and rng.random() < 0.5:
            typ = rng.choice([1, 3])
        if idx == 9 and rng.random() < 0.5:
            ln = 128
        val = gen_value(rng, ln)
        used.append(idx)
        out.append((idx, typ, ln, val))
    return out


def gen_tail(rng):
    r = rng.random()
    if r < 0.25:
        return b""
    if r < 0.45:
        return b"\x00\x00"
    if r < 0.60:
        return b"\x00\x00" + C.rbytes(rng, rng.choice([1, 2, 5, 6, 7, 40]))
    if r < 0.70:
        return bytes(rng.choice([1, 3, 4, 5, 6, 7, 64]))  # zero padding
    if r < 0.78:
        return b"\x00"
    if r < 0.86:
        return bytes([rng.randrange(1, 256)])  # one junk byte: short peek
    if r < 0.93:
        # an incomplete record
        rec = enc(rng.choice([1, 9, 36, 300]), rng.choice([1, 2, 3]), rng.choice([0, 2, 4, 128]), b"")
        full = rec + C.rbytes(rng, struct.unpack(">H", rec[4:6])[0])
        return full[: rng.randrange(1, len(full))] if len(full) > 1 else full[:1]
    return b"\x00\x00" + enc(1, 1, 2, b"\x00\x08") + b"\x00\x00"  # a valid record after the terminator is ignored


def gen_block(rng, small=False):
    ss = gen_settings(rng, small)
    return b"".join(enc(*s) for s in ss) + gen_tail(rng)


def gen_ua(rng):
    """User-Agent edge cases around length 0x80."""
    pre = b"".join(enc(*s) for s in gen_settings(rng, True, 3)) if rng.random() < 0.5 else b""
    ln = rng.choice([128, 128, 128, 128, 127, 129, 0x8000 + 128 if rng.random() < 0.02 else 128])
    typ = rng.choice([3, 3, 3, 1, 2, 0, 7])
    idx = rng.choice([9, 9, 9, 9, 9, 9, 0x109, 0x0900, 10])
    shape = rng.randrange(7)
    if ln > 300:
        ln = 128
    if shape == 0:
        val = bytes(rng.randrange(1, 256) for _ in range(ln))
    elif shape == 1:
        val = bytes(rng.randrange(1, 256) for _ in range(ln - 1)) + b"\x00"
    elif shape == 2:  # NULs inside, last byte non-NUL
        val = bytearray(rng.randrange(1, 256) for _ in range(ln))
        for _ in range(rng.randrange(1, 5)):
            val[rng.randrange(0, ln - 1)] = 0
        val = bytes(val)
    elif shape == 3:
        val = bytes(ln - 1) + b"A"
    elif shape == 4:
        val = bytes(ln)
    elif shape == 5:
        k = rng.randrange(0, ln)
        val = bytes(rng.randrange(1, 256) for _ in range(k)) + bytes(ln - k)
    else:
        val = C.rbytes(rng, ln)
    # continuation lengths over every residue of the chunk sizes a buffered reader might use (…, 31, 32, 33, 63, 64, …)
    more = bytes(rng.randrange(1, 256) for _ in range(rng.choice([0, 0, 1, 2, 5, 6, 7, 30, 200, rng.randrange(0, 70), 31, 63, 127, 255, 8191, 8192])))
    follow = rng.randrange(8)
    if follow == 0:
        rest = b""  # EOF right after the extra bytes
    elif follow == 1:
        rest = b"\x00"  # NUL then EOF (short peek)
    elif follow == 2:
        rest = b"\x00\x00"  # NUL NUL = terminator
    elif follow == 3:
        rest = b"\x00\x00" + C.rbytes(rng, 9)
    elif follow == 4:
        # NUL is the high byte of the next record's index
        rest = enc(rng.choice([1, 2, 10, 36, 78, 255]), rng.choice([1, 2, 3]), 2, C.rbytes(rng, 2)) + gen_tail(rng)
    elif follow == 5:
        rest = b"\x00" + bytes([rng.randrange(1, 256)])  # 00 xx then EOF
    elif follow == 6:
        rest = enc(9, 3, 128, bytes(rng.randrange(1, 256) for _ in range(128))) + more + b"\x00\x00"  # second UA
    else:
        rest = enc(rng.choice([1, 36]), 1, 2, b"\x01\x02") + enc(300, 3, 3, b"abc") + b"\x00\x00"
    return pre + enc(idx, typ, ln, val) + more + rest


def friendly_settings(rng):
    """Settings whose typed values suit the real pretty functions (stream `real`)."""
    out = []
    for _ in range(rng.choice([1, 2, 4, 8, 16, 30])):
        idx = gen_index(rng, [x[0] for x in out])
        if idx in (19,):
            typ, val = rng.choice([(2, C.rbytes(rng, 4)), (3, C.rbytes(rng, 4))])
        elif idx == 16:
            typ, val = 1, bytes([0, rng.randrange(0, 5)])
        elif idx == 36:
            typ, val = rng.choice([(1, C.rbytes(rng, 2)), (3, gen_value(rng, rng.choice([0, 4, 32])))])
        elif idx in PRETTY_VALUES:
            typ, val = 3, gen_value(rng, rng.choice([0, 1, 4, 8, 16, 64, 128, 256]))
        else:
            typ = rng.choice([1, 2, 3, 0])
            val = gen_value(rng, {1: 2, 2: 4}.get(typ, rng.choice([0, 3, 8, 16])))
        out.append((idx, typ, len(val), val))
    return out


SMALL_ALPHABET = [0, 1, 3, 9, 36, 128]

N_OPS = 19  # 0-3 cached properties, 4-15 settings_map combinations, 16 setting_enums, 17 max_setting_enum, 18 settings_tuple
MAP_SPECS = [(it, p, q) for it in ("name", "const", "enum") for p in (False, True) for q in (False, True)]


def gen_hist_block(rng):
    """A block on which parse/pretty/index_type all make a visible difference: SHORT/INT records with nominal and
    off-nominal lengths, a PTR with a pretty function, duplicates, index 36 of both types, unknown indices."""
    nz = lambda n: bytes(rng.randrange(1, 256) for _ in range(n))  # noqa: E731
    must = [
        (rng.choice([1, 2, 5, 37]), 1, 2, nz(2)),
        (rng.choice([3, 4, 40, 45]), 2, 4, nz(4)),
        (rng.choice([14, 53, 8, 9, 11]), 3, *(lambda v: (len(v), v))(nz(rng.choice([1, 3, 8, 16])))),
    ]
    pool = [
        (2, 1, 1, nz(1)), (2, 1, 3, nz(3)), (5, 1, 0, b""), (6, 1, 4, nz(4)),
        (3, 2, 3, nz(3)), (4, 2, 5, nz(5)), (20, 2, 2, nz(2)), (45, 2, 0, b""),
        (36, 1, 2, nz(2)), (36, 3, 4, nz(4)), (36, 2, 4, nz(4)), (36, 3, 0, b""),
        (75, 3, 2, nz(2)), (75, 1, 2, nz(2)), (300, 2, 4, nz(4)), (65535, 1, 2, nz(2)), (0x124, 1, 2, nz(2)),
        (16, 1, 2, nz(2)), (17, 1, 2, nz(2)), (48, 1, 2, nz(2)), (19, 2, 4, nz(4)), (7, 3, 9, nz(9)),
        (9, 3, 128, nz(128)), (1, 0, 2, nz(2)), (1, 4, 2, nz(2)),
    ]
    chosen = must + rng.sample(pool, rng.randrange(0, 8))
    for _ in range(rng.randrange(0, 3)):  # duplicates: same index, other type/value
        i, t, ln, v = rng.choice(chosen)
        t2 = rng.choice([1, 2, 3])
        v2 = nz(rng.choice([1, 2, 3, 4]))
        chosen.append((i, t2, len(v2), v2))
    rng.shuffle(chosen)
    return b"".join(enc(*c) for c in chosen) + rng.choice([b"", b"\x00\x00", b"\x00\x00junk"])


def hist_line(blk, raising, ops):
    return f"hist {C.hx(blk)} {C.ints(raising)} {C.ints(ops)}"


def gen_raising(rng):
    r = rng.random()
    if r < 0.8:
        return []
    if r < 0.95:
        return rng.sample([14, 53, 8, 9, 11, 36, 16, 19, 7], rng.randrange(1, 4))
    return [rng.choice([1, 2, 3, 75, 300])]


class _GenTimeout(Exception):
    pass


def _real_pretty_ok(blk: bytes) -> bool:
    """True when the real pretty functions accept the block.  CPU-time watchdog (immune to machine load): a hanging
    decoder must not hang the generator; such a block is kept so that the hang is observed and reported through impl."""
    def on_alarm(signum, frame):
        raise _GenTimeout()

    saved = signal.signal(signal.SIGVTALRM, on_alarm)
    signal.setitimer(signal.ITIMER_VIRTUAL, 5.0)
    try:
        B.BeaconConfig(blk).settings_map("enum", pretty=True)
        return True
    except _GenTimeout:
        return True
    except Exception:  # noqa: BLE001
        return False
    finally:
        signal.setitimer(signal.ITIMER_VIRTUAL, 0)
        signal.signal(signal.SIGVTALRM, saved)


def gen(tier, rng, shard, nshards):
    """every case of the hand-model streams is also run through the definitions translated from the source"""
    for stream, line in gen0(tier, rng, shard, nshards):
        yield stream, line
        if stream in G_STREAMS:
            yield "g-" + stream, "g" + line
    thorough = tier == "thorough"
    for _ in range((20000 if thorough else 2000) // nshards):
        yield "g-arg", gen_arg_line(rng)
    for _ in range((100000 if thorough else 10000) // nshards):
        line = pyuval_t02.case(rng)
        if line is not None:
            yield "pyu", line


def gen_arg_line(rng):
    """arguments only the translation can express: `iter_settings(<anything>)`, `settings_map(<anything> x 3)`"""
    P = pyuval_t02
    if rng.random() < 0.5:
        r = rng.random()
        if r < 0.45:
            blk = gen_block(rng, small=True) if rng.random() < 0.7 else gen_ua(rng)
            blk = blk[:400]
            f = io.BytesIO(blk)
            f.seek(rng.choice([0, 0, 0, 1, 2, 6, 8, len(blk), len(blk) + 2]))
            a = f
        elif r < 0.6:
            a = gen_block(rng, small=True)[:300]
        else:
            a = P.value(rng)
            if isinstance(a, B.Setting):
                a = None
        return "gis " + P.pshow(a)
    blk = gen_hist_block(rng) if rng.random() < 0.7 else gen_block(rng, small=True)[:300]
    its = ["name", "const", "enum", "NAME", "", "names", b"name", None, 0, 1, ("name",), ["const"], B.BeaconSetting(1)]
    flags = [True, False, True, False, 0, 1, 2, None, "", "x", b"", b"\x00", [], [0], (), {}, {1: 2}, B.SettingsType(0), B.SettingsType(1)]
    return f"gsm {C.hx(blk)} {C.ints(gen_raising(rng))} {P.pshow(rng.choice(its))} {P.pshow(rng.choice(flags))} {P.pshow(rng.choice(flags))}"


def gen0(tier, rng, shard, nshards):
    thorough = tier == "thorough"
    k = 0

    def mine():
        nonlocal k
        k += 1
        return (k % nshards) == shard

    # ---- fixed boundary cases (every shard-owner gets its share)
    fixed = [
        b"", b"\x00", b"\x01", b"\x00\x00", b"\x00\x01", b"\x01\x00", b"\x00\x00\x00", b"\x00\x01\x00\x01\x00",
        enc(1, 1, 0, b""), enc(1, 1, 0, b"") + b"\x00", enc(1, 1, 2, b"\xff\xff"), enc(1, 2, 4, b"\xff\xff\xff\xff"),
        enc(1, 1, 2, b"\xff"), enc(65535, 65535, 0, b""), enc(65535, 3, 65535, bytes(65535)), enc(2, 3, 65535, bytes(65534)),
        enc(36, 1, 2, b"\x00\x01") + enc(36, 3, 2, b"ab"), enc(36, 3, 2, b"ab") + enc(36, 1, 2, b"\x00\x01"),
        enc(36, 2, 4, b"\x00\x00\x00\x01"), enc(0x124, 1, 2, b"\x00\x01"), enc(36, 0x101, 2, b"\x00\x01"),
        enc(16, 1, 2, b"\x00\x01") + enc(17, 1, 2, b"\x00\x02") + enc(48, 1, 2, b"\x00\x03") + b"\x00\x00",
        enc(9, 3, 128, b"A" * 128), enc(9, 3, 128, b"A" * 128) + b"BC", enc(9, 3, 128, b"A" * 128) + b"BC\x00",
        enc(9, 3, 128, b"A" * 128) + b"BC\x00\x00", enc(9, 3, 128, b"A" * 127 + b"\x00") + b"BC\x00\x00",
        enc(9, 3, 128, b"A" * 128) + enc(1, 1, 2, b"\x00\x08"), enc(9, 3, 128, b"A" * 128) + b"xyz" + enc(1, 1, 2, b"\x00\x08") + b"\x00\x00",
        enc(1, 1, 1, b"\x07"), enc(1, 1, 3, b"\x01\x02\x03"), enc(1, 2, 3, b"\x01\x02\x03"), enc(1, 2, 5, b"\x01\x02\x03\x04\x05"),
        enc(1, 2, 0, b""), enc(1, 3, 2, b"\x01\x02"), enc(1, 0, 2, b"\x01\x02"), enc(1, 4, 2, b"\x01\x02"),
        enc(75, 3, 1, b"a") + enc(300, 3, 1, b"b") + enc(75, 3, 1, b"c"), enc(1, 1, 2, b"\x00\x01") * 3,
    ]
    for blk in fixed:
        if mine():
            yield "parse", "parse " + C.hx(blk)
            yield "views", f"views {C.hx(blk)} l"
    # every defined / pretty / neighbouring index once, with each type
    for idx in sorted(set(DEFINED + [0, 75, 79, 80, 255, 256, 0x109, 0x124, 65535])):
        for typ in (0, 1, 2, 3, 4):
            if not mine():
                continue
            val = C.rbytes(rng, {1: 2, 2: 4}.get(typ, 5))
            blk = enc(idx, typ, len(val), val) + enc(1, 1, 2, b"\x00\x08")
            yield "parse", "parse " + C.hx(blk)
            yield "views", f"views {C.hx(blk)} l"

    # ---- parse: random settings lists + tails
    for _ in range((60000 if thorough else 6000) // nshards):
        yield "parse", "parse " + C.hx(gen_block(rng))

    # ---- trunc: every prefix of one (thorough: six) sample(s) per shard
    for _ in range(12 if thorough else 2):
        ss = gen_settings(rng, True, 6)
        if rng.random() < 0.5:
            ss.insert(rng.randrange(0, len(ss) + 1), (9, 3, 128, bytes(rng.randrange(1, 256) for _ in range(128))))
        blk = b"".join(enc(*s) for s in ss) + rng.choice([b"", b"\x00\x00", b"xy\x00\x00"])
        blk = blk[:700]
        for cut in range(len(blk) + 1):
            yield "trunc", "parse " + C.hx(blk[:cut])

    # ---- ua
    for _ in range((30000 if thorough else 3000) // nshards):
        yield "ua", "parse " + C.hx(gen_ua(rng))

    # ---- junk: exhaustive over a small alphabet + random
    maxlen = 7 if thorough else 5
    for n in range(maxlen + 1):
        for t in itertools.product(SMALL_ALPHABET[: (6 if n <= 6 else 4)], repeat=n):
            if mine():
                yield "junk", "parse " + C.hx(bytes(t))
    # headers over the alphabet followed by enough bytes
    for t in itertools.product([0, 1, 2, 9, 36], repeat=6):
        if mine():
            yield "junk", "parse " + C.hx(bytes(t) + bytes([7] * 40) + b"\x00\x00")
    for _ in range((30000 if thorough else 4000) // nshards):
        n = rng.choice([1, 2, 5, 6, 7, 8, 12, 13, 14, 30, 200])
        alpha = rng.choice([SMALL_ALPHABET, [0, 1, 2, 3], list(range(256)), [0, 9, 128, 65]])
        yield "junk", "parse " + C.hx(bytes(rng.choice(alpha) for _ in range(n)))

    # ---- views (stubbed pretty functions)
    for _ in range((40000 if thorough else 4000) // nshards):
        blk = gen_block(rng, small=True) if rng.random() < 0.85 else gen_ua(rng)
        r = rng.random()
        if r < 0.7:
            raising = []
        elif r < 0.85:
            raising = rng.sample(PRETTY_VALUES, rng.randrange(1, 4))
        elif r < 0.95:
            raising = rng.sample(PRETTY_VALUES, rng.randrange(1, 4)) + rng.sample(DEFINED, 2)
        else:
            raising = [rng.choice([1, 2, 3, 75, 300, 37])]
        yield "views", f"views {C.hx(blk)} {C.ints(raising)}"

    # ---- hist: every ordered pair of accesses on one object, (thorough: every ordered triple), random sequences
    for a in range(N_OPS):
        for b in range(N_OPS):
            if not mine():
                continue
            for rep in range(6 if thorough else 2):
                yield "hist", hist_line(gen_hist_block(rng), [] if rep == 0 else gen_raising(rng), [a, b])
    if thorough:
        for t in itertools.product(range(N_OPS), repeat=3):
            if mine():
                yield "hist", hist_line(gen_hist_block(rng), gen_raising(rng), list(t))
    for _ in range((24000 if thorough else 2400) // nshards):
        n = rng.randrange(2, 11)
        ops = [rng.randrange(N_OPS) if rng.random() < 0.7 else rng.randrange(0, 4) for _ in range(n)]
        blk = gen_hist_block(rng) if rng.random() < 0.8 else gen_block(rng, small=True)
        yield "hist", hist_line(blk, gen_raising(rng), ops)

    # ---- real pretty functions (only inputs on which none of them raises)
    want = (6000 if thorough else 800) // nshards
    tries = 0
    while want > 0 and tries < 20 * ((6000 if thorough else 800) // nshards + 1):
        tries += 1
        blk = b"".join(enc(*s) for s in friendly_settings(rng)) + gen_tail(rng)
        if not _real_pretty_ok(blk):
            continue
        want -= 1
        yield "real", "real " + C.hx(blk)


# ------------------------------------------------------------------------------------------------
# implementation adapter
# ------------------------------------------------------------------------------------------------

class _Tagged:
    __slots__ = ("idx", "arg")

    def __init__(self, idx, arg):
        self.idx, self.arg = idx, arg


def _show_val(v) -> str:
    if isinstance(v, _Tagged):
        return f"P{v.idx}({_show_val(v.arg)})"
    if isinstance(v, bool):
        return "?bool"
    if isinstance(v, int):
        return "i" + str(int(v))
    if isinstance(v, (bytes, bytearray)):
        return show_bytes_short(bytes(v))
    return "?" + type(v).__name__


def _show_key(k) -> str:
    if isinstance(k, DBS):
        return "D" + str(int(k.value))
    if isinstance(k, BS):
        return "B" + str(int(k.value))
    if isinstance(k, str):
        return k
    if type(k) is int:
        return str(k)
    return "?" + type(k).__name__


def _render_parsed_impl(c) -> str:
    items = []
    for s in c.settings_tuple:
        idx = s.index
        if not isinstance(idx, (BS, DBS)):
            raise TypeError("setting.index is neither BeaconSetting nor DeprecatedBeaconSetting")
        items.append((int(idx.value), int(s.type.value), int(s.length), bytes(s.value), isinstance(idx, DBS)))
    body = " ".join(f"{i}:{t}:{ln}:{'D' if d else 'B'}:{C.hx(v)}" for i, t, ln, v, d in items)
    enums = c.setting_enums
    if not isinstance(enums, list):
        raise TypeError("setting_enums is not a list")
    try:
        mx = str(int(c.max_setting_enum))
    except ValueError:
        mx = "exc ValueError"
    return f"ok {len(items)} {body} | enums {C.ints(enums)} | max {mx}"


class _Stubbed:
    """Replace the *values* of SETTING_TO_PRETTYFUNC by tagging stubs (keys, order and dispatch untouched)."""

    def __init__(self, raising):
        self.raising = set(raising)

    def __enter__(self):
        table = B.SETTING_TO_PRETTYFUNC
        self.saved = dict(table)
        raising = self.raising
        for key in list(table):
            v = int(key.value)

            def stub(x, v=v):
                if v in raising:
                    raise ValueError("stub")
                return _Tagged(v, x)

            table[key] = stub
        return self

    def __exit__(self, *exc):
        table = B.SETTING_TO_PRETTYFUNC
        table.clear()
        table.update(self.saved)
        return False


_PROPS = ["raw_settings", "raw_settings_by_index", "settings", "settings_by_index"]
_ATTRS = ["_raw_settings", "_raw_settings_by_index", "_settings", "_settings_by_index"]
_VARS = {"config_block", "settings_tuple", "xorkey", "xorencoded", "pe_export_stamp", "pe_compile_stamp", "architecture",
         "guardrails", "_settings", "_settings_by_index", "_raw_settings", "_raw_settings_by_index"}


def _show_map_obj(m) -> str:
    return "[" + ";".join(f"{_show_key(k)}={_show_val(v)}" for k, v in m.items()) + "]"


def _do_op(c, k: int) -> str:
    """canonical answer of access number k on the object c"""
    if k < 16:
        try:
            if k < 4:
                m = getattr(c, _PROPS[k])
            else:
                it, p, q = MAP_SPECS[k - 4]
                m = c.settings_map(index_type=it, pretty=p, parse=q)
        except Exception as e:  # noqa: BLE001
            if type(e).__name__ == "Timeout":
                raise
            return "exc " + type(e).__name__
        return _show_map_obj(m)
    if k == 16:
        return "enums " + C.ints(c.setting_enums)
    if k == 17:
        try:
            return "max " + str(int(c.max_setting_enum))
        except ValueError:
            return "max exc ValueError"
    items = [(int(s.index.value), int(s.type.value), int(s.length), bytes(s.value), isinstance(s.index, DBS)) for s in c.settings_tuple]
    return f"tuple {len(items)} " + " ".join(f"{i}:{t}:{ln}:{'D' if d else 'B'}:{C.hx(v)}" for i, t, ln, v, d in items)


def _history(blk: bytes, ops):
    """answers of the accesses on ONE object + the state of the cache attributes; identity facts are asserted"""
    from types import MappingProxyType

    c = B.BeaconConfig(blk)
    tup = c.settings_tuple
    if set(vars(c)) != _VARS:
        raise AssertionError("unexpected instance attributes " + ",".join(sorted(set(vars(c)) ^ _VARS)))
    if any(getattr(c, a) is not None for a in _ATTRS):
        raise AssertionError("cache attribute set before any access")
    out = []
    for k in ops:
        r = _do_op(c, k)
        out.append(r)
        if k < 4 and not r.startswith("exc "):
            first = getattr(c, _ATTRS[k])
            if not isinstance(first, MappingProxyType) or getattr(c, _PROPS[k]) is not first:
                raise AssertionError("cached property does not return its (read-only) cache object")
    if c.settings_tuple is not tup or not isinstance(tup, tuple) or c.config_block != blk or set(vars(c)) != _VARS:
        raise AssertionError("settings_tuple / config_block / attributes changed by an access")
    cache = "".join("N" if getattr(c, a) is None else "M" for a in _ATTRS)
    return out, cache


def _maps(blk: bytes, show_item):
    def one(fn):
        try:
            m = fn()
        except Exception as e:  # noqa: BLE001
            return "exc " + type(e).__name__
        return "[" + ";".join(show_item(k, v) for k, v in m.items()) + "]"

    c = B.BeaconConfig(blk)
    combos = [one(lambda it=it, p=p, q=q: c.settings_map(index_type=it, pretty=p, parse=q))
              for it in ("name", "const", "enum") for p in (False, True) for q in (False, True)]
    views = [one(lambda: c.raw_settings), one(lambda: c.raw_settings_by_index), one(lambda: c.settings), one(lambda: c.settings_by_index)]
    return combos, views


_timeouts = 0


class Timeout(Exception):
    """rendered `exc Timeout` by the runner (same name as its own watchdog exception)"""


def _on_cpu_alarm(signum, frame):
    raise Timeout()


def impl(stream, line):
    # Every call takes milliseconds of CPU.  A CPU-time watchdog (ITIMER_VIRTUAL: immune to machine load, unlike the
    # runner's 10 s wall-clock alarm, which stays armed) reports a non-terminating decoder (e.g. the User-Agent scan
    # without its end-of-data check) as `exc Timeout` quickly.  After three timeouts in a worker the run is failing
    # anyway and the budget drops further.
    global _timeouts
    saved = signal.signal(signal.SIGVTALRM, _on_cpu_alarm)
    signal.setitimer(signal.ITIMER_VIRTUAL, 5.0 if _timeouts < 3 else 0.25)
    try:
        return _impl(stream, line)
    except BaseException as e:  # noqa: BLE001
        if type(e).__name__ == "Timeout":
            _timeouts += 1
        raise
    finally:
        signal.setitimer(signal.ITIMER_VIRTUAL, 0)
        signal.signal(signal.SIGVTALRM, saved)


def _impl(stream, line):
    if stream == "pyu":
        return pyuval_t02.run(line)
    w = line.split()
    if w[0] == "gis":
        return "ok " + pyuval_t02.pshow(list(B.iter_settings(pyuval_t02.pparse(w[1]))))
    if w[0] == "gsm":
        with _Stubbed(C.unints(w[2])):
            m = B.BeaconConfig(C.unhx(w[1])).settings_map(*[pyuval_t02.pparse(t) for t in w[3:6]])
            return _show_map_obj(m)
    if w[0] == "ghist":
        with _Stubbed(C.unints(w[2])):
            out, _cache = _history(C.unhx(w[1]), C.unints(w[3]))
        return " || ".join(out)
    if stream.startswith("g-"):
        return _impl(stream[2:], line[1:])      # the same real code
    blk = C.unhx(w[1])
    if w[0] == "parse":
        return _render_parsed_impl(B.BeaconConfig(blk))
    if w[0] == "views":
        raising = set(C.unints(w[2]))
        table = B.SETTING_TO_PRETTYFUNC
        saved = dict(table)
        try:
            for key in list(table):
                v = int(key.value)

                def stub(x, v=v):
                    if v in raising:
                        raise ValueError("stub")
                    return _Tagged(v, x)

                table[key] = stub  # same key object, same position: only the content is replaced
            combos, views = _maps(blk, lambda k, v: f"{_show_key(k)}={_show_val(v)}")
        finally:
            table.clear()
            table.update(saved)
        return " | ".join(combos + views)
    if w[0] == "hist":
        with _Stubbed(C.unints(w[2])):
            out, cache = _history(blk, C.unints(w[3]))
        return " || ".join(out) + " || cache " + cache
    if w[0] == "real":
        items = ref_decode(blk)
        out = []
        c = B.BeaconConfig(blk)
        specs = [(it, p, q) for it in ("name", "const", "enum") for p in (False, True) for q in (False, True)]
        specs += [("name", False, True), ("const", False, True), ("name", True, True), ("const", True, True)]
        getters = [lambda it=it, p=p, q=q: c.settings_map(index_type=it, pretty=p, parse=q) for it, p, q in specs[:12]]
        getters += [lambda: c.raw_settings, lambda: c.raw_settings_by_index, lambda: c.settings, lambda: c.settings_by_index]
        for (it, p, q), g in zip(specs, getters):
            try:
                m = g()
            except Exception as e:  # noqa: BLE001
                out.append("exc " + type(e).__name__)
                continue
            last = {}
            for idx, typ, ln, val, dep in items:
                last[ref_key(it, idx, dep)] = (idx, dep)
            parts = []
            for k_, v in m.items():
                ks = _show_key(k_)
                idx, dep = last.get(ks, (None, True))
                masked = p and (not dep) and idx in PRETTY_VALUES
                parts.append(f"{ks}={'P' if masked else _show_val(v)}")
            out.append("[" + ";".join(parts) + "]")
        return " | ".join(out)
    raise RuntimeError("unknown op " + w[0])


def nontrivial(stream, line, out):
    if stream == "pyu":
        return not out.startswith("exc ")
    if stream == "g-arg":
        return not out.startswith("exc ") and out not in ("ok L[]", "[]")
    if stream == "g-hist":
        return "=" in out
    if stream.startswith("g-"):
        return nontrivial(stream[2:], line[1:], out)
    if out.startswith("exc "):
        return False
    if line.startswith("parse"):
        return not out.startswith("ok 0 ")
    if line.startswith("hist"):
        return "=" in out and "M" in out.rsplit(" ", 1)[-1]  # a cached property was filled before/among the accesses
    return "=" in out


def oracle(stream, line, out):
    """The property stated independently: the implementation's output must equal what the reference TLV decoder
    (+ a plain Python dict for the views) gives."""
    if stream.startswith("g-") or stream == "pyu":
        return None
    w = line.split()
    blk = C.unhx(w[1])
    items = ref_decode(blk)
    if w[0] == "parse":
        return out == render_parsed(items)
    if w[0] == "views":
        return out == ref_maps(items, set(C.unints(w[2])), False)
    if w[0] == "real":
        return out == ref_maps(items, set(), True)
    if w[0] == "hist":
        if " || cache " not in out:
            return False  # the whole history raised (watchdog, identity assertion)
        raising, ops = set(C.unints(w[2])), C.unints(w[3])
        steps = out.split(" || ") if ops else ["cache" + out.rsplit("cache", 1)[-1]]
        if len(steps) != len(ops) + 1:
            return False
        ref16 = ref_maps(items, raising, False).split(" | ")
        ref16 = ref16[12:] + ref16[:12]  # op numbering: the 4 properties first, then the 12 combinations
        filled = ["N"] * 4
        with _Stubbed(raising):
            for k, got in zip(ops, steps):
                fresh = _do_op(B.BeaconConfig(blk), k)  # the same access on a FRESH object
                if got != fresh:
                    return False
                if k < 16:
                    if got != ref16[k]:
                        return False
                    if k < 4 and not got.startswith("exc "):
                        filled[k] = "M"
                elif k == 16:
                    if got != "enums " + C.ints([i for i, *_ in items]):
                        return False
                elif k == 17:
                    if got != ("max " + str(max(i for i, *_ in items)) if items else "max exc ValueError"):
                        return False
                else:
                    if got != f"tuple {len(items)} " + " ".join(f"{i}:{t}:{ln}:{'D' if d else 'B'}:{C.hx(v)}" for i, t, ln, v, d in items):
                        return False
        return steps[-1] == "cache " + "".join(filled)
    return None


def shrink(stream, line):
    if stream in ("pyu", "g-arg"):
        return
    if stream.startswith("g-"):
        for cand in shrink(stream[2:], line[1:]):
            yield "g" + cand
        return
    for cand in C.shrink_tokens(line):
        if stream == "real":
            # stay inside the stream's domain: blocks on which a real pretty function raises are C03's subject
            try:
                if not _real_pretty_ok(C.unhx(cand.split()[1])):
                    continue
            except Exception:  # noqa: BLE001
                continue
        yield cand

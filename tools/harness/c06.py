"""C06 — Beacon metadata over RSA, session key derivation: generators + adapters to the real library.

Streams (one op per line, a metadata value is 17 tokens in declaration order, see Driver/C06.lean):
  dumps M17                  BeaconMetadata(**fields): len(m), m.dumps()                    (cstruct writer model)
  parse x<data>              BeaconMetadata(data)                                           (cstruct reader model)
  enc <key> <k> M17          encrypt_metadata(m, pub); the blob is decrypted again with pycryptodome called
                             directly, so the observable is (len(blob), m.size afterwards, plaintext fed to RSA)
  dec <key> x<blob> <prim>   decrypt_metadata(blob, priv); <prim> = what PKCS1_v1_5.new(priv).decrypt(blob, None)
                             did, computed here by calling pycryptodome directly: V (ValueError) | none | x<bytes>
  rt <key> <k> M17           decrypt_metadata(encrypt_metadata(m, pub), priv)
  derive x<r> <iv|none> x<sha256(r)>   derive_aes_hmac_keys, BeaconKeys.from_aes_rand, BeaconKeys.from_beacon_metadata
  hist step | step | …       2–9 calls executed in ONE impl() invocation (same process, same objects): any of the ops above
                             plus `new M17` / `set <field> <v>` / `show` / `eo <key> <k>` / `ro <key> <k>` which create, mutate,
                             print and encrypt (round-trip) ONE caller-side BeaconMetadata object.  The library is modelled
                             as stateless, so every step must give the single-call answer (theorem history_independent):
                             caches / fast paths / behaviour depending on an earlier call or failure show up here.

The oracle is an independent struct.pack/unpack based encoder/decoder of the metadata layout written below
(format string typed by hand, not taken from c_c2.py) plus hashlib called directly.
"""
from __future__ import annotations

import hashlib
import os
import random
import struct
from pathlib import Path

import Crypto.Random as _CryptoRandom
from Crypto.Cipher import PKCS1_v1_5
from Crypto.PublicKey import RSA
from Crypto.Util.number import long_to_bytes

from dissect.cobaltstrike import c2
from dissect.cobaltstrike.c_c2 import BeaconMetadata

from . import common as C
from . import pyuval_t07

ID = "C06"
DRIVER = "drv_c06"
GEN = ["c2struct"]
GEN += ["py_c2m"]
EXTRA_PROP_FILES = ["Props/C06Gen.lean"]
G_STREAMS = ("dumps", "parse", "enc", "dec", "rt", "hist")
STREAMS = {
    "dumps": {"relevant": True, "desc": "BeaconMetadata(**fields).dumps() / len()"},
    "parse": {"relevant": True, "desc": "BeaconMetadata(bytes)"},
    "enc": {"relevant": True, "desc": "encrypt_metadata: blob length, size fix-up, plaintext handed to PKCS1_v1_5"},
    "dec": {"relevant": True, "desc": "decrypt_metadata on valid / crafted / wrong-key / random blobs"},
    "rt": {"relevant": True, "desc": "decrypt_metadata(encrypt_metadata(m))"},
    "derive": {"relevant": True, "desc": "derive_aes_hmac_keys, BeaconKeys.from_aes_rand / from_beacon_metadata"},
    "hist": {"relevant": True, "desc": "call histories in one process: same blob under different keys, corrupted copies, the same "
                                       "metadata object encrypted repeatedly and after mutation, repeated key derivations"},
    "g-dumps": {"relevant": False, "desc": "the run-time operations len() / dumps() of the untyped translator (PyU_T07.lean over the generated layout) vs cstruct, on every case of dumps"},
    "g-parse": {"relevant": False, "desc": "the run-time operation BeaconMetadata(bytes) of the untyped translator vs cstruct, on every case of parse"},
    "g-enc": {"relevant": False, "desc": "encrypt_metadata TRANSLATED from its source (Gen/PyC2M.lean; cipher.encrypt = toy primitives) vs the function, on every case of enc"},
    "g-dec": {"relevant": False, "desc": "decrypt_metadata TRANSLATED from its source (cipher.decrypt = the primitive result on the line) vs the function, on every case of dec"},
    "g-rt": {"relevant": False, "desc": "translated decrypt_metadata(encrypt_metadata(m)) vs the functions, on every case of rt"},
    "g-hist": {"relevant": False, "desc": "every history of hist with all library calls through the translated definitions (the caller's object threaded as a value)"},
    "g-arg": {"relevant": False, "desc": "translated encrypt_metadata / len / dumps on arguments of other kinds: metadata objects whose attributes hold None / bool / "
                                         "negative / huge ints / bytes / str / lists, and arguments that are no metadata objects at all"},
    "pyu": {"relevant": False, "desc": "the operations of the translator's run-time library added for decrypt/encrypt_metadata (PyU_T07.lean: struct parse / dumps / len, "
                                       "format 0<w>x; attribute read / assignment on structure instances) vs CPython / dissect.cstruct on random operands of all kinds"},
}
TRUSTED = [
    "tools/harness/c06.py generators, adapters and struct-based oracle; tools/gen/c2struct.py; line protocol parsing in "
    "lean/CsVerif/Driver/C06.lean",
    "RSA/PKCS#1 v1.5 (pycryptodome) and SHA-256 (hashlib) are parameters of the model (structure Crypto); theorems assume "
    "CryptoLaws (decrypt∘encrypt = id for |m| <= k-11, 'Plaintext is too long' otherwise, ciphertext length = k, "
    "wrong-length blobs raise ValueError, decrypt raises only ValueError, |sha256| = 32); a toy instance proves them satisfiable",
    "dissect.cstruct 4.7 struct reading/writing is modelled (Model/C06.lean dumpsMetadata/parseMetadata), not verified; "
    "exercised directly by the dumps/parse streams",
    "tools/py2leanu.py + tools/gen/py_c2m.py (source text of decrypt_metadata / encrypt_metadata -> Gen/PyC2M.lean) and the run-time library "
    "Model/PyU.lean, PyU_T02.lean, PyU_T07.lean (semantics of the Python / cstruct operations the translation emits); Props/C06Gen.lean proves the "
    "translated definitions equal to the hand-written model; the g-* streams run the translated definitions and the pyu stream the run-time "
    "operations against the real functions / CPython on every run",
]
ASSUMPTIONS = [
    "field values are non-negative Python ints, aes_rand/info are bytes (negative ints also raise struct.error but are outside the Nat model)",
    "the key given to decrypt_metadata is a private key (a public key makes pycryptodome raise TypeError)",
    "primitive results on dec/derive lines are computed by calling pycryptodome/hashlib directly; for enc/rt the Lean side "
    "runs the toy PKCS#1 framing with the same modulus length, the real blob itself is random and is not compared",
    "the `sentinel None returned` branch of decrypt_metadata cannot be triggered with pycryptodome 3.23 (it returns b'' on "
    "padding failures); it is covered by the theorem undecryptable_rejected only",
]
RULE = ("call histories (2-9 steps in one process) + per-field boundary values (0,1,max,max+1), every info length 0..limit+2 for RSA-1024/2048, crafted plaintexts, wrong-key and "
        "random blobs + seeded random cases; distinct = hash of input line; non-trivial = not the all-zero metadata / empty input "
        "(rejections count: they are the subject of the property)")

CORPUS = Path(__file__).resolve().parent.parent.parent / "corpus" / "C06"

# independent description of the layout (typed by hand)
INT_FIELDS = [("magic", 4), ("size", 4), ("ansi_cp", 2), ("oem_cp", 2), ("bid", 4), ("pid", 4), ("port", 2), ("flag", 1),
              ("ver_major", 1), ("ver_minor", 1), ("ver_build", 2), ("ptr_x64", 4), ("ptr_gmh", 4), ("ptr_gpa", 4), ("ip", 4)]
ORDER = ["magic", "size", "aes_rand", "ansi_cp", "oem_cp", "bid", "pid", "port", "flag", "ver_major", "ver_minor",
         "ver_build", "ptr_x64", "ptr_gmh", "ptr_gpa", "ip", "info"]
WIDTH = dict(INT_FIELDS)
TAIL_FMT = ">HHIIHBBBHIIII"
HEADER = 59
MAGIC = 0xBEEF


# --------------------------------------------------------------------------------------------
# keys
# --------------------------------------------------------------------------------------------

def _detrand(seed):
    r = random.Random(seed)
    return lambda n: bytes(r.getrandbits(8) for _ in range(n))


_KEYS: dict = {}


def key(kid: str) -> RSA.RsaKey:
    k = _KEYS.get(kid)
    if k is None:
        if kid.startswith("g1024-"):
            k = RSA.generate(1024, randfunc=_detrand("C06-" + kid))
        else:
            k = RSA.import_key((CORPUS / f"{kid}.pem").read_bytes())
        _KEYS[kid] = k
    return k


_ws = CORPUS / "ws_blobs.txt"
WS_BLOBS = _ws.read_text().split("\n")[:-1] if _ws.exists() else []


def direct_decrypt(kid: str, blob: bytes) -> str:
    """What pycryptodome itself does with the blob (never through the library under test)."""
    try:
        r = PKCS1_v1_5.new(key(kid)).decrypt(blob, None)
    except ValueError:
        return "V"
    return "none" if r is None else C.hx(r)


def direct_encrypt(kid: str, pt: bytes, rng) -> bytes:
    return PKCS1_v1_5.new(key(kid).publickey(), randfunc=lambda n: bytes(rng.getrandbits(8) for _ in range(n))).encrypt(pt)


def raw_rsa(kid: str, em: bytes) -> bytes:
    k = key(kid)
    return long_to_bytes(pow(int.from_bytes(em, "big"), k.e, k.n), k.size_in_bytes())


# --------------------------------------------------------------------------------------------
# independent encoder / decoder (oracle)
# --------------------------------------------------------------------------------------------

def in_range(f) -> bool:
    return all(0 <= f[n] < 256 ** w for n, w in INT_FIELDS)


def own_encode(f) -> bytes:
    aes = f["aes_rand"]
    if len(aes) < 16:
        aes = aes + b"\x00" * (16 - len(aes))
    return (struct.pack(">II", f["magic"], f["size"]) + aes
            + struct.pack(TAIL_FMT, *(f[n] for n, _ in INT_FIELDS[2:])) + f["info"])


def own_decode(b: bytes):
    """dict of fields, or None for 'not enough data'."""
    if len(b) < HEADER:
        return None
    magic, size = struct.unpack(">II", b[:8])
    vals = struct.unpack(TAIL_FMT, b[24:HEADER])
    n = max(0, size - 51)
    if len(b) - HEADER < n:
        return None
    f = {"magic": magic, "size": size, "aes_rand": b[8:24], "info": b[HEADER:HEADER + n]}
    for (name, _), v in zip(INT_FIELDS[2:], vals):
        f[name] = v
    return f


def expect_decrypt(pt):
    """Property: what decrypt_metadata must do with the plaintext pycryptodome produced (None = failure)."""
    if not pt:
        return "exc ValueError"
    f = own_decode(pt)
    if f is None or f["magic"] != MAGIC:
        return "exc ValueError"
    return "ok " + fmt_fields(f)


# --------------------------------------------------------------------------------------------
# line encoding
# --------------------------------------------------------------------------------------------

def fmt_fields(f) -> str:
    return " ".join(C.hx(f[n]) if n in ("aes_rand", "info") else str(int(f[n])) for n in ORDER)


def parse_fields(toks):
    assert len(toks) == 17, toks
    return {n: (C.unhx(t) if n in ("aes_rand", "info") else int(t)) for n, t in zip(ORDER, toks)}


def show_struct(m) -> str:
    return " ".join(C.hx(bytes(getattr(m, n))) if n in ("aes_rand", "info") else str(int(getattr(m, n))) for n in ORDER)


def mk(f):
    return BeaconMetadata(**f)


# --------------------------------------------------------------------------------------------
# generators
# --------------------------------------------------------------------------------------------

def rint(rng, w):
    lim = 256 ** w
    r = rng.random()
    if r < 0.15:
        return 0
    if r < 0.25:
        return lim - 1
    if r < 0.35:
        return rng.choice([1, lim // 2, lim // 2 - 1, 255 % lim, 256 % lim, lim - 2])
    return rng.randrange(lim)


def rfields(rng, info_len=None, magic=MAGIC):
    f = {n: rint(rng, w) for n, w in INT_FIELDS}
    f["magic"] = magic
    f["aes_rand"] = C.rbytes(rng, 16)
    if info_len is None:
        info_len = rng.choice([0, 1, 2, 3, 5, 8, 16, 31, 40, 57, 58])
    f["info"] = C.rbytes(rng, info_len) if rng.random() < 0.7 else bytes(rng.choice(b"\tabcXYZ019 .-\x00") for _ in range(info_len))
    f["size"] = rng.choice([51 + info_len, 51 + info_len, 0, rint(rng, 4)])
    return f


def boundary_values(w):
    lim = 256 ** w
    return [0, 1, lim - 1, lim, lim // 2, lim // 2 - 1, 255, 256 if w == 1 else lim + 1, 2 ** 64]


def gen(tier, rng, shard, nshards):
    """every case of the hand-model streams is also run through the definitions translated from the source (g-*)"""
    for stream, line in gen0(tier, rng, shard, nshards):
        yield stream, line
        if stream in G_STREAMS:
            yield "g-" + stream, "g" + line
    thorough = tier == "thorough"
    for _ in range((6000 if thorough else 600) // nshards + 1):
        r = rng.random()
        if r < 0.45:
            v = pyuval_t07.rmeta(rng)
            if not pyuval_t07._meta_ok(v):
                continue
        elif r < 0.6:
            v = pyuval_t07.rmeta(rng, clean=True)
        else:
            v = pyuval_t07.value(rng)
            if isinstance(v, BeaconMetadata) and not pyuval_t07._meta_ok(v) or not isinstance(v, BeaconMetadata) and pyuval_t07._has_meta(v):
                continue
        try:
            tok = pyuval_t07.pshow(v)
        except RuntimeError:
            continue
        if rng.random() < 0.6:
            yield "g-arg", f"garg enc {rng.choice([128, 256])} {tok}"
        else:
            yield "g-arg", f"garg dumps {tok}"
    for _ in range((60000 if thorough else 6000) // nshards + 1):
        line = pyuval_t07.case(rng)
        if line is not None:
            yield "pyu", line


def gen0(tier, rng, shard, nshards):
    thorough = tier == "thorough"
    seed = int(os.environ.get("VERIF_SEED", "0"))
    k = 0

    def mine():
        nonlocal k
        k += 1
        return (k % nshards) == shard

    gkey = f"g1024-{seed}-{shard}"
    keys_right = [("k1024a", "k1024b"), ("k2048a", "k2048b"), (gkey, "k1024a")]
    ksize = {kid: key(kid).size_in_bytes() for pair in keys_right for kid in pair}
    vol = (lambda q, t: (t if thorough else q) // nshards + 1)

    # ------------------------------------------------------------------ dumps
    for name, w in INT_FIELDS:
        for v in boundary_values(w):
            if not mine():
                continue
            f = rfields(rng)
            f["size"] = 51 + len(f["info"])
            f[name] = v
            yield "dumps", "dumps " + fmt_fields(f)
    for n in [0, 1, 2, 15, 16, 17, 20, 32, 48]:
        for il in [0, 3]:
            if not mine():
                continue
            f = rfields(rng, il)
            f["aes_rand"] = C.rbytes(rng, n)
            yield "dumps", "dumps " + fmt_fields(f)
    if mine():
        z = {n: 0 for n, _ in INT_FIELDS}
        z.update(aes_rand=bytes(16), info=b"")
        yield "dumps", "dumps " + fmt_fields(z)
    for il in range(0, 70 if thorough else 24):
        if mine():
            yield "dumps", "dumps " + fmt_fields(rfields(rng, il))
    for _ in range(vol(400, 8000)):
        f = rfields(rng, rng.choice([None, rng.randrange(0, 300)]))
        if rng.random() < 0.15:
            n, w = rng.choice(INT_FIELDS)
            f[n] = 256 ** w + rng.choice([0, 1, rng.randrange(256 ** w)])
        if rng.random() < 0.1:
            f["aes_rand"] = C.rbytes(rng, rng.choice([0, 7, 15, 17, 24]))
        yield "dumps", "dumps " + fmt_fields(f)

    # ------------------------------------------------------------------ parse
    for rep in range(3 if thorough else 1):
        f = rfields(rng, rng.choice([0, 5, 9]))
        f["size"] = 51 + len(f["info"])
        full = own_encode(f) + C.rbytes(rng, 3)
        for n in range(len(full) + 1):
            if mine():
                yield "parse", "parse " + C.hx(full[:n])
    for il in [0, 1, 4, 30]:
        for extra in [0, 1, 5]:
            f = rfields(rng, il)
            body = own_encode(f)[8:] + C.rbytes(rng, extra)
            avail = il + extra
            for size in sorted({0, 1, 50, 51, 52, 51 + il - 1, 51 + il, 51 + il + 1, 51 + avail - 1, 51 + avail, 51 + avail + 1,
                                51 + avail + 2, 2 ** 31, 2 ** 32 - 1, 2 ** 32 - 52, 0x33000000, 0x00330000}):
                if size < 0 or not mine():
                    continue
                for magic in ([MAGIC] if not thorough else [MAGIC, 0]):
                    yield "parse", "parse " + C.hx(struct.pack(">II", magic, size) + body)
    for name, w in INT_FIELDS:
        for v in [0, 1, 256 ** w - 1, 256 ** w // 2, 0x0102030405060708 % 256 ** w]:
            if not mine():
                continue
            f = rfields(rng)
            f[name] = v
            if name != "size":
                f["size"] = 51 + len(f["info"])
            yield "parse", "parse " + C.hx(own_encode(f) + C.rbytes(rng, 60))
    for _ in range(vol(400, 8000)):
        r = rng.random()
        if r < 0.3:
            d = C.rbytes(rng, rng.choice([0, 1, 7, 8, 58, 59, 60, 64, 100, 128]))
        elif r < 0.5:
            # random header whose size field is near the available length
            avail = rng.randrange(0, 40)
            size = max(0, 51 + avail + rng.choice([-2, -1, 0, 0, 1, 2, -51, 10]))
            d = struct.pack(">II", rng.choice([MAGIC, rng.getrandbits(32)]), size) + C.rbytes(rng, 51 + avail)
        else:
            f = rfields(rng, rng.randrange(0, 120))
            d = own_encode(f) + C.rbytes(rng, rng.choice([0, 0, 1, 9]))
            if rng.random() < 0.3:
                d = d[: rng.randrange(0, len(d) + 1)]
        yield "parse", "parse " + C.hx(d)

    # ------------------------------------------------------------------ enc / rt
    magics = [MAGIC, 0, 0xBEEE, 0xBEF0, 0xBEEF0000, 0xEFBE0000, 0x1BEEF, 0xFFFFBEEF, 0xBE, 0xEF, 2 ** 32 - 1]
    for right, _wrong in keys_right:
        kb = ksize[right]
        limit = kb - 11 - HEADER
        reps = 3 if thorough else 1
        for il in range(0, limit + 3):
            for rep in range(reps):
                if not mine():
                    continue
                f = rfields(rng, il)
                yield "enc", f"enc {right} {kb} " + fmt_fields(f)
                f = rfields(rng, il)
                yield "rt", f"rt {right} {kb} " + fmt_fields(f)
        for name, w in INT_FIELDS:
            for v in boundary_values(w)[: (9 if thorough else 5)]:
                if not mine():
                    continue
                f = rfields(rng, rng.choice([0, 7, limit]))
                f[name] = v
                yield "enc", f"enc {right} {kb} " + fmt_fields(f)
                if name == "magic":
                    f = dict(f)
                else:
                    f = rfields(rng, rng.choice([0, 7, limit]))
                    f[name] = v
                yield "rt", f"rt {right} {kb} " + fmt_fields(f)
        for mg in magics:
            if mine():
                yield "rt", f"rt {right} {kb} " + fmt_fields(rfields(rng, rng.choice([0, 4, limit]), magic=mg))
        for n in [0, 1, 15, 17, 24, 32]:
            for il in [0, 3, limit - 1, limit]:
                if not mine() or il < 0:
                    continue
                f = rfields(rng, il)
                f["aes_rand"] = C.rbytes(rng, n)
                yield "enc", f"enc {right} {kb} " + fmt_fields(f)
                yield "rt", f"rt {right} {kb} " + fmt_fields(f)
        for _ in range(vol(150, 3000)):
            il = rng.choice([rng.randrange(0, limit + 1), limit, limit + 1, rng.randrange(limit + 1, limit + 200), 0])
            f = rfields(rng, il, magic=rng.choice([MAGIC] * 6 + magics))
            if rng.random() < 0.08:
                n, w = rng.choice(INT_FIELDS)
                f[n] = 256 ** w + rng.choice([0, 5])
            op = rng.choice(["enc", "rt", "rt"])
            yield op, f"{op} {right} {kb} " + fmt_fields(f)

    # ------------------------------------------------------------------ dec
    for right, wrong in keys_right:
        kb = ksize[right]
        limit = kb - 11 - HEADER
        kn = key(right).n

        def dec_line(blob, kid=right):
            return "dec", f"dec {kid} {C.hx(blob)} {direct_decrypt(kid, blob)}"

        # crafted plaintexts encrypted with the real public key (pycryptodome called directly)
        pts = []
        base = rfields(rng, 6)
        base["size"] = 51 + 6
        good = own_encode(base)
        pts += [good[:n] for n in range(0, len(good) + 1)]                      # every truncation incl. empty
        pts += [good + C.rbytes(rng, n) for n in (1, 2, 10, limit - 6)]         # trailing bytes
        for mg in magics[1:]:
            pts.append(struct.pack(">I", mg) + good[4:])                        # wrong magic
        for il in [0, 1, 6, limit]:
            f = rfields(rng, il)
            body = own_encode(f)[8:]
            for size in sorted({0, 1, 50, 51, 52, 51 + il - 1, 51 + il, 51 + il + 1, 2 ** 32 - 1, 51 + il + 1000}):
                if size >= 0:
                    pts.append(struct.pack(">II", MAGIC, size) + body)          # size < 51, == , larger than the data
        for name, w in INT_FIELDS[2:]:
            for v in (0, 256 ** w - 1):
                f = rfields(rng, 3)
                f["size"] = 54
                f[name] = v
                pts.append(own_encode(f))
        for n in [1, 2, 3, 4, 8, 58, 59, 60, kb - 11]:
            pts.append(C.rbytes(rng, n))                                        # random plaintexts
            pts.append(bytes(n))
        for pt in pts:
            if len(pt) > kb - 11 or not mine():
                continue
            yield dec_line(direct_encrypt(right, pt, rng))
        # every valid info length once
        for il in range(0, limit + 1, 1 if thorough else 3):
            if mine():
                f = rfields(rng, il)
                f["size"] = 51 + il
                yield dec_line(direct_encrypt(right, own_encode(f), rng))
        # transport white space / padding around and inside the edge of a blob: a valid blob wrapped in CR LF, blanks, NULs, '=' is
        # NOT a blob of k bytes (ValueError), and valid blobs whose own first / last two bytes are such characters
        # (corpus/C06/ws_blobs.txt, 1 in 65536 of all ciphertexts; tools/mk_c06_ws_corpus.py) decrypt like any other
        f = rfields(rng, 5)
        f["size"] = 56
        vblob = direct_encrypt(right, own_encode(f), rng)
        for ws in (b"\r\n", b"\n", b"\r", b" ", b"\t", b"\x00", b"=", b"  ", b"\r\n\r\n"):
            for blob in (vblob + ws, ws + vblob, ws + vblob + ws, vblob[:-len(ws)] + ws, ws + vblob[len(ws):]):
                if mine():
                    yield dec_line(blob)
        for ln in WS_BLOBS:
            kid, _how, _pat, hexblob = ln.split()
            if kid == right and mine():
                yield dec_line(bytes.fromhex(hexblob))
            if kid == wrong and ksize[wrong] == kb and mine():
                yield dec_line(bytes.fromhex(hexblob))                          # under the other key of the pair
        # wrong key, same modulus size
        if ksize[wrong] == kb:
            for _ in range(vol(24, 300)):
                f = rfields(rng, rng.randrange(0, limit + 1))
                f["size"] = 51 + len(f["info"])
                # (the same blob under two keys in sequence is the business of the `hist` stream, whose lines replay on their own)
                yield dec_line(direct_encrypt(wrong, own_encode(f), rng))
                yield dec_line(direct_encrypt(right, own_encode(f), rng), wrong)
        # special integers and wrong lengths
        specials = [bytes(kb), bytes(kb - 1) + b"\x01", b"\xff" * kb, long_to_bytes(kn, kb), long_to_bytes(kn - 1, kb),
                    long_to_bytes(kn + 1, kb), b"", b"\x00", C.rbytes(rng, kb - 1), C.rbytes(rng, kb + 1), C.rbytes(rng, 2 * kb),
                    C.rbytes(rng, kb // 2), b"\x00" + C.rbytes(rng, kb), C.rbytes(rng, 16)]
        for blob in specials:
            if mine():
                yield dec_line(blob)
        # hand-made encryption blocks (textbook RSA) with broken PKCS#1 framing around a valid metadata
        f = rfields(rng, 4)
        f["size"] = 55
        pt = own_encode(f)
        ps = kb - 3 - len(pt)
        ems = [b"\x00\x02" + b"\xaa" * ps + b"\x00" + pt,                       # valid
               b"\x00\x01" + b"\xff" * ps + b"\x00" + pt,                       # block type 1
               b"\x00\x02" + b"\xaa" * (ps + 1) + pt,                           # no separator (unless pt has a 0 byte)
               b"\x00\x02" + b"\xaa" * 7 + b"\x00" + b"\xaa" * (ps - 8) + b"\x00" + pt,   # PS shorter than 8
               b"\x00\x02" + b"\xaa" * 8 + b"\x00" + b"\xaa" * (ps - 9) + b"\x00" + pt,   # PS of exactly 8: plaintext starts with aa..
               b"\x00\x02" + b"\xaa" * (kb - 3) + b"\x00",                      # empty message
               b"\x00\x00" + b"\xaa" * ps + b"\x00" + pt]
        for em in ems:
            if len(em) == kb and mine():
                yield dec_line(raw_rsa(right, em))
        # random blobs of modulus length and near-valid bit flips
        for _ in range(vol(80, 1500)):
            r = rng.random()
            if r < 0.6:
                blob = C.rbytes(rng, kb)
                if rng.random() < 0.5:
                    blob = bytes([rng.randrange(0, (kn >> (8 * (kb - 1))) + 1)]) + blob[1:]
            elif r < 0.8:
                blob = C.rbytes(rng, rng.choice([0, 1, 2, kb - 2, kb - 1, kb + 1, kb + 2, 3 * kb, 64, 129, 255, 257]))
            else:
                f = rfields(rng, rng.randrange(0, limit + 1))
                f["size"] = 51 + len(f["info"])
                blob = bytearray(direct_encrypt(right, own_encode(f), rng))
                blob[rng.randrange(kb)] ^= 1 << rng.randrange(8)
                blob = bytes(blob)
            yield dec_line(blob)
        # random valid / semi-valid plaintexts
        for _ in range(vol(100, 2500)):
            f = rfields(rng, rng.randrange(0, limit + 1), magic=rng.choice([MAGIC] * 5 + magics))
            r = rng.random()
            if r < 0.6:
                f["size"] = 51 + len(f["info"])
            pt = own_encode(f)
            if r > 0.85:
                pt = pt[: rng.randrange(0, len(pt) + 1)]
            elif r > 0.75 and len(pt) < kb - 11:
                pt = pt + C.rbytes(rng, rng.randrange(1, kb - 11 - len(pt) + 1))
            if len(pt) <= kb - 11:
                yield dec_line(direct_encrypt(right, pt, rng))

    # ------------------------------------------------------------------ derive
    for n in [0, 1, 15, 16, 17, 31, 32, 33, 55, 56, 64, 100]:
        for ivn in [None, 16, 0, 3]:
            if not mine():
                continue
            r = C.rbytes(rng, n)
            iv = "none" if ivn is None else C.hx(C.rbytes(rng, ivn))
            yield "derive", f"derive {C.hx(r)} {iv} {C.hx(hashlib.sha256(r).digest())}"
    for r in (bytes(16), b"\xff" * 16, bytes(range(16)), b"abcdefghijklmnop"):
        if mine():
            yield "derive", f"derive {C.hx(r)} none {C.hx(hashlib.sha256(r).digest())}"
    for _ in range(vol(300, 6000)):
        r = C.rbytes(rng, 16 if rng.random() < 0.85 else rng.randrange(0, 70))
        iv = "none" if rng.random() < 0.5 else C.hx(C.rbytes(rng, rng.choice([16, 16, 16, 0, 8, 32])))
        yield "derive", f"derive {C.hx(r)} {iv} {C.hx(hashlib.sha256(r).digest())}"

    # ------------------------------------------------------------------ hist
    # committed keys: every shard builds the same list (own PRNG), sharded by position; seed key: per shard
    hrng = random.Random(f"C06-hist-{seed}")
    for i, steps in enumerate(gen_hist(tier, hrng, [("k1024a", "k1024b"), ("k2048a", "k2048b")], ksize)):
        if i % nshards == shard:
            yield "hist", "hist " + " | ".join(steps)
    for steps in gen_hist("quick", rng, [(gkey, "k1024a")], ksize)[: (40 if thorough else 10)]:
        yield "hist", "hist " + " | ".join(steps)


def _dec_step(kid, blob):
    return f"dec {kid} {C.hx(blob)} {direct_decrypt(kid, blob)}"


def _derive_step(r, iv=None):
    return f"derive {C.hx(r)} {'none' if iv is None else C.hx(iv)} {C.hx(hashlib.sha256(r).digest())}"


def _valid_fields(rng, il):
    f = rfields(rng, il)
    f["size"] = 51 + il
    return f


TRICKY_SEEDS = [b"0123456789abcdef", b"0123456789ABCDEF", b" 123456789abcdef", b"123456789abcdef ", b"123456789abcdef", b"\t\n\r 0aA9fF \t\n\r x",
                b"0" * 16, b"0" * 15, b"0" * 17, b"\x00" * 16, b"\x00" * 15, b"\x00" * 32, b"A" * 16, b"a" * 16, b"\xff" * 16, b"\xff" * 15 + b"\xfe",
                b"abc\x00", b"abc", b"abc\x00\x00", b"deadbeefdeadbeef", b"DEADBEEFDEADBEEF", bytes.fromhex("deadbeefdeadbeef"), b" " * 16, b"\n" * 16,
                b"0x0123456789abcd", b"1" + b"0" * 15, b"0" * 15 + b"1", b""]


def gen_hist(tier, rng, keys_right, ksize):
    """Histories (lists of step strings); the caller shards them."""
    thorough = tier == "thorough"
    out = []
    # ---- A: the same blob under different keys / corrupted copies / other blobs, in many orders
    for right, wrong in keys_right:
        kb = ksize[right]
        limit = kb - 11 - HEADER
        same = ksize[wrong] == kb
        for rep in range(12 if thorough else 3):
            il = rng.choice([0, 5, limit, rng.randrange(0, limit + 1)])
            f = _valid_fields(rng, il)
            pt = own_encode(f)
            blob = direct_encrypt(right, pt, rng)
            corrupt = bytearray(blob)
            corrupt[rng.randrange(kb)] ^= 1 << rng.randrange(8)
            corrupt = bytes(corrupt)
            other = direct_encrypt(right, own_encode(_valid_fields(rng, rng.randrange(0, limit + 1))), rng)
            badmagic = direct_encrypt(right, struct.pack(">I", 0xBEEE) + pt[4:], rng)
            short = direct_encrypt(right, pt[: rng.choice([0, 1, 8, 58])], rng)
            A, B = _dec_step(right, blob), _dec_step(wrong, blob)
            pool = [A, B, _dec_step(right, corrupt), _dec_step(wrong, corrupt), _dec_step(right, other), _dec_step(right, badmagic),
                    _dec_step(right, short), _dec_step(wrong, short), _dec_step(right, blob[:-1]), _dec_step(right, blob + b"\x00"),
                    "parse " + C.hx(pt), "parse " + C.hx(pt[:-1] if il else pt[:58]), "parse " + C.hx(pt + b"zz")]
            if not same:
                pool.append(_dec_step(wrong, direct_encrypt(wrong, pt, rng)))
            fixed = [[A, B], [B, A], [A, B, A], [A, A, B, B], [A, _dec_step(right, corrupt), A], [_dec_step(right, corrupt), A, B],
                     [_dec_step(right, badmagic), A, _dec_step(right, badmagic)], [_dec_step(right, short), A, _dec_step(right, short), B]]
            out += fixed if rep < 2 else fixed[:3]
            for _ in range(6 if thorough else 2):
                n = rng.randrange(2, 7)
                steps = [rng.choice(pool) for _ in range(n)]
                steps.insert(rng.randrange(0, n), A)
                steps.insert(rng.randrange(1, n + 2), B)
                out.append(steps[:8])
    # ---- A': 1024 then 2048 then 1024 again, blobs presented to the key of the other size
    if any(k == "k1024a" for k, _ in keys_right):
        for rep in range(6 if thorough else 2):
            f = _valid_fields(rng, rng.choice([0, 9, 58]))
            b1 = direct_encrypt("k1024a", own_encode(f), rng)
            b2 = direct_encrypt("k2048a", own_encode(f), rng)
            out.append([_dec_step("k1024a", b1), _dec_step("k2048a", b2), _dec_step("k1024a", b2), _dec_step("k2048a", b1),
                        _dec_step("k1024a", b1), _dec_step("k2048b", b2)])
            out.append([f"rt k1024a 128 {fmt_fields(f)}", f"rt k2048a 256 {fmt_fields(f)}", f"enc k1024a 128 {fmt_fields(f)}",
                        f"enc k2048a 256 {fmt_fields(f)}", f"rt k1024a 128 {fmt_fields(f)}"])
    # ---- B: ONE metadata object encrypted repeatedly, mutated in between (size must be recomputed every time)
    for right, _wrong in keys_right:
        kb = ksize[right]
        limit = kb - 11 - HEADER
        other_key, okb = ("k2048a", 256) if kb == 128 else ("k1024a", 128)
        for start in ([limit - 1, limit, limit + 1, 0, 3] if thorough else [limit - 1, limit, limit + 1, 0]):
            f = rfields(rng, start)
            i_lim, i_over, i_under = C.rbytes(rng, limit), C.rbytes(rng, limit + 1), C.rbytes(rng, limit - 1)
            out.append([f"new {fmt_fields(f)}", f"eo {right} {kb}", f"eo {right} {kb}", "show", f"set info {C.hx(i_lim)}", f"eo {right} {kb}",
                        f"set info {C.hx(i_over)}", f"eo {right} {kb}"])
            out.append([f"new {fmt_fields(f)}", f"set info {C.hx(i_over)}", f"ro {right} {kb}", "show", f"set info {C.hx(i_lim)}", f"ro {right} {kb}",
                        f"set info {C.hx(i_under)}", f"ro {right} {kb}"])
            out.append([f"new {fmt_fields(f)}", f"ro {right} {kb}", f"ro {other_key} {okb}", f"set info {C.hx(C.rbytes(rng, 2))}", f"eo {other_key} {okb}",
                        f"eo {right} {kb}", "show"])
        for rep in range(20 if thorough else 4):
            f = rfields(rng, rng.choice([0, 4, limit, limit + 1, rng.randrange(0, limit + 1)]))
            steps = [f"new {fmt_fields(f)}"]
            for _ in range(rng.randrange(2, 8)):
                r = rng.random()
                if r < 0.25:
                    steps.append(f"eo {right} {kb}")
                elif r < 0.45:
                    steps.append(f"ro {right} {kb}")
                elif r < 0.5:
                    steps.append(f"ro {other_key} {okb}")
                elif r < 0.7:
                    steps.append(f"set info {C.hx(C.rbytes(rng, rng.choice([0, 1, limit - 1, limit, limit + 1, rng.randrange(0, limit + 3)])))}")
                    steps.append(rng.choice([f"eo {right} {kb}", f"ro {right} {kb}"]))
                elif r < 0.85:
                    n, w = rng.choice(INT_FIELDS)
                    v = rng.choice([0, 1, 256 ** w - 1, 256 ** w, rng.randrange(256 ** w)])
                    if n == "magic" and rng.random() < 0.5:
                        v = MAGIC
                    steps.append(f"set {n} {v}")
                    steps.append(rng.choice([f"eo {right} {kb}", f"ro {right} {kb}", "show"]))
                elif r < 0.92:
                    steps.append(f"set aes_rand {C.hx(C.rbytes(rng, rng.choice([16, 16, 15, 17, 0])))}")
                else:
                    steps.append("show")
            out.append(steps[:9])
    # ---- C: key derivation repeated with different (and confusable) seeds
    if any(k == "k1024a" for k, _ in keys_right):
        for i in range(0, len(TRICKY_SEEDS) - 1):
            a, b = TRICKY_SEEDS[i], TRICKY_SEEDS[i + 1]
            out.append([_derive_step(a), _derive_step(b), _derive_step(a), _derive_step(b, bytes(16)), _derive_step(a, b"\x01" * 16)])
    for rep in range(40 if thorough else 8):
        seeds = [rng.choice(TRICKY_SEEDS + [C.rbytes(rng, 16), C.rbytes(rng, 16), bytes(rng.choice(b"0123456789abcdefABCDEF \t\n") for _ in range(16))])
                 for _ in range(rng.randrange(2, 7))]
        if rng.random() < 0.5:
            seeds.append(seeds[0])
        out.append([_derive_step(s_, rng.choice([None, None, C.rbytes(rng, 16), b"abcdefghijklmnop"])) for s_ in seeds])
    return out


# --------------------------------------------------------------------------------------------
# implementation adapter
# --------------------------------------------------------------------------------------------

def _check_k(kid, ktok):
    if key(kid).size_in_bytes() != int(ktok):
        raise RuntimeError(f"line says k={ktok} but key {kid} has {key(kid).size_in_bytes()} bytes")


def _exc_name(e: BaseException) -> str:
    """Same mapping as check.canon_exc (used for the steps of a history, which are caught here)."""
    for cls, name in ((EOFError, "EOFError"), (IndexError, "IndexError"), (KeyError, "KeyError"), (OverflowError, "OverflowError"),
                      (ValueError, "ValueError"), (OSError, "OSError"), (AttributeError, "AttributeError"), (TypeError, "TypeError"),
                      (AssertionError, "AssertionError"), (RecursionError, "RecursionError"), (MemoryError, "MemoryError")):
        if isinstance(e, cls):
            return name
    return type(e).__name__


def _encrypt(m, kid, padseed):
    """The library's encrypt_metadata with reproducible PKCS#1 padding bytes."""
    det = random.Random("C06-pad-" + padseed)
    saved = _CryptoRandom.get_random_bytes
    _CryptoRandom.get_random_bytes = lambda n: bytes(det.getrandbits(8) for _ in range(n))
    try:
        return c2.encrypt_metadata(m, key(kid).publickey())
    finally:
        _CryptoRandom.get_random_bytes = saved


def _enc_answer(m, kid, padseed):
    blob = _encrypt(m, kid, padseed)
    pt = PKCS1_v1_5.new(key(kid)).decrypt(blob, None)
    if pt is None:
        return "ok-but-undecryptable"
    return f"ok {len(blob)} {int(m.size)} {C.hx(pt)}"


def _rt_answer(m, kid, padseed):
    return "ok " + show_struct(c2.decrypt_metadata(_encrypt(m, kid, padseed), key(kid)))


def split_steps(line):
    w = line.split()
    assert w[0] == "hist"
    steps, cur = [], []
    for t in w[1:]:
        if t == "|":
            steps.append(cur)
            cur = []
        else:
            cur.append(t)
    steps.append(cur)
    return steps


def _garg(w, line):
    if w[1] == "dumps":
        x = pyuval_t07.pparse(w[2])
        n = len(x)
        return f"ok {pyuval_t07.pshow(n)} {pyuval_t07.pshow(x.dumps())}"
    kid = {"128": "k1024a", "256": "k2048a"}[w[2]]
    x = pyuval_t07.pparse(w[3])
    blob = _encrypt(x, kid, line)
    pt = PKCS1_v1_5.new(key(kid)).decrypt(blob, None)
    return f"ok {len(blob)} {int(x.size)} {C.hx(pt)} {pyuval_t07.pshow(x)}"


def impl(stream, line):
    if stream == "g-arg":
        return _garg(line.split(), line)
    if stream == "pyu":
        return pyuval_t07.run(line)
    if stream.startswith("g-"):
        return impl(stream[2:], line[1:])       # the same real functions
    if stream == "hist":
        # all steps in this one invocation: same process, same module state, same caller-side object
        obj = None
        answers = []
        for i, w in enumerate(split_steps(line)):
            try:
                if w[0] == "new":
                    obj = mk(parse_fields(w[1:]))
                    a = "ok"
                elif w[0] == "set":
                    setattr(obj, w[1], C.unhx(w[2]) if w[1] in ("aes_rand", "info") else int(w[2]))
                    a = "ok"
                elif w[0] == "show":
                    a = "ok " + show_struct(obj)
                elif w[0] in ("eo", "ro"):
                    _check_k(w[1], w[2])
                    a = (_enc_answer if w[0] == "eo" else _rt_answer)(obj, w[1], f"{line}#{i}")
                else:
                    a = impl(w[0], " ".join(w))
            except RuntimeError:
                raise
            except Exception as e:  # noqa: BLE001 - the outcome of a step is part of the observable
                a = "exc " + _exc_name(e)
            answers.append(a)
        return " | ".join(answers)
    w = line.split()
    if stream == "dumps":
        m = mk(parse_fields(w[1:]))
        n = len(m)
        return f"ok {n} {C.hx(m.dumps())}"
    if stream == "parse":
        return "ok " + show_struct(BeaconMetadata(C.unhx(w[1])))
    if stream in ("enc", "rt"):
        kid = w[1]
        _check_k(kid, w[2])
        m = mk(parse_fields(w[3:]))
        return (_enc_answer if stream == "enc" else _rt_answer)(m, kid, line)
    if stream == "dec":
        return "ok " + show_struct(c2.decrypt_metadata(C.unhx(w[2]), key(w[1])))
    if stream == "derive":
        r = C.unhx(w[1])
        a, h = c2.derive_aes_hmac_keys(r)
        md = BeaconMetadata(aes_rand=r)
        if w[2] == "none":
            k1 = c2.BeaconKeys.from_aes_rand(r)
            k2 = c2.BeaconKeys.from_beacon_metadata(md)
        else:
            iv = C.unhx(w[2])
            k1 = c2.BeaconKeys.from_aes_rand(r, iv=iv)
            k2 = c2.BeaconKeys.from_beacon_metadata(md, iv=iv)
        return " ".join(C.hx(x) for x in (a, h, k1.aes_key, k1.hmac_key, k1.iv, k2.aes_key, k2.hmac_key, k2.iv))
    raise RuntimeError("unknown stream " + stream)


# --------------------------------------------------------------------------------------------
# oracle: the property stated on the implementation's output with the independent codec
# --------------------------------------------------------------------------------------------

def expected(w):
    """The stateless single-call answer the property demands, from the independent codec (op = w[0])."""
    op = w[0]
    if op == "dumps":
        f = parse_fields(w[1:])
        if not in_range(f):
            return "exc error"
        d = own_encode(f)
        return f"ok {len(d)} {C.hx(d)}"
    if op == "parse":
        f = own_decode(C.unhx(w[1]))
        return "exc EOFError" if f is None else "ok " + fmt_fields(f)
    if op in ("enc", "rt"):
        return _expected_encrypt(op, int(w[2]), parse_fields(w[3:]))[0]
    if op == "dec":
        prim = w[3]
        if prim in ("V", "none"):
            return "exc ValueError"
        return expect_decrypt(C.unhx(prim))
    if op == "derive":
        r = C.unhx(w[1])
        d = hashlib.sha256(r).digest()
        iv = b"abcdefghijklmnop" if w[2] == "none" else C.unhx(w[2])
        assert len(d[:16]) == 16 and len(d[16:]) == 16
        return " ".join(C.hx(x) for x in (d[:16], d[16:], d[:16], d[16:], iv, d[:16], d[16:], iv))
    raise RuntimeError("unknown op " + op)


def _expected_encrypt(op, kb, f):
    """(expected answer, fields of the caller's object afterwards)"""
    if not in_range(f):
        return "exc error", f                       # len(metadata) raised: size untouched
    n = len(own_encode(f))
    f2 = dict(f, size=n - 8)                        # metadata.size = len(metadata) - 8
    if not in_range(f2):
        return "exc error", f2
    pt = own_encode(f2)
    if len(pt) > kb - 11:
        return "exc ValueError", f2
    if op == "enc":
        return f"ok {kb} {n - 8} {C.hx(pt)}", f2
    exp = expect_decrypt(pt)
    if len(f["aes_rand"]) == 16 and f["magic"] == MAGIC:
        # the statement of the property itself: field for field, size made consistent
        assert exp == "ok " + fmt_fields(dict(f, size=51 + len(f["info"]))), "oracle self-check"
    return exp, f2


def oracle(stream, line, out):
    if stream.startswith("g-") or stream == "pyu":
        return None
    if stream == "hist":
        obj = None
        exp = []
        for w in split_steps(line):
            if w[0] == "new":
                obj = parse_fields(w[1:])
                exp.append("ok")
            elif w[0] == "set":
                obj = dict(obj)
                obj[w[1]] = C.unhx(w[2]) if w[1] in ("aes_rand", "info") else int(w[2])
                exp.append("ok")
            elif w[0] == "show":
                exp.append("ok " + fmt_fields(obj))
            elif w[0] in ("eo", "ro"):
                a, obj = _expected_encrypt("enc" if w[0] == "eo" else "rt", int(w[2]), obj)
                exp.append(a)
            else:
                exp.append(expected(w))
        return out == " | ".join(exp)
    return out == expected(line.split())


def nontrivial(stream, line, out):
    if stream == "pyu":
        return not out.startswith("exc ")
    if stream == "g-arg":
        return True
    if stream.startswith("g-"):
        return nontrivial(stream[2:], line[1:], out)
    w = line.split()
    if stream in ("dumps", "enc", "rt"):
        toks = w[1:] if stream == "dumps" else w[3:]
        return any(t not in ("0", "x", "x" + "00" * 16) for t in toks)
    if stream == "parse":
        return w[1] != "x"
    if stream == "dec":
        return w[2] != "x"
    if stream == "derive":
        return w[1] != "x"
    if stream == "hist":
        return len(split_steps(line)) >= 2
    return True


# --------------------------------------------------------------------------------------------
# shrinking (keeps the primitive results on the line consistent with the shrunk input)
# --------------------------------------------------------------------------------------------

def shrink(stream, line):
    if stream in ("pyu", "g-arg"):
        return
    if stream.startswith("g-"):
        for cand in shrink(stream[2:], line[1:]):
            yield "g" + cand
        return
    w = line.split()
    if stream in ("dumps", "parse"):
        yield from C.shrink_tokens(line)
    elif stream in ("enc", "rt"):
        for cand in C.shrink_tokens("m " + " ".join(w[3:])):
            toks = cand.split(" ")[1:]
            if len(toks) == 17 and all(toks):
                yield " ".join(w[:3] + toks)
    elif stream == "dec":
        for cand in C.shrink_tokens("b " + w[2]):
            blob = C.unhx(cand.split(" ")[1])
            yield f"dec {w[1]} {C.hx(blob)} {direct_decrypt(w[1], blob)}"
    elif stream == "derive":
        for cand in C.shrink_tokens(f"d {w[1]} {w[2]}"):
            t = cand.split(" ")
            r = C.unhx(t[1])
            yield f"derive {t[1]} {t[2]} {C.hx(hashlib.sha256(r).digest())}"
    # `hist` lines are not shrunk: a history exists to expose state kept between calls, and the shrinker re-executes
    # candidates in one long-lived process where such state accumulates — a shrunk history would not replay from a fresh process.

"""C08 — untrusted input never crashes or hangs the parsers: generators (a fuzzer's view of every entry point that accepts
untrusted bytes) + adapters to the real library.

One line = one call of one entry point on one input:

  ff     <b|F<pos>|o|p> <B> <allkeys T|F> <data> <tag>   BeaconConfig.from_bytes / from_file(BytesIO at pos) / from_file(open rb) / from_path
  xor    <B|O> <B> <data> <tag>                          XorEncodedFile.from_file
  mz arch stamps mmz mpe ppa  <B|O> <data> <tag>         pe.find_*(fh)
  ppaL   <L> <B|O> <data> <tag>                          pe.find_stage_prepend_append; L = largest offset seek() accepts on the
                                                         file system holding the temporary files (measured once per run)
  art    <B|O> <data> <tag>                              list(iter_artifactkit_payloads(fh))
  http   <data> <tag>                                    parse_raw_http

`B` = io.BytesIO, `O` = real temporary file opened "rb"; <B> = io.DEFAULT_BUFFER_SIZE during the call; <tag> names the
generator class of the input (ignored by model and implementation).  Compared: the full rendered outcome
(result kind + values, or the exception class, or `exc Timeout` from the runner's watchdog).
"""
from __future__ import annotations

import io
import itertools
import json
import os
import struct
import tempfile
import time

from dissect.cobaltstrike import artifact, c2, pe, xordecode
from dissect.cobaltstrike.beacon import BeaconConfig

from . import c01 as H01
from . import c17 as H17
from . import c18 as H18
from . import common as C

ID = "C08"
DRIVER = "drv_c08"
GEN = ["extract", "beacon", "c16_unicode", "guardrails", "version", "pestruct", "py_utils", "py_scan", "py_pe"]
# the PE entry points translated from their source (Gen/PyPe.lean): "never raises" restated for the translated definitions
EXTRA_PROP_FILES = ["Props/C08Gen.lean"]
PE_OPS = ("mz", "arch", "stamps", "mmz", "mpe", "ppa")
STREAMS = {
    "ff": {"relevant": True, "desc": "BeaconConfig.from_bytes / from_file (BytesIO, OS file) / from_path, default keys"},
    "ffall": {"relevant": True, "desc": "the same with all_xor_keys=True"},
    "xor": {"relevant": True, "desc": "XorEncodedFile.from_file on BytesIO / OS file"},
    "pe": {"relevant": True, "desc": "the six pe.find_* helpers on BytesIO / OS file"},
    "pelimit": {"relevant": True, "desc": "pe.find_stage_prepend_append with Σ SizeOfRawData around the largest offset the file "
                                           "system of the temporary file accepts (measured at start-up): the rejected seek (OS file) and "
                                           "the accepted one (BytesIO) must both give (prepend, None)"},
    "art": {"relevant": True, "desc": "iter_artifactkit_payloads run to completion on BytesIO / OS file"},
    "http": {"relevant": True, "desc": "parse_raw_http"},
}
TRUSTED = [
    "tools/harness/c08.py generators, adapters and the per-call watchdog of tools/check.py (30 s, retried once with 120 s); "
    "line protocol parsing in lean/CsVerif/Driver/C08.lean",
    "the composed models C15/C09/C01/C02/C17/C18/C16 (modelled, not verified: CPython file objects, dissect.cstruct reads, "
    "bytes.find, Counter.most_common, urllib.parse); the XorEncoded view handed to pe.find_* / iter_guardrail_configs is "
    "run as an ordinary file over the decoded bytes (C09 history_refines)",
]
ASSUMPTIONS = [
    "a file object's seek fails only with OSError / OverflowError / ValueError (offset above the file system's or the object's "
    "largest offset, negative offset); the only seek of the anchored code whose argument can exceed 2^34 is the guarded one of "
    "find_stage_prepend_append (Lean: for every limit L)",
    "reads of an attacker-chosen size (ArtifactKit `fobj.read(size)`, size < 2^32) succeed: CPython's BufferedReader allocates "
    "the requested size up front, i.e. 4 GiB of (untouched) address space must be available — under `ulimit -v` below that the "
    "scanner raises MemoryError on a 22-byte real file (observation, environment-dependent, not reproduced by the harness)",
    "wall-clock time is not a Lean notion: termination is proved, the running time is only observed (watchdog) — inputs with "
    "hundreds of `ff ff ff` markers / size-consistent nonce offsets in the first 1 KiB cost ~20 ms per candidate and call "
    "(Lean: at most |data| + 1024 candidates, 1024 steps each, `detector_step_bound`), every Guardrails marker behind offset 6138 "
    "costs one key recovery of ~0.2 s (Lean: at most |data| records, `guard_scan_bound`); both are generated in bounded numbers "
    "(<= 90 markers, <= 7 guard markers per input) so that no call comes near the 30 s watchdog (see the measured worst cases in RULE)",
    "xor_keys is left at its default (it is configuration, not untrusted input); all_xor_keys is exercised both ways",
]
RULE = ("per entry point: exhaustive short strings over {00,01,ff,'M','Z',69,2e,8a}, runs, random up to 64 KiB, and for every valid "
        "synthetic payload kind (raw block, PE-embedded, XorEncoded stage, Guardrails-protected, ArtifactKit, HTTP) every "
        "truncation / bit+byte flips / splices / crafted structure fields; distinct = hash of (stream, line); non-trivial = the "
        "input derives from a valid payload or a crafted structure, or the real code found something")

HEADER = bytes.fromhex("00010001000200")
ALPHA8 = [0x00, 0x01, 0xFF, 0x4D, 0x5A, 0x69, 0x2E, 0x8A]
ALPHA4 = [0x00, 0x01, 0xFF, 0x2E]
ALPHA3 = [0x00, 0xFF, 0x4D]
AMD64, I386 = 0x8664, 0x14C


# --------------------------------------------------------------------------------------------------
# rendering (same format as Driver/C08.lean)
# --------------------------------------------------------------------------------------------------

def ck(b: bytes) -> int:
    a = 7
    for x in b:
        a = (a * 31 + x) & 0xFFFFFFFF
    return a


def ob(b):
    return "none" if b is None else C.hx(b)


def oi(v):
    return "none" if v is None else str(int(v))


def show_bc(bc) -> str:
    if not isinstance(bc, BeaconConfig):
        raise TypeError("from_file returned " + type(bc).__name__)
    kind = "guard" if bc.guardrails is not None else "cfg"
    if not isinstance(bc.xorkey, bytes) or not isinstance(bc.xorencoded, bool):
        raise TypeError("xorkey / xorencoded have unexpected types")
    blk = bytes(bc.config_block)
    arch = bc.architecture
    if arch not in (None, "x86", "x64"):
        raise TypeError("architecture " + repr(arch))
    return (f"ok {kind} {C.hx(bc.xorkey)} {C.tf(bc.xorencoded)} {len(blk)}.{ck(blk)} {len(bc.settings_tuple)} "
            f"{oi(bc.pe_compile_stamp)} {oi(bc.pe_export_stamp)} {arch or 'none'}")


def show_hits(hits) -> str:
    acc = 0
    for h in hits:
        acc = (acc * 1000003 + h.offset * 7919 + h.size * 31 + len(h.payload) * 3 + ck(h.xorkey) + ck(h.hints)) & 0xFFFFFFFF
    return f"ok {len(hits)} {acc}"


def show_http(m) -> str:
    if isinstance(m, c2.HttpRequest):
        return f"ok request {len(m.params)} {len(m.headers)} {len(m.body)}"
    if isinstance(m, c2.HttpResponse):
        return f"ok response {int(m.status)} {len(m.headers)} {len(m.body)}"
    raise TypeError("parse_raw_http returned " + type(m).__name__)


# --------------------------------------------------------------------------------------------------
# find_stage_prepend_append and the largest offset a real file accepts (finding C08-ppa-seek-beyond-fs-limit, repaired by
# fix ce8ae1d: the final seek is inside try/except (OSError, OverflowError, ValueError))
# --------------------------------------------------------------------------------------------------

_FS_LIMIT = None


def fs_limit() -> int:
    """largest offset `seek` accepts on a real file in /tmp/C08 (ext4, 4 KiB blocks: 2**44 - 4096; tmpfs/xfs: 2**63 - 1)"""
    global _FS_LIMIT
    if _FS_LIMIT is None:
        path = _tmpfile(b"abc")
        try:
            with open(path, "rb") as fh:
                def ok(off):
                    try:
                        fh.seek(off)
                        return True
                    except (OSError, OverflowError, ValueError):
                        return False
                lo, hi = 0, 2 ** 63 - 1
                if ok(hi):
                    lo = hi
                while lo + 1 < hi:
                    mid = (lo + hi) // 2
                    if ok(mid):
                        lo = mid
                    else:
                        hi = mid
                _FS_LIMIT = lo
        finally:
            os.unlink(path)
    return _FS_LIMIT


def ppa_seek_target(data: bytes):
    """independent computation (struct only) of the argument of the final `fh.seek(mz_offset + size)` of
    find_stage_prepend_append, or None when the function returns before it"""
    mz = None
    for off in range(1024):
        if H18.candidate(data, off, 1024) in (AMD64, I386):
            mz = off
            break
    if mz is None:
        return None
    e = int.from_bytes(data[mz + 60:mz + 64], "little", signed=True)
    fh = mz + e + 4
    if fh < 0 or fh + 20 > len(data):
        return None
    machine, nsec = struct.unpack_from("<HH", data, fh)
    if machine not in (AMD64, I386):
        return None
    osz = 240 if machine == AMD64 else 224
    opt = fh + 20
    if opt + osz + 40 * nsec > len(data):
        return None
    size = struct.unpack_from("<I", data, opt + 60)[0]
    for q in range(nsec):
        size += struct.unpack_from("<I", data, opt + osz + 40 * q + 16)[0]
    return mz + size


def ppa_expected_beyond_eof(data: bytes):
    """independent statement of the result of find_stage_prepend_append when the claimed image size points at or beyond the
    end of the data (whether the file object accepts the seek or rejects it): `(prepend, None)`; None = not applicable"""
    t = ppa_seek_target(data)
    if t is None or t < len(data):
        return None
    mz = next(off for off in range(1024) if H18.candidate(data, off, 1024) in (AMD64, I386))
    return f"ok {ob(data[:mz]) if mz > 0 else 'none'} none"


# --------------------------------------------------------------------------------------------------
# adapters
# --------------------------------------------------------------------------------------------------

class _Buf:
    def __init__(self, n):
        self.n = n

    def __enter__(self):
        self.old = io.DEFAULT_BUFFER_SIZE
        io.DEFAULT_BUFFER_SIZE = self.n

    def __exit__(self, *a):
        io.DEFAULT_BUFFER_SIZE = self.old


_MAIN_PID = os.getpid()
_SLOWDIR = f"/tmp/C08/slow_{_MAIN_PID}"
_slow = {}


def _note_time(stream, line, dt):
    w = line.split(" ")
    key = stream if stream != "pe" else "pe." + w[0]
    cur = _slow.get(key)
    if cur is None or dt > cur[0]:
        data_tok = w[-2]
        _slow[key] = (round(dt, 3), w[-1], (len(data_tok) - 1) // 2)
        try:
            os.makedirs(_SLOWDIR, exist_ok=True)
            with open(os.path.join(_SLOWDIR, f"{os.getpid()}.json"), "w") as fh:
                json.dump(_slow, fh)
        except OSError:
            pass


def _tmpfile(data: bytes) -> str:
    os.makedirs("/tmp/C08", exist_ok=True)
    fd, path = tempfile.mkstemp(prefix="c08_", dir="/tmp/C08")
    with os.fdopen(fd, "wb") as fh:
        fh.write(data)
    return path


def impl(stream, line):
    t0 = time.perf_counter()
    try:
        return _impl(stream, line)
    finally:
        _note_time(stream, line, time.perf_counter() - t0)


def _with_file(kind, data, fn):
    """run fn(fh) on io.BytesIO (`B`) or on a real file opened "rb" (`O`)"""
    if kind == "B":
        return fn(io.BytesIO(data))
    path = _tmpfile(data)
    try:
        with open(path, "rb") as fh:
            return fn(fh)
    finally:
        os.unlink(path)


def _impl(stream, line):
    w = line.split(" ")
    op = w[0]
    if op == "ff":
        kind, B, ak, data = w[1], int(w[2]), w[3] == "T", C.unhx(w[4])
        with _Buf(B):
            if kind == "b":
                return show_bc(BeaconConfig.from_bytes(data, all_xor_keys=ak))
            if kind[0] == "F":
                fobj = io.BytesIO(data)
                fobj.seek(int(kind[1:] or "0"))
                return show_bc(BeaconConfig.from_file(fobj, all_xor_keys=ak))
            path = _tmpfile(data)
            try:
                if kind == "p":
                    return show_bc(BeaconConfig.from_path(path, all_xor_keys=ak))
                with open(path, "rb") as fobj:
                    return show_bc(BeaconConfig.from_file(fobj, all_xor_keys=ak))
            finally:
                os.unlink(path)
    if op == "xor":
        kind, B, data = w[1], int(w[2]), C.unhx(w[3])

        def run(fh):
            xf = xordecode.XorEncodedFile.from_file(fh)
            if not isinstance(xf, xordecode.XorEncodedFile):
                raise TypeError("from_file returned " + type(xf).__name__)
            return f"ok {int(xf.nonce_offset)}"
        with _Buf(B):
            return _with_file(kind, data, run)
    if op == "art":
        kind, data = w[1], C.unhx(w[2])
        return _with_file(kind, data, lambda fh: show_hits(list(artifact.iter_artifactkit_payloads(fh))))
    if op == "http":
        return show_http(c2.parse_raw_http(C.unhx(w[1])))
    if op == "ppaL":
        kind, data = w[2], C.unhx(w[3])

        def run_ppa(fh):
            p, a = pe.find_stage_prepend_append(fh)
            return f"ok {ob(p)} {ob(a)}"
        return _with_file(kind, data, run_ppa)
    if op in PE_OPS:
        kind, data = w[1], C.unhx(w[2])
        # the handle stands at 0: `start_offset=None` ("search from the current position", documented) must answer exactly as the
        # default 0 does (C18.pe_start_none_is_tell) - passed in half of the cases, chosen from the case line
        import zlib as _zlib
        so = {"start_offset": None} if _zlib.crc32(line.encode()) % 2 else {}

        def run(fh):
            if op == "mz":
                return "ok " + oi(pe.find_mz_offset(fh, **so))
            if op == "arch":
                r = pe.find_architecture(fh, **so)
                if r not in (None, "x86", "x64"):
                    raise TypeError(repr(r))
                return "ok " + (r or "none")
            if op == "stamps":
                c, e = pe.find_compile_stamps(fh, **so)
                return f"ok {oi(c)} {oi(e)}"
            if op == "mmz":
                return "ok " + ob(pe.find_magic_mz(fh, **so))
            if op == "mpe":
                return "ok " + ob(pe.find_magic_pe(fh, **so))
            p, a = pe.find_stage_prepend_append(fh, **so)
            return f"ok {ob(p)} {ob(a)}"
        return _with_file(kind, data, run)
    raise AssertionError(line[:40])


# --------------------------------------------------------------------------------------------------
# oracle: the property on the implementation's outcome alone
# --------------------------------------------------------------------------------------------------

def _data_of(line):
    w = line.split(" ")
    return C.unhx(w[-2])


def oracle(stream, line, out):
    """outcome ∈ {documented result kind, ValueError where ValueError is documented}; plus the documented not-found value for
    inputs that cannot contain what is searched (decided from the input length alone)."""
    if out.startswith("exc "):
        if out != "exc ValueError":
            return False                     # EOFError / OSError / IndexError / OverflowError / Timeout / …
        return stream in ("ff", "ffall", "xor", "http")   # pe.find_* and the ArtifactKit scan document no exception at all
    if not out.startswith("ok"):
        return False
    n = len(_data_of(line))
    op = line.split(" ", 1)[0]
    if stream in ("ff", "ffall"):
        # a configuration needs the 7 header bytes (or a 6144+12 byte Guardrails area)
        return n >= 7
    if stream == "xor":
        return n >= 8 + 64 + 20              # nonce + size + DOS header + file header
    if stream in ("pe", "pelimit") and n < 64 + 20:       # no IMAGE_DOS_HEADER + IMAGE_FILE_HEADER fits: documented not-found values
        return out == {"mz": "ok none", "arch": "ok none", "stamps": "ok none none", "mmz": "ok none", "mpe": "ok none",
                       "ppa": "ok none none", "ppaL": "ok none none"}[op]
    if stream == "art" and n < 4:
        return out == "ok 0 0"
    if op in ("ppa", "ppaL"):
        # claimed image size at / beyond the end of the data (seek accepted or rejected by the file object): (prepend, None)
        exp = ppa_expected_beyond_eof(_data_of(line))
        if exp is not None:
            return out == exp
    return True


def nontrivial(stream, line, out):
    tag = line.rsplit(" ", 1)[1]
    derived = not (tag.startswith("short") or tag.startswith("rand") or tag.startswith("run"))
    if out.startswith("exc "):
        return derived
    if stream == "pelimit":
        return True
    if stream == "pe":
        return derived or "none" not in out.split(" ")[1:2]
    if stream == "art":
        return derived or not out.startswith("ok 0 ")
    return True


def shrink(stream, line):
    yield from C.shrink_tokens(line)


# --------------------------------------------------------------------------------------------------
# payload builders (independent of the library: struct.pack + the builders of the C01/C17/C18 harnesses)
# --------------------------------------------------------------------------------------------------

def bxor(data: bytes, key: bytes) -> bytes:
    return H01.bxor(data, key)


def calm(buf: bytearray, upto=1100, keep=()):
    """remove accidental `ff ff ff` markers from the first `upto` bytes (each costs a 1024-step MZ search per detector call)"""
    lim = min(len(buf), upto + 3)
    p = bytes(buf[:lim]).find(b"\xff\xff\xff")
    while p != -1:
        if p + 1 not in keep:
            buf[p + 1] = 0x7F
        else:
            buf[p] = 0x7F
        p = bytes(buf[:lim]).find(b"\xff\xff\xff")
    return buf


def settings_blob(rng, n=None, total=None) -> bytes:
    return H01.enc_settings(H01.mk_settings(rng, n, total))


def raw_block(rng, key: bytes, size=None, n=None, tail=None) -> bytes:
    """an obfuscated configuration block of `size` bytes (settings, 00 00, padding) under a single-byte key"""
    size = size if size is not None else rng.choice([64, 200, 512, 4096])
    tail = tail or ("rand" if 0xFF in key else rng.choice(["zero", "rand"]))
    return bxor(H01.cfg_block(rng, size, n, tail), key)


def pe_with_block(rng, key, arch=None, blocksize=None, **kw):
    """a synthetic PE image (C18 builder) with a configuration block planted behind the headers"""
    img = H18.Img(rng, arch=arch or rng.choice(["x86", "x64"]), lfanew=kw.pop("lfanew", rng.choice([64, 128, 200])),
                  nsec=kw.pop("nsec", rng.choice([1, 2, 3])), export=kw.pop("export", rng.choice(["in", "in", "out", "none"])), **kw)
    data = bytearray(img.build(rng))
    blk = raw_block(rng, key, blocksize or rng.choice([64, 200, 512]))
    off = len(data) + rng.choice([0, 1, 16])
    data += bytes(off - len(data)) + blk
    return img, bytes(calm(data)), off


def xor_stage(rng, plain: bytes, stublen=None, marker=None, good_size=None) -> bytes:
    stublen = rng.choice([0, 1, 5, 64, 300, 1000]) if stublen is None else stublen
    marker = rng.random() < 0.5 if marker is None else marker
    good_size = (rng.random() < 0.8 or not marker) if good_size is None else good_size
    if marker and stublen < 3:
        stublen = 3
    return H01.xor_stage(rng, plain, stublen, marker, good_size)


def guard_payload(rng, keylen=None, prefix=None, terminate=True, checksum_delta=0, opts=None):
    """prefix ++ masked beacon config (6144) ++ masked guard config (2048) ++ suffix; returns (payload, offset of the area)"""
    key = H17.make_key(rng, keylen or rng.choice([2, 3, 4, 8, 16, 31]))
    cfg, _ = H17.make_cfg(rng, rng.choice([60, 200, 700]))
    stored = H17.cks(cfg) + 1 + checksum_delta
    gs = H17.guard_settings(opts or rng.choice(H17.OPT_SUBSETS), stored, rng)
    gc = H17.guard_config(gs, C.rbytes(rng, H17.GSIZE) if not terminate else b"", terminate=terminate)
    ar = H17.protect(cfg, key, gc)
    for _ in range(50):
        pre = bytes(calm(bytearray(H17.dos_header() + C.rbytes(rng, rng.choice([0, 4, 100]))))) if prefix is None else prefix
        payload = pre + ar + C.rbytes(rng, rng.choice([0, 7, 64]))
        if H17.clean(payload):
            return payload, len(pre)
    return payload, len(pre)


def art_header(pos, size, key=b"KKKK", hints=b"HHHHHHHH"):
    return struct.pack("<II", pos + 16, size & 0xFFFFFFFF) + key + hints


def art_file(rng, n_hits=1, size=None, total=None):
    buf = bytearray(C.rbytes(rng, total if total is not None else rng.choice([40, 100, 300, 1000])))
    places = []
    for _ in range(n_hits):
        if len(buf) < 24:
            break
        p = rng.randrange(0, len(buf) - 20)
        sz = size if size is not None else rng.choice([0, 1, 16, 100, 5000, 0xFFFFFFFF, 0x80000000, 0x7FFFFFFF])
        buf[p:p + 20] = art_header(p, sz, C.rbytes(rng, 4), C.rbytes(rng, 8))
        places.append(p)
    return bytes(buf), places


def http_samples(rng):
    base = [
        b"GET /a?x=1 HTTP/1.1\r\nHost: h\r\n\r\nbody", b"HTTP/1.1 200 OK\r\nA: b\r\n\r\nxyz", b"", b"\r\n", b"\r\n\r\n", b"GET", b"GET /",
        b"GET / HTTP/1.1", b"GET  /  HTTP/1.1  \r\n\r\n", b"GET / HTTP/1.1 extra\r\n\r\n", b"HTTP/1.1 200\r\n\r\n", b"HTTP/1.1 2x0 OK\r\n\r\n",
        b"HTTP/1.1 \xff OK\r\n\r\n", b"HTTP/1.1 -5 OK\r\n\r\n", b"HTTP/1.1 +7 OK\r\n\r\n", b"HTTP/1.1 1_0 OK\r\n\r\n", b"HTTP/1.1 " + b"9" * 5000 + b" OK\r\n\r\n",
        b"HTTP/ 200 OK", b"http/1.1 200 ok\r\n\r\n", b"HTTP/1.1 200 OK more\r\n\r\n", b"\xff\xfe\xfd", b"GET /%ff?%80=%FF HTTP/1.1\r\n\r\n",
        b"GET http://[::1/ HTTP/1.1\r\n\r\n", b"GET //[x HTTP/1.1\r\n\r\n", b"GET /a;b?c#d HTTP/1.1\r\n\r\n", b"GET \xe9 HTTP/1.1\r\n\r\n",
        b"GET / HTTP/1.1\r\nno-colon\r\n: empty\r\nK: \r\n\r\n", b"GET ?&&=&a&=b HTTP/1.1\r\n\r\n", b"A B C", b"A\tB\x0bC\r\n", b" HTTP/1.1 200 OK",
        b"HTTP/1.1 \xd9\xa1 OK\r\n\r\n", b"HTTP/1.1 200 OK", b"GET //host:port/p HTTP/1.1\r\n\r\n", b"GET http://h:99999999999999999999/ HTTP/1.0\r\n\r\n",
    ]
    return base


# --------------------------------------------------------------------------------------------------
# generator
# --------------------------------------------------------------------------------------------------

def patched(data: bytes, off: int, blob: bytes) -> bytes:
    b = bytearray(data)
    if off + len(blob) > len(b):
        b += bytes(off + len(blob) - len(b))
    b[off:off + len(blob)] = blob
    return bytes(b)


def truncations(data: bytes, step1_upto=2048, extra=()):
    n = len(data)
    if n <= step1_upto:
        return list(range(0, n + 1))
    cuts = set(range(0, 200)) | set(range(0, n, max(1, n // 160))) | {n - k for k in range(0, 40)}
    for e in extra:
        cuts |= {e + d for d in (-2, -1, 0, 1, 2, 7, 8)}
    return sorted(c for c in cuts if 0 <= c <= n)


def flips(rng, data: bytes, count: int):
    n = len(data)
    if n == 0:
        return
    for i in range(count):
        b = bytearray(data)
        mode = i % 4
        for _ in range(1 if mode < 2 else rng.choice([2, 3, 8])):
            p = rng.randrange(n) if rng.random() < 0.6 else rng.randrange(min(n, 400))
            if mode == 0:
                b[p] ^= 1 << rng.randrange(8)
            else:
                b[p] = rng.choice([0, 0xFF, 0x7F, 0x80, rng.getrandbits(8)])
        yield bytes(b)


def gen(tier, rng, shard, nshards):
    thorough = tier == "thorough"
    k = 0

    def mine():
        nonlocal k
        k += 1
        return (k % nshards) == shard

    fam = 0

    def sync():
        """every generator family restarts the shard counter at a fixed value: which shard takes the j-th item of a family does
        not depend on how many items the (seeded, per-shard) random choices produced in earlier families"""
        nonlocal k, fam, i
        fam += 1
        k = fam * 5
        i = fam * 13        # `i` drives the rotation of file kinds / entry points: the same item gets the same rotation on every shard

    def fk(i, n=0):
        """file kind rotation for the ff entry points; the BytesIO handed to from_file stands at 0, inside, at or behind the
        end of the data (the entry point must not depend on the position it is given)"""
        k = ("b", "o", "F", "p")[i % 4]
        if k == "F":
            return "F" + str((0, 1, n // 2, n, n + 3, 0, 7, 0)[(i // 4) % 8])
        return k

    def all_entries(data, tag, i=0, B=8192, ff=True, ak=None, pe_ops=PE_OPS, xor=True, art=True, both_kinds=False, rot=0):
        """one input through the entry points (file kinds rotate with `i` unless both_kinds; `rot` > 0: only `rot` of the
        pe helpers, rotating with `i`)"""
        hx = C.hx(data)
        kinds = ("B", "O") if both_kinds else (("B", "O")[i % 2],)
        if rot and len(pe_ops) > rot:
            pe_ops = tuple(pe_ops[(i * rot + q) % len(pe_ops)] for q in range(rot))
        if ff:
            for kd in (("b", "o", "F0", "p", f"F{len(data)}") if both_kinds else (fk(i, len(data)),)):
                use_ak = (i % 5 == 0) if ak is None else ak
                yield ("ffall" if use_ak else "ff"), f"ff {kd} {B} {C.tf(use_ak)} {hx} {tag}"
        for kd in kinds:
            if xor:
                yield "xor", f"xor {kd} {B} {hx} {tag}"
            for op in pe_ops:
                yield "pe", f"{op} {kd} {hx} {tag}"
            if art:
                yield "art", f"art {kd} {hx} {tag}"

    # ------------------------------------------------------------------ (1) arbitrary bytes
    # exhaustive short strings
    plans = [(ALPHA8, 4 if thorough else 3), (ALPHA4, 6 if thorough else 5), (ALPHA3, 8 if thorough else 6)]
    seen = set()
    i = 0
    for alpha, maxlen in plans:
        for n in range(0, maxlen + 1):
            for t in itertools.product(alpha, repeat=n):
                d = bytes(t)
                if d in seen:
                    continue
                seen.add(d)
                i += 1
                if not mine():
                    continue
                yield from all_entries(d, f"short{n}", i, both_kinds=(n <= 2), rot=(0 if n <= 2 else 1))
                yield "http", f"http {C.hx(d)} short{n}"
    # every length 0..100 and sizes around the structural constants, random content and single-byte runs
    sizes = list(range(0, 101)) + [127, 128, 129, 255, 256, 1023, 1024, 1025, 1031, 1032, 1087, 1088, 1100, 4095, 4096, 4097, 6137, 6138, 6143,
                                   6144, 6149, 6150, 6155, 6156, 6157, 8191, 8192, 8193, 8203, 8204, 16384, 16385]
    for n in sizes:
        i += 1
        if not mine():
            continue
        d = bytes(calm(bytearray(C.rbytes(rng, n))))
        yield from all_entries(d, f"rand{n}", i, both_kinds=(n <= 12), rot=(0 if n <= 12 else 2))
        yield "http", f"http {C.hx(d)} rand{n}"
    runs = [0x00, 0x01, 0x2E, 0x69, 0x8A, 0x4D, 0x5A, 0x7F, 0x80, 0xFE]
    for b in runs:
        for n in ([5, 12, 64, 100, 1100, 4096, 8192, 8193, 20000] if thorough else [12, 100, 1100, 8193]):
            i += 1
            if not mine():
                continue
            yield from all_entries(bytes([b]) * n, f"run{b:02x}", i, rot=2)
    # runs of ff: every `ff ff ff` in the first 1 KiB is a nonce-offset candidate (1024-step MZ search each): bounded lengths
    for n in ([3, 4, 5, 8, 16, 40, 90] if thorough else [3, 5, 16, 40]):
        i += 1
        if not mine():
            continue
        yield from all_entries(b"\xff" * n, "runff", i, pe_ops=("mz", "stamps"))
        yield from all_entries(C.rbytes(rng, 1030) + b"\xff" * (n * 50), "runff-late", i, pe_ops=("mz",))
    # random, up to 64 KiB
    for j in range(200 if thorough else 8):
        i += 1
        if not mine():
            continue
        n = rng.choice([300, 2000, 9000, 20000, 40000, 65536] if thorough else [300, 9000, 20000, 65536])
        d = bytes(calm(bytearray(rng.randbytes(n))))
        yield from all_entries(d, "randbig", i, pe_ops=("stamps", "ppa", "mpe"))

    # ------------------------------------------------------------------ (2) valid payloads and their corruptions
    keys = [b"\x2e", b"\x69", b"\x00"]

    def corruptions(data, tag, marks=(), nflip=None, entries=None, stride=1):
        """the payload itself, every truncation, flips; `entries(data, tag, i)` chooses the entry points"""
        nonlocal i
        entries = entries or (lambda d, t, ii: all_entries(d, t, ii))
        sync()
        i += 1
        if mine():
            yield from entries(data, tag + "-valid", i)
        near = {m + d for m in marks for d in (-1, 0, 1)}
        for cut in truncations(data, extra=marks):
            if stride > 1 and cut % stride and cut not in near:
                continue
            i += 1
            if not mine():
                continue
            yield from entries(data[:cut], tag + "-trunc", i)
        nf = nflip if nflip is not None else (2000 if thorough else 120)
        for d in flips(rng, data, nf):
            i += 1
            if not mine():
                continue
            yield from entries(d, tag + "-flip", i)

    def ff_only(d, t, ii, ak=None):
        return all_entries(d, t, ii, pe_ops=(), xor=False, art=False, ak=ak)

    def ff_xor(d, t, ii):
        return all_entries(d, t, ii, pe_ops=("stamps", "arch"), art=False)

    def pe_only(d, t, ii):
        return all_entries(d, t, ii, ff=False, xor=False, art=False, rot=(0 if t.endswith("-valid") else 2))

    payloads = {}
    for rep in range(3 if thorough else 1):
        # raw configuration block, small (every truncation) — alone, inside filler, at the end of the file
        for key in keys:
            blk = raw_block(rng, key, rng.choice([64, 200]))
            pre = bytes(calm(bytearray(C.rbytes(rng, rng.choice([0, 1, 30])))))
            data = pre + blk + C.rbytes(rng, rng.choice([0, 9]))
            payloads[f"raw{key.hex()}{rep}"] = data
            yield from corruptions(data, "raw", marks=(len(pre), len(pre) + 7), nflip=(600 if thorough else 60), entries=ff_only)
        # full 4096-byte block behind 8 KiB of filler (block straddles the read buffer)
        for key in keys[: (3 if thorough else 1)]:
            blk = raw_block(rng, key, 4096, n=12)
            off = rng.choice([8185, 8190, 8192, 100])
            data = bytes(calm(bytearray(rng.randbytes(off)))) + blk
            yield from corruptions(data, "rawbig", marks=(off, off + 7, 8192), nflip=(300 if thorough else 30), entries=ff_only)
        # PE image with a block planted behind it
        for arch in ("x86", "x64"):
            img, data, off = pe_with_block(rng, rng.choice(keys), arch=arch)
            payloads[f"pe{arch}{rep}"] = data
            marks = tuple(img.boundaries()) + (off, off + 7)
            yield from corruptions(data, "pe", marks=marks, nflip=(2000 if thorough else 150),
                                   entries=lambda d, t, ii: all_entries(d, t, ii, xor=(ii % 3 == 0), art=(ii % 7 == 0),
                                                                        rot=(0 if t.endswith("-valid") else 3)))
            # the same image behind a prefix (mz_offset > 0): helpers only
            pre = bytes(calm(bytearray(C.rbytes(rng, rng.choice([1, 10, 1000, 1023])))))
            yield from corruptions(pre + data, "pepre", marks=tuple(len(pre) + m for m in marks), nflip=(500 if thorough else 40), entries=pe_only,
                                   stride=(1 if thorough else 3))
        # XorEncoded stage of a PE image with a block
        for variant in (("xs", False, True), ("xm", True, False), ("xsm", True, True)):
            img, plain, off = pe_with_block(rng, rng.choice(keys), blocksize=64)
            stage = xor_stage(rng, plain, stublen=rng.choice([0, 5, 64, 300]), marker=variant[1], good_size=variant[2])
            stage = bytes(stage)
            payloads[f"{variant[0]}{rep}"] = stage
            stub = len(stage) - len(plain) - 8
            marks = (stub, stub + 4, stub + 8, stub + 8 + 64, stub + 8 + off)
            yield from corruptions(stage, variant[0], marks=marks, nflip=(2000 if thorough else 150), entries=ff_xor)
        # Guardrails-protected payloads (each recovery runs find_xor_key_candidates: ~0.3 s): strided truncation, few flips
        for gi in range(3 if thorough else 1):
            payload, aoff = guard_payload(rng, terminate=(gi != 1))
            payloads[f"guard{gi}{rep}"] = payload
            marks = (aoff, aoff + 6138, aoff + 6144, aoff + 6150, aoff + 6156, aoff + 6144 + 2048)
            sync()
            cuts = sorted({c for c in truncations(payload, step1_upto=0, extra=marks)})
            if not thorough:
                cuts = [c for j, c in enumerate(cuts) if j % 6 == 0 or any(abs(c - m) <= 1 for m in marks)]
            i += 1
            if mine():
                yield from all_entries(payload, "guard-valid", i, pe_ops=("stamps", "arch"), both_kinds=True)
            for cut in cuts:
                i += 1
                if not mine():
                    continue
                yield from ff_only(payload[:cut], "guard-trunc", i, ak=False)
            for d in flips(rng, payload, 60 if thorough else 8):
                i += 1
                if not mine():
                    continue
                yield from ff_only(d, "guard-flip", i, ak=False)
            # XorEncoded container of the protected payload
            sync()
            i += 1
            if mine():
                enc = H17.xorencode(payload, C.rbytes(rng, 4))
                yield from all_entries(bytes(calm(bytearray(C.rbytes(rng, 5)))) + enc, "guard-xor", i, pe_ops=(), art=False, ak=False)
    # splices of two payloads
    names = sorted(payloads)
    sync()
    for j in range(200 if thorough else 24):
        i += 1
        if not mine():
            continue
        a, b = payloads[rng.choice(names)], payloads[rng.choice(names)]
        ca, cb = rng.randrange(0, len(a) + 1), rng.randrange(0, len(b) + 1)
        d = rng.choice([a[:ca] + b[cb:], a[:ca] + b, a + b[cb:], a[:ca] + b[:cb] + a[ca:]])
        if len(d) > 12000:
            d = d[:12000]
        yield from all_entries(bytes(calm(bytearray(d))), "splice", i, pe_ops=("stamps", "ppa", "mpe", "mmz"), ak=False)

    # ------------------------------------------------------------------ (3) crafted structure fields
    def crafted_pe():
        for arch in ("x86", "x64"):
            for lf in (64, 200):
                img = H18.Img(rng, arch=arch, lfanew=lf, nsec=2, export="in")
                base = img.build(rng)
                o = 240 if arch == "x64" else 224
                L = lf
                sec0 = L + 24 + o
                opt = L + 24
                eva = opt + (112 if arch == "x64" else 96)
                U32 = lambda v: struct.pack("<I", v & 0xFFFFFFFF)  # noqa: E731
                variants = {
                    "nsec-ffff": patched(base, L + 6, b"\xff\xff"),
                    "nsec-ffff-long": patched(base, L + 6, b"\xff\xff") + bytes(40 * 300),
                    "nsec-0": patched(base, L + 6, b"\x00\x00"),
                    "nsec-3": patched(base, L + 6, b"\x03\x00"),
                    "optsize-0": patched(base, L + 20, b"\x00\x00"),
                    "lfanew-0": patched(base, 60, struct.pack("<i", 0)),
                    "lfanew-1": patched(base, 60, struct.pack("<i", 1)),
                    "lfanew-neg1": patched(base, 60, struct.pack("<i", -1)),
                    "lfanew-neg64": patched(base, 60, struct.pack("<i", -64)),
                    "lfanew-min": patched(base, 60, struct.pack("<i", -2 ** 31)),
                    "lfanew-1023": patched(base, 60, struct.pack("<i", 1023)),
                    "lfanew-1023-long": patched(base, 60, struct.pack("<i", 1023)) + base[L:L + 400].rjust(1200, b"\x11"),
                    "lfanew-1024": patched(base, 60, struct.pack("<i", 1024)),
                    "lfanew-max": patched(base, 60, struct.pack("<i", 2 ** 31 - 1)),
                    "lfanew-eof": patched(base, 60, struct.pack("<i", min(1000, len(base) - 3))),
                    "lfanew-pasteof": patched(base, 60, struct.pack("<i", 1000))[:900],
                    "ptr-max": patched(base, sec0 + 20, U32(0xFFFFFFFF)),
                    "ptr-max-both": patched(patched(base, sec0 + 20, U32(0xFFFFFFFF)), sec0 + 60, U32(0xFFFFFFFF)),
                    "va-0-vs-max": patched(patched(base, sec0 + 12, U32(0)), sec0 + 8, U32(0xFFFFFFFF)),
                    "va-max": patched(base, sec0 + 12, U32(0xFFFFFFFF)),
                    "vs-0": patched(patched(base, sec0 + 8, U32(0)), sec0 + 48, U32(0)),
                    "export-0": patched(base, eva, U32(0)),
                    "export-max": patched(base, eva, U32(0xFFFFFFFF)),
                    "export-max-in": patched(patched(patched(base, eva, U32(0xFFFFFFFF)), sec0 + 12, U32(0xFFFFFF00)), sec0 + 8, U32(0x100)),
                    "export-far": patched(patched(patched(base, eva, U32(0xFFFFFFFE)), sec0 + 12, U32(1)), sec0 + 8, U32(0xFFFFFFFF)),
                    "soh-max": patched(base, opt + 60, U32(0xFFFFFFFF)),
                    "rawsize-max": patched(patched(base, sec0 + 16, U32(0xFFFFFFFF)), sec0 + 56, U32(0xFFFFFFFF)),
                    "rawsize-0": patched(patched(patched(base, sec0 + 16, U32(0)), sec0 + 56, U32(0)), opt + 60, U32(0)),
                    "machine-0": patched(base, L + 4, b"\x00\x00"),
                    "machine-arm": patched(base, L + 4, struct.pack("<H", 0xAA64)),
                    "machine-swap": patched(base, L + 4, struct.pack("<H", AMD64 if arch == "x86" else I386)),
                }
                for name, d in variants.items():
                    for pre in (b"", bytes(calm(bytearray(C.rbytes(rng, 1023)))), bytes(calm(bytearray(C.rbytes(rng, 1024))))):
                        yield f"pe-{name}", pre + d
                # many sections claiming the maximum raw size: size sum far beyond 2^32 (seek beyond EOF, read gives b"")
                many = bytearray(patched(base, L + 6, struct.pack("<H", 200)))
                # (fe fe fe fe instead of ff ff ff ff: every `ff ff ff` in the first 1 KiB costs the detector a 1024-step MZ search)
                many = many[:sec0] + b"".join(b".s".ljust(8, b"\0") + struct.pack("<IIIIIIHHI", 0xFEFEFEFE, 0x1000 * (q + 1), 0xFEFEFEFE, 0xFEFEFEFE,
                                                                                   0, 0, 0, 0, 0) for q in range(200)) + bytes(64)
                yield "pe-many-sections", bytes(many)
                yield "pe-many-sections-cut", bytes(many)[: sec0 + 40 * 77 + 13]

    sync()
    for name, d in crafted_pe():
        i += 1
        if not mine():
            continue
        yield from all_entries(d, name, i, xor=(i % 4 == 0), art=False, ak=False, both_kinds=thorough)
        if i % 3 == 0:
            # the same image seen through the XorEncoded container (find_compile_stamps / find_architecture on the view)
            blk = raw_block(rng, b"\x2e", 64)
            if len(d) < 4000 and d[:2] == b"MZ":
                st = xor_stage(rng, bytes(calm(bytearray(d + blk))), stublen=rng.choice([0, 5]), marker=False, good_size=True)
                yield from all_entries(bytes(st), name + "-xor", i, pe_ops=(), art=False, ak=False)

    # find_stage_prepend_append: Σ SizeOfRawData around the largest offset the file system accepts (the seek is rejected with
    # EINVAL on OS files above it, accepted on BytesIO; both must give `(prepend, None)` — fix ce8ae1d)
    L = fs_limit()
    sync()
    if L < 2 ** 48:
        for arch in ("x86", "x64"):
            for name, total, last, pre in (
                ("at-limit", L, None, 0),
                ("limit+1", L + 1, None, 0),
                ("limit-prefix", L, None, 3),
                ("limit+1-prefix", L + 1, None, 3),
                ("far", L + 300 * 0xFFFFFFFF, None, 0),
                ("far-cut", L + 300 * 0xFFFFFFFF, 17, 0),
            ):
                i += 1
                if not mine():
                    continue
                nsec, soh = divmod(total - pre, 0xFFFFFFFF)      # mz_offset + SizeOfHeaders + nsec * 0xFFFFFFFF == total
                if nsec > 65535:
                    continue
                machine, osz = (AMD64, 240) if arch == "x64" else (I386, 224)
                dos = b"MZ" + bytes(58) + struct.pack("<i", 64)
                fhdr = struct.pack("<HHIIIHH", machine, nsec, 0, 0, 0, osz, 0x2102)
                opt = bytearray(osz)
                opt[60:64] = struct.pack("<I", soh)
                sec = bytes(16) + struct.pack("<I", 0xFFFFFFFF) + bytes(20)
                d = b"\x90" * pre + dos + b"PE\0\0" + fhdr + bytes(opt) + sec * nsec
                if last is not None:
                    d = d[:-last]
                for kd in ("B", "O"):
                    yield "pelimit", f"ppaL {L} {kd} {C.hx(d)} ppa-{name}-{arch}"
    # the same op on ordinary inputs (limit irrelevant)
    sync()
    for nm, d in sorted(payloads.items()):
        i += 1
        if not mine():
            continue
        yield "pelimit", f"ppaL {L} {'BO'[i % 2]} {C.hx(d)} ppa-{nm}"

    # settings: length beyond the data, TYPE/length combinations, the 128-byte User-Agent at the end of the data
    def crafted_settings():
        S = lambda idx, typ, ln, val: struct.pack(">HHH", idx, typ, ln) + val  # noqa: E731
        head = S(1, 1, 2, b"\x00\x08")
        yield "set-len-beyond", head + S(2, 1, 2, b"\x01\xbb") + S(8, 3, 0xFFFF, b"abc")
        yield "set-len-beyond-exact", head + S(8, 3, 5, b"abcd")
        yield "set-hdr-cut", head + b"\x00\x02\x00\x01"
        yield "set-no-term", head + S(2, 1, 2, b"\x01\xbb")
        yield "set-odd-end", head + S(2, 1, 2, b"\x01\xbb") + b"\x00"
        for typ in (0, 1, 2, 3, 4, 0xFFFF):
            for ln in (0, 1, 2, 3, 4, 5):
                yield f"set-type{typ}-len{ln}", head + S(3, typ, ln, bytes(range(1, ln + 1))) + b"\x00\x00"
        for ual in (127, 128, 129, 0x80):
            for follow in (b"", b"\x00", b"A", b"AAAA\x00", b"A" * 300, b"\x00\x00"):
                yield f"set-ua{ual}-{len(follow)}", head + S(9, 3, ual, b"A" * ual) + follow
        yield "set-ua-nul-inside", head + S(9, 3, 128, b"A" * 100 + bytes(28)) + b"BBBB"
        yield "set-ua-typeshort", head + S(9, 1, 128, b"B" * 128)
        yield "set-36-short", head + S(36, 1, 2, b"\x00\x01") + S(36, 3, 4, b"abcd") + b"\x00\x00"
        yield "set-idx-ffff", head + S(0xFFFF, 3, 1, b"x") + S(0, 1, 2, b"zz")
        yield "set-header-only", HEADER
        yield "set-header-plus1", HEADER + b"\x08"

    sync()
    for name, body in crafted_settings():
        for key in keys:
            for pre in (b"", b"\x90" * 5):
                i += 1
                if not mine():
                    continue
                d = pre + bxor(body, key)
                yield from ff_only(d, name, i, ak=(i % 4 == 0))
                if i % 6 == 0:
                    st = xor_stage(rng, bytes(H01.pe_image(rng, 600)) + bxor(body, key), stublen=3, marker=True, good_size=True)
                    yield from ff_only(bytes(st), name + "-xor", i, ak=False)

    # dictionary fragments: every substring of the (obfuscated) 8-byte block start at the beginning of the data, at the
    # end of the data and across the 8192-byte read-buffer boundary (carry-over logic of iter_find_needle)
    def header_fragments():
        for key in (b"\x00", b"\x2e", b"\x69", b"\x5a"):
            h = bxor(HEADER + b"\x08", key)
            for a in range(0, 8):
                for b in range(a + 1, 9):
                    yield f"hdrfrag-{key.hex()}-{a}-{b}", h[a:b], key
    sync()
    for name, frag, key in header_fragments():
        fill = bytes([0x41 ^ key[0]])
        placements = [("start", frag, True), ("start+", frag + fill * 9, False), ("end", fill * 9 + frag, False),
                      ("mid", fill * 3 + frag + fill * 3, False)]
        if thorough or len(frag) >= 6:
            placements.append(("buf", fill * (8192 - len(frag) // 2) + frag + fill * 5, False))
        for pname, d, both in placements:
            i += 1
            if not mine():
                continue
            yield from all_entries(d, f"{name}-{pname}", i, pe_ops=(), xor=False, art=False, both_kinds=both,
                                   ak=(key == b"\x5a") or None)

    # guard markers at offsets 0..6137 and >= 6138, near the end of the data, unterminated / odd guard configurations
    def crafted_guard():
        total = 6144 + 2048 + 40
        offs = [0, 1, 5, 6, 100, 6131, 6132, 6137, 6138, 6139, 6144, 6150, 8000, total - 12, total - 11, total - 6, total - 1]
        # markers in the first 6138 bytes (no room for a configuration in front: skipped, never a negative seek)
        offs += [2, 3, 4, 7, 11, 12, 13, 1000, 3000, 6000, 6126, 6130, 6133, 6134, 6135, 6136]
        if thorough:
            offs += list(range(17, 6138, 53))
        for off in offs:
            buf = bytearray(calm(bytearray(C.rbytes(rng, total))))
            mk = H17.fake_marker(rng)
            end = min(total, off + len(mk))
            buf[off:end] = mk[: end - off]
            yield f"guard-marker-{off}", bytes(buf)
        # marker at every offset of a short file
        for n in (12, 13, 40):
            buf = bytearray(calm(bytearray(C.rbytes(rng, n))))
            buf[n - 12:n] = H17.fake_marker(rng)
            yield f"guard-marker-short{n}", bytes(buf)
        # several fake markers behind offset 6138 (each record costs one key recovery, ~0.2 s): the `continue` path of the loop in
        # from_file; alone, and followed by a valid protected area (the first records recover nothing, the last one does)
        for kmk in ((2, 6) if thorough else (2,)):
            pre = bytearray(calm(bytearray(C.rbytes(rng, 6138 + 12 * kmk + 7))))
            for j in range(kmk):
                pre[6138 + 12 * j:6150 + 12 * j] = H17.fake_marker(rng)
            yield f"guard-multi{kmk}", bytes(pre) + C.rbytes(rng, 30)
            yield f"guard-multi{kmk}-cut", bytes(pre)[:6138 + 12 * kmk - 5]
            payload, _ = guard_payload(rng, prefix=bytes(pre))
            yield f"guard-multi{kmk}-valid", payload
        # a fake marker in the first 6138 bytes in front of a valid protected area: must be skipped, the area behind it recovered
        # (a negative seek here shows as ValueError on BytesIO, i.e. only this case tells it from "nothing found" there)
        pre = bytearray(calm(bytearray(H17.dos_header() + C.rbytes(rng, 104))))
        pre[120:132] = H17.fake_marker(rng)
        payload, _ = guard_payload(rng, prefix=bytes(pre))
        for rep in range(4):                                   # one per file kind
            yield f"guard-early-marker-valid{rep}", payload
        # degenerate masked configurations: constant / 2- / 3-periodic / all-zero bytes (a single distinct n-gram for some key
        # lengths, so `most_common(2)` has ONE entry) with a checksum that matches no candidate: guard metadata alone, ValueError from from_*
        for dname, mb in (("const", bytes([0x41]) * 6144), ("per2", bytes([0x41, 0x42]) * 3072), ("per3", b"abc" * 2048), ("zero", bytes(6144)),
                          ("2e", bytes([0x2E]) * 6144)):
            gc = H17.guard_config(H17.guard_settings((5, 6), 0x01020304, rng), b"")
            mg = bytes(a ^ 0x8A ^ b for a, b in zip(gc, mb[::-1]))
            yield f"guard-degenerate-{dname}", mb + mg + C.rbytes(rng, 9)
        # area with odd guard configurations
        key = H17.make_key(rng, 4)
        cfg, _ = H17.make_cfg(rng, 60)
        stored = H17.cks(cfg) + 1
        E = H17.enc_setting
        odd = {
            "unterminated": H17.guard_config(H17.guard_settings((5, 6), stored, rng), C.rbytes(rng, 2048), terminate=False),
            "len-beyond": H17.guard_config(E(5, 1, b"\x12\x34") + E(9, 2, b"\x00", length=0xFFFF), b"", terminate=False),
            "checksum-short": H17.guard_config(E(5, 1, b"\x12\x34") + E(9, 2, b"\x01\x02"), b""),
            "checksum-long": H17.guard_config(E(5, 1, b"\x12\x34") + E(9, 2, struct.pack(">IH", stored, 7)), b""),
            "checksum-empty": H17.guard_config(E(6, 1, b"\x12\x34") + E(9, 2, b""), b""),
            "hdr-cut": (E(7, 1, b"\x12\x34") * 256)[:2046] + b"\x00\x09",
            "zero-len-settings": H17.guard_config(E(5, 1, b"\x12\x34") + E(9, 0, b"") * 200, b""),
        }
        for name, gc in odd.items():
            gc = (gc + bytes(2048))[:2048]
            ar = H17.protect(cfg, key, gc)
            for cut in (len(ar), 6144 + 6, 6144 + 7, 6144 + 12, 6144 + 100):
                yield f"guard-{name}-{cut}", ar[:cut]

    sync()
    for name, d in crafted_guard():
        i += 1
        if not mine():
            continue
        yield from ff_only(d, name, i, ak=False)

    # XorEncoded detector: size-consistent nonce offsets and `ff ff ff` markers producing candidates (bounded numbers)
    def crafted_xor():
        for ncand in ([1, 2, 5, 20] if thorough else [1, 5]):
            total = rng.choice([200, 1500])
            buf = bytearray(calm(bytearray(C.rbytes(rng, total))))
            step = max(8, (min(total, 1024) - 16) // ncand)
            for q in range(ncand):
                j = q * step
                n = C.rbytes(rng, 4)
                buf[j:j + 4] = n
                buf[j + 4:j + 8] = bytes(a ^ b for a, b in zip(struct.pack("<I", total - j - 8), n))
            yield f"xor-nonce-cands{ncand}", bytes(calm(buf))
        for nm in ([1, 3, 10] if thorough else [1, 3]):
            buf = bytearray(calm(bytearray(C.rbytes(rng, 1400))))
            for q in range(nm):
                j = [0, 500, 1020, 1021, 1022, 1023, 1024, 1025, 1030, 4][(q + nm) % 10]
                buf[j:j + 3] = b"\xff\xff\xff"
            yield f"xor-markers{nm}", bytes(buf)
        # candidates pointing at / beyond the end of the data
        for tail in (0, 1, 3, 4, 7, 8, 9, 71, 72, 91, 92):
            buf = bytearray(calm(bytearray(C.rbytes(rng, 30)))) + b"\xff\xff\xff" + bytes(H17.dos_header()[:tail])
            yield f"xor-marker-eof{tail}", bytes(buf)
        # valid stage whose size dword is the 32-bit wrap / whose nonce sits at 1023 / 1024
        plain = bytes(H01.pe_image(rng, 600))
        for stublen in (1020, 1021, 1023, 1024, 1025):
            yield f"xor-stub{stublen}", bytes(xor_stage(rng, plain, stublen=stublen, marker=(stublen % 2 == 0), good_size=True))
        # the decoded view of a candidate is a PE only at a later offset / with e_lfanew variants
        for lf in (-4, 0, 1, 1023, 1024):
            p2 = bytearray(plain)
            p2[60:64] = struct.pack("<i", lf)
            yield f"xor-view-lfanew{lf}", bytes(xor_stage(rng, bytes(p2), stublen=5, marker=True, good_size=True))

    sync()
    for name, d in crafted_xor():
        i += 1
        if not mine():
            continue
        yield from all_entries(d, name, i, pe_ops=(), art=False, both_kinds=True, ak=False)

    # ArtifactKit headers
    def crafted_art():
        for size in (0, 1, 50, 0x7FFFFFFF, 0x80000000, 0xFFFFFFFF):
            for cut in (0, 3, 4, 7, 8, 11, 12, 19, 20, 21, 60):
                d = art_header(0, size) + b"P" * 40
                yield f"art-size{size:x}-cut{cut}", d[:cut]
            yield f"art-size{size:x}-at5", b"\x00" * 5 + art_header(5, size) + b"Q" * 9
        for nh in (2, 10, 60):
            d, _ = art_file(rng, nh, total=rng.choice([300, 3000]))
            yield f"art-many{nh}", d
        # dense headers (one every 4 bytes): the quadratic case, kept small
        n = 2400 if thorough else 800
        b = bytearray(n)
        for p in range(0, n - 20, 4):
            b[p:p + 4] = struct.pack("<I", p + 16)
        yield "art-dense", bytes(b)
        yield "art-self", struct.pack("<I", 16) * 40

    sync()
    for name, d in crafted_art():
        i += 1
        if not mine():
            continue
        hx = C.hx(d)
        for kd in ("B", "O"):
            yield "art", f"art {kd} {hx} {name}"
    sync()
    for nm, d in sorted(payloads.items()):
        i += 1
        if not mine():
            continue
        yield "art", f"art {'BO'[i % 2]} {C.hx(d)} art-{nm}"
    sync()
    for j in range(400 if thorough else 40):
        i += 1
        if not mine():
            continue
        d, places = art_file(rng, rng.choice([0, 1, 1, 2, 4]))
        if places and rng.random() < 0.5:
            d = d[: rng.randrange(places[0], len(d) + 1)]
        yield "art", f"art {'BO'[i % 2]} {C.hx(d)} art-rand"

    # raw HTTP: compact malformed stream + truncations/flips of two valid messages
    sync()
    for d in http_samples(rng):
        i += 1
        if not mine():
            continue
        yield "http", f"http {C.hx(d)} http-sample"
    valid = [b"GET /path/x.js?id=1&u=%41%ff HTTP/1.1\r\nHost: example.org\r\nCookie: a=b\r\n\r\nBODY",
             b"HTTP/1.1 404 Not Found\r\nServer: x\r\nContent-Length: 3\r\n\r\nabc"]
    for v in valid:
        sync()
        for cut in range(len(v) + 1):
            i += 1
            if not mine():
                continue
            yield "http", f"http {C.hx(v[:cut])} http-trunc"
        for d in flips(rng, v, 1500 if thorough else 150):
            i += 1
            if not mine():
                continue
            yield "http", f"http {C.hx(d)} http-flip"
    sync()
    for j in range(3000 if thorough else 300):
        i += 1
        if not mine():
            continue
        alpha = rng.choice([b"GET /?&=%;:#[]@ HTP1.\r\n\xff\x00", b"HTTP/1.1 20\r\n: xX\xe9+-_", bytes(range(256))])
        d = bytes(rng.choice(alpha) for _ in range(rng.choice([1, 2, 5, 12, 30, 80])))
        yield "http", f"http {C.hx(d)} http-rand"


# --------------------------------------------------------------------------------------------------
# slowest case per stream (evidence) — collected from the workers' files
# --------------------------------------------------------------------------------------------------

def extra_checks(tier, rng, lean):
    global RULE
    worst = {}
    try:
        for name in os.listdir(_SLOWDIR):
            with open(os.path.join(_SLOWDIR, name)) as fh:
                for key, (dt, tag, n) in json.load(fh).items():
                    if key not in worst or dt > worst[key][0]:
                        worst[key] = (dt, tag, n)
            os.unlink(os.path.join(_SLOWDIR, name))
        os.rmdir(_SLOWDIR)
    except OSError:
        pass
    if worst:
        txt = "; ".join(f"{k}: {v[0]}s ({v[1]}, {v[2]} bytes)" for k, v in sorted(worst.items()))
        print("C08 slowest real-library call per entry point: " + txt)
        RULE = RULE + " || slowest real-library call per entry point in this run: " + txt
    return []

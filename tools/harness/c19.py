"""C19 — beacon client identity, sleep band, metadata size and task dispatch: generators + adapters to the real library.

Streams (all driven against the real `dissect.cobaltstrike.client.HttpBeaconClient`):
  id     run(dry_run=True, beacon_id=x)            -> presented id / ValueError
  run    run(dry_run=True, ...) with names          -> id, aes_rand, keys, metadata.info, len(metadata) (+ real RSA encryption)
  enc    str.encode()            / dec  bytes.decode(errors="ignore")   (the modelled CPython codec)
  sleep  get_sleep_time() with exact Fractions and random.uniform patched to lo + (hi-lo)*u
  loop   registrations, then the REAL `_beacon_loop` over scripted get_task() results (trace + final task_map)
  lspec  same lines, compared with the declarative specification (Lean `specStep`)
  gh     registrations, then get_handlers(k) repeatedly (+ aliasing check on the returned list)
  hist   a history on ONE client object (assign sleeptime/jitter, run() again, get_sleep_time, get_handlers, loop
         iterations, registrations, identity reads, interleaved): every answer must be the stateless one
  g-id / g-idr / g-run / g-gh / g-loop   every case of these streams also run through the definitions TRANSLATED from the source of
         client.py (Gen/PyClient.lean, tools/gen/py_client.py, tools/py2leanu.py) against the same real code
  g-arg  the translated beacon-id / info slices on arguments of other kinds (None, bool, str, bytes, list, ints as names)
  pyu    the operations of the translator's run-time library added for client.py (Model/PyU_T19.lean) against CPython
"""
from __future__ import annotations

import hashlib
import logging
import os
import random as _random
import struct
import types
import zipfile
from fractions import Fraction
from pathlib import Path

from dissect.cobaltstrike import beacon as _beacon
from dissect.cobaltstrike import client as _client
from dissect.cobaltstrike.c2 import encrypt_metadata

from . import common as C
from . import pyuval_t19

ID = "C19"
DRIVER = "drv_c19"
GEN = ["commands"]
GEN += ["py_client"]
EXTRA_PROP_FILES = ["Props/C19Gen.lean"]
G_STREAMS = ("id", "idr", "run", "gh", "loop")
STREAMS = {
    "id": {"relevant": True, "desc": "HttpBeaconClient.run(dry_run=True, beacon_id=x).beacon_id"},
    "idr": {"relevant": True, "desc": "run(dry_run=True, beacon_id=None) with random.getrandbits(32) scripted"},
    "run": {"relevant": True, "desc": "run(dry_run=True): beacon id, aes_rand, aes/hmac keys, metadata.info, len(metadata), RSA encryption succeeds"},
    "enc": {"relevant": False, "desc": "str.encode() (modelled CPython built-in)"},
    "dec": {"relevant": False, "desc": "bytes.decode(errors='ignore') (modelled CPython built-in)"},
    "sleep": {"relevant": True, "desc": "get_sleep_time() in exact arithmetic, uniform draw scripted"},
    "loop": {"relevant": True, "desc": "registrations then the real _beacon_loop over scripted tasks: invocation trace, outcome, final task_map"},
    "lspec": {"relevant": True, "desc": "same, against the declarative specification"},
    "hist": {"relevant": True, "desc": "a history on ONE client object: attribute assignments, repeated run(), get_sleep_time, get_handlers, "
                                       "loop iterations and registrations interleaved; every answer must be the stateless one"},
    "gh": {"relevant": True, "desc": "get_handlers(k) repeatedly: returned lists, no aliasing, final task_map"},
    "g-id": {"relevant": False, "desc": "the beacon-id slice of run() TRANSLATED from its source (Gen/PyClient.lean normalise_beacon_id) vs run(), on every case of id"},
    "g-idr": {"relevant": False, "desc": "translated normalise_beacon_id with beacon_id=None vs run(), on every case of idr"},
    "g-run": {"relevant": False, "desc": "translated normalise_beacon_id + session_keys + make_info vs run(), on every case of run"},
    "g-gh": {"relevant": False, "desc": "translated register_task / handle / catch_all / get_handlers vs the methods, on every case of gh"},
    "g-loop": {"relevant": False, "desc": "translated registration code + dispatch slice of _beacon_loop vs the real loop, on every case of loop"},
    "g-arg": {"relevant": False, "desc": "translated normalise_beacon_id / make_info vs run() on arguments of other kinds"},
    "pyu": {"relevant": False, "desc": "the operations of the translator's run-time library added for client.py (PyU_T19.lean: decode(errors='ignore'), "
                                       "int.to_bytes, str.replace, IntEnum call / name / truth, attribute assignment) vs CPython on random operands"},
}
TRUSTED = [
    "tools/py2leanu.py + lean/CsVerif/Model/PyU.lean + PyU_T19.lean (untyped translator and its run-time library) and tools/gen/py_client.py "
    "(slicing of run() / _beacon_loop into synthetic functions): Props/C19Gen.lean proves the translated definitions equal to the hand-written "
    "model; the g-* streams run them against the real code on every id / idr / run / gh / loop case, the pyu stream runs the new PyU operations "
    "against CPython",
    "tools/harness/c19.py generators/adapters/oracle; line protocol parsing in lean/CsVerif/Driver/C19.lean; tools/gen/commands.py",
    "modelled, not verified: CPython str.encode / bytes.decode(errors='ignore') (streams enc/dec), int %, & on negative ints, "
    "dict insertion order, list aliasing (explicit heap), getattr instance-before-class, IntEnum lookup/aliases (generated table)",
    "random (Mersenne Twister) and sha256 are model parameters: the harness supplies random.Random(bid ^ 0xACCE55ED).getrandbits(128) "
    "and hashlib.sha256 on the input line",
]
ASSUMPTIONS = [
    "float rounding in get_sleep_time is not modelled: the exact stream runs the real expression on fractions.Fraction operands; "
    "the float path is only checked against the band with a 1e-9 relative tolerance by the oracle",
    "handlers are characterised by (callable, truthy, raises Exception, returns a response); handlers that mutate the registry, "
    "raise BaseException, or return malformed responses are outside the model",
    "get_task / send_callback / time.sleep are stubbed (no network); tasks are real TaskPacket objects parsed from bytes",
    "beacon_id=None (random id), pid, internal ip, arch flags, URL construction are not part of the property and not modelled",
]
RULE = ("boundary ids + seeded random ids; names with multi-byte characters around the 51-byte cut; (sleeptime, jitter, u) grid; random "
        "registration scripts x task sequences; distinct = hash of input line; non-trivial = accepted id / info needing truncation or "
        "multi-byte text / jitter>0 / at least one handler call in the trace")

logging.disable(logging.CRITICAL)

REPO = Path(os.environ.get("VERIF_REPO", "/repo"))
_BEACON = "37882262c9b5e971067fd989b26afe28.bin"
_bconfig = None


def bconfig():
    global _bconfig
    if _bconfig is None:
        with zipfile.ZipFile(REPO / "tests" / "beacons" / (_BEACON + ".zip")) as zf:
            data = zf.read(_BEACON, pwd=b"dissect.cobaltstrike")
        _bconfig = _beacon.BeaconConfig.from_bytes(data)
        assert _bconfig.protocol == "http"
    return _bconfig


_bconfig_alt = None


def bconfig_alt():
    """the sample configuration with a NON-ZERO configured jitter (37) and another sleep time (45000): run(..., sleeptime=s, jitter=j)
    with explicit arguments - including 0 - must use the arguments, whatever the configuration says"""
    global _bconfig_alt
    if _bconfig_alt is None:
        import struct as _struct
        with zipfile.ZipFile(REPO / "tests" / "beacons" / (_BEACON + ".zip")) as zf:
            data = zf.read(_BEACON, pwd=b"dissect.cobaltstrike")
        base = _beacon.BeaconConfig.from_bytes(data)
        blk = bytes(base.config_block)
        jit = _struct.pack(">HHH", 5, 1, 2)
        slp = _struct.pack(">HHH", 3, 2, 4)
        i, k = blk.find(jit), blk.find(slp)
        assert i >= 0 and k >= 0 and blk.count(jit) == 1 and blk.count(slp) == 1
        blk = blk[:i + 6] + _struct.pack(">H", 37) + blk[i + 8:]
        blk = blk[:k + 6] + _struct.pack(">I", 45000) + blk[k + 10:]
        _bconfig_alt = _beacon.BeaconConfig(blk)
        assert _bconfig_alt.settings["SETTING_JITTER"] == 37 and _bconfig_alt.settings["SETTING_SLEEPTIME"] == 45000
        assert _bconfig_alt.protocol == "http"
    return _bconfig_alt


BC = _client.BeaconCommand
VALID = sorted({int(m.value) for m in BC})


def cps(s: str) -> str:
    return "l" + ",".join(str(ord(c)) for c in s)


def uncps(t: str) -> str:
    return "".join(chr(int(x)) for x in t[1:].split(",") if x)


def name_tok(s: str) -> str:
    return ".".join(str(ord(c)) for c in s)


def on_name(v: int) -> str:
    return "on_" + BC(v).name.replace("COMMAND_", "").lower()


# ------------------------------------------------------------------------------------------------
# generators
# ------------------------------------------------------------------------------------------------

def expected_bid(x: int):
    """independent formulation (mod instead of &): None = rejected"""
    m = x % (1 << 32)
    if m >= (1 << 31):
        return None
    return m - (m & 1)


def run_line(x, comp, user, proc):
    b = expected_bid(x)
    if b is None:
        ar, dg = b"", b""
    else:
        ar = _random.Random(b ^ 0xACCE55ED).getrandbits(128).to_bytes(16, "big")
        dg = hashlib.sha256(ar).digest()
    return f"run {x} {cps(comp)} {cps(user)} {cps(proc)} {C.hx(ar)} {C.hx(dg)}"


ALPH = {
    "ascii": "abcXYZ019-_. $",
    "latin": "éüñßØ\x80\xff",
    "bmp": "€語ﬁ߿ࠀ￿퟿",
    "astral": "𝔘😀\U00010000\U0010ffff",
}


def rand_name(rng, maxlen=30):
    r = rng.random()
    n = rng.choice([0, 1, 2, 5, 8, 12, 15, 16, 17, 20, 25, maxlen, 60]) if r < 0.9 else rng.randrange(0, 200)
    kinds = rng.choice([["ascii"], ["ascii"], ["ascii", "latin"], ["bmp"], ["astral"], ["ascii", "bmp", "astral"], ["latin", "bmp", "astral", "ascii"]])
    pool = "".join(ALPH[k] for k in kinds)
    return "".join(rng.choice(pool) for _ in range(n))


POOL_CMDS = [3, 4, 6, 27, 102, 1]
UNKNOWN_CMDS = [0, 103, 9999, 4294967295, 200]
DECOYS = ["on_unknown_", "on_unknown_3", "on_unknown", "on_noop", "on_COMMAND_DIE", "on_die_", "on_", "on_command_die", "on_Die", "on_catchall", "on_none"]


def rand_hcode(rng, hid, want=None):
    r = rng.random()
    if r < 0.6:
        flags = 1 | 2  # callable, truthy
    elif r < 0.7:
        flags = 2  # truthy, not callable
    elif r < 0.8:
        flags = 1  # callable but falsy
    elif r < 0.85:
        flags = 0
    else:
        flags = 1 | 2
    if flags & 1:
        q = rng.random()
        if q < 0.2:
            flags |= 4
        if q > 0.1 and rng.random() < 0.4:
            flags |= 8
    if rng.random() < 0.5:
        flags |= 16
    return hid * 32 + flags


def rand_regs(rng, gh=False):
    n = rng.choice([0, 1, 1, 2, 2, 3, 3, 4, 5, 6, 8, 10])
    regs = []
    hid = 0
    prev = []
    cmds = POOL_CMDS[: rng.choice([1, 2, 3, 6])]
    for _ in range(n):
        hid += 1
        if prev and rng.random() < 0.15:
            hc = rng.choice(prev)  # the same handler object registered again
        else:
            hc = rand_hcode(rng, hid)
            prev.append(hc)
        r = rng.random()
        if r < 0.3:
            q = rng.random()
            if q < 0.35:
                arg = f"i{rng.choice(cmds)}"
            elif q < 0.65:
                arg = f"e{rng.choice(cmds)}"
            elif q < 0.75:
                arg = "n"
            elif q < 0.8:
                arg = "i0"
            elif q < 0.85:
                arg = f"i{rng.choice(UNKNOWN_CMDS + [-1, -1])}"
            elif q < 0.92:
                arg = "v" + rng.choice([str(rng.choice(cmds)), "n", "-1", "0"])
            else:
                arg = "p"
            regs.append(f"h/{arg}/{hc}")
        elif r < 0.45:
            k = rng.choice([str(rng.choice(cmds)), str(rng.choice(cmds)), "n", "-1", "0", str(rng.choice(UNKNOWN_CMDS))])
            regs.append(f"r/{k}/{hc}")
        elif r < 0.6:
            regs.append(f"c/{hc}")
        else:
            q = rng.random()
            if q < 0.5:
                nm = on_name(rng.choice(cmds))
            elif q < 0.6:
                nm = "on_unknown_" + str(rng.choice(UNKNOWN_CMDS + ([-1, -2] if gh else [])))
            elif q < 0.7:
                nm = "on_catch_all"
            elif q < 0.8:
                nm = "on_empty_task"
            else:
                nm = rng.choice(DECOYS)
            regs.append(f"{rng.choice('ak')}/{name_tok(nm)}/{hc}")
    return regs, cmds


def rand_tasks(rng, cmds, gh=False):
    n = rng.randrange(1, 41) if rng.random() < 0.7 else rng.randrange(1, 6)
    out = []
    bad = rng.random() < 0.5
    for _ in range(n):
        r = rng.random()
        if r < 0.12:
            out.append("n")
        elif bad and r < 0.25:
            out.append(str(rng.choice(UNKNOWN_CMDS + ([-1, -2] if gh else []))))
        elif r < 0.3:
            out.append(str(rng.choice(POOL_CMDS)))
        else:
            out.append(str(rng.choice(cmds)))
    return "t" + ",".join(out)


FIXED = [
    # the repaired defects (7330121, 3b4d3d6, c54c447) and the alias / unknown-id corner cases
    ("loop", "loop F 2 h/i3/35 k/111.110.95.100.105.101/67 t3,3,3,3"),
    ("lspec", "lspec F 2 h/i3/35 k/111.110.95.100.105.101/67 t3,3,3,3"),
    ("loop", "loop F 2 c/35 k/111.110.95.99.97.116.99.104.95.97.108.108/67 t3,4,3,4"),
    ("gh", "gh 2 c/35 k/111.110.95.99.97.116.99.104.95.97.108.108/67 t3,4,3,4,n"),
    ("gh", "gh 2 h/e6/35 k/" + ".".join(str(ord(c)) for c in "on_noop") + "/67 t6,6"),
    ("gh", "gh 1 k/" + ".".join(str(ord(c)) for c in "on_keylog_start") + "/67 t6,6"),
    ("loop", "loop T 2 h/n/35 k/" + ".".join(str(ord(c)) for c in "on_empty_task") + "/67 tn,n,3"),
    ("loop", "loop F 2 h/n/35 k/" + ".".join(str(ord(c)) for c in "on_empty_task") + "/67 tn,n,3"),
    ("loop", "loop F 1 c/35 t3,9999,3"),
    ("lspec", "lspec F 1 c/35 t3,9999,3"),
    ("loop", "loop F 3 c/35 r/9999/67 k/" + ".".join(str(ord(c)) for c in "on_unknown_9999") + "/99 t9999,0,9999,4294967295"),
    ("gh", "gh 2 c/35 a/" + ".".join(str(ord(c)) for c in "on_unknown_-2") + "/67 t-2,0,-1,-2"),
    ("run", None),
]


ARG_IDS = [None, True, False, 0, 1, 7, -1, 2 ** 31, 2 ** 32 + 5, "7", "", "abc", b"7", b"", [], [1], (), (2,), {}, {1: 2}]
ARG_NAMES = ["pc", "", "ü€", 5, -3, True, False, 0, "a" * 60, "\t", 2 ** 70]


def gen(tier, rng, shard, nshards):
    """every id / idr / run / gh / loop case is also run through the definitions translated from the source of client.py"""
    for stream, line in gen0(tier, rng, shard, nshards):
        yield stream, line
        if stream in G_STREAMS:
            yield "g-" + stream, "g" + line
    k = 0
    for v in ARG_IDS:
        k += 1
        if k % nshards == shard:
            yield "g-arg", "gidv " + pyuval_t19.pshow(v)
    for _ in range((2000 if tier == "thorough" else 300) // nshards):
        if rng.random() < 0.5:
            v = pyuval_t19.value(rng)
            if isinstance(v, (str, bytes)) and (b"%" in v if isinstance(v, bytes) else "%" in v):
                continue          # `%` as string formatting: not modelled
            try:
                yield "g-arg", "gidv " + pyuval_t19.pshow(v)
            except RuntimeError:
                continue
        else:
            names = [rng.choice(ARG_NAMES) if rng.random() < 0.6 else rand_name(rng, 12) for _ in range(3)]
            try:
                yield "g-arg", "ginfov " + " ".join(pyuval_t19.pshow(n) for n in names)
            except RuntimeError:
                continue
    for _ in range((60000 if tier == "thorough" else 8000) // nshards):
        line = pyuval_t19.case(rng)
        if line is not None:
            yield "pyu", line


def gen0(tier, rng, shard, nshards):
    thorough = tier == "thorough"
    k = 0

    def mine():
        nonlocal k
        k += 1
        return (k % nshards) == shard

    # ---- regression seeds
    for s, l in FIXED:
        if not mine():
            continue
        if l is None:
            yield "run", run_line(4, "€" * 30, "ü" * 10, "p.exe")
        else:
            yield s, l

    # ---- ids: boundaries
    bases = [0, 1 << 31, 1 << 32, (1 << 32) + (1 << 31), 1 << 33, -(1 << 31), -(1 << 32), -(1 << 33), 1 << 63, 1 << 64, -(1 << 63), -(1 << 64), 1 << 100]
    for b in bases:
        for d in range(-5, 6):
            if mine():
                yield "id", f"id {b + d}"
    for _ in range((40000 if thorough else 10000) // nshards):
        r = rng.random()
        if r < 0.3:
            x = rng.randrange(0, 1 << 31)
        elif r < 0.5:
            x = rng.randrange(-(1 << 33), 1 << 33)
        elif r < 0.7:
            x = rng.randrange(-8, 8) * (1 << 32) + rng.choice([0, 1 << 31]) + rng.randrange(-3, 4)
        elif r < 0.8:
            x = -rng.randrange(0, 1 << 32)
        else:
            x = rng.randrange(-(1 << 130), 1 << 130)
        yield "id", f"id {x}"

    # ---- default id: getrandbits(32) scripted
    for v in [0, 1, 2, 3, (1 << 31) - 2, (1 << 31) - 1, 1 << 31, (1 << 31) + 1, (1 << 32) - 2, (1 << 32) - 1]:
        if mine():
            yield "idr", f"idr {v}"
    for _ in range((2000 if thorough else 400) // nshards):
        yield "idr", f"idr {rng.getrandbits(32)}"

    # ---- run: names around the 51-byte cut
    for ch in ["a", "é", "€", "😀"]:
        for pre in range(0, 5):
            for total in (10, 16, 17, 18, 25, 26, 30, 52, 60):
                if mine():
                    yield "run", run_line(2 * pre + 4, "x" * pre + ch * total, ch * (pre + 1), "p" + ch)
    for cut in range(40, 56):
        for ch in ["é", "€", "😀", "\t"]:
            if mine():
                yield "run", run_line(6, "c" * 10, "u" * (cut - 13), ch * 4 + "tail")
    specials = [("", "", ""), ("\ud800", "u", "p"), ("c", "\udfff", "p"), ("c", "u", "a\udc00b"), ("\t\t", "\t", ""), ("a" * 51, "", ""), ("a" * 49, "", ""), ("a" * 48, "€", "")]
    for comp, user, proc in specials:
        if mine():
            yield "run", run_line(8, comp, user, proc)
    if mine():
        yield "run", f"run 8 l1114112 l65 l66 x x"
    if mine():
        yield "run", run_line(-5, "c", "u", "p")
    if mine():
        yield "run", run_line((1 << 32) + 7, "c", "u", "p")
    for _ in range((10000 if thorough else 1500) // nshards):
        x = rng.choice([rng.randrange(0, 1 << 31), rng.randrange(0, 1 << 31), rng.randrange(-(1 << 33), 1 << 34)])
        yield "run", run_line(x, rand_name(rng), rand_name(rng), rand_name(rng, 12))

    # ---- the modelled codec
    edge = [0, 0x41, 0x7F, 0x80, 0x7FF, 0x800, 0xFFF, 0x1000, 0xD7FF, 0xD800, 0xDBFF, 0xDC00, 0xDFFF, 0xE000, 0xFFFF, 0x10000, 0x3FFFF, 0x40000, 0xFFFFF, 0x100000, 0x10FFFF, 0x110000]
    for c in edge:
        if mine():
            yield "enc", f"enc l{c}"
        if mine():
            yield "enc", f"enc l65,{c},66"
    for _ in range((6000 if thorough else 800) // nshards):
        n = rng.randrange(0, 12)
        t = [rng.choice(edge) if rng.random() < 0.3 else rng.choice([rng.randrange(0, 0x80), rng.randrange(0x80, 0x800), rng.randrange(0x800, 0x10000), rng.randrange(0x10000, 0x110000)]) for _ in range(n)]
        yield "enc", "enc l" + ",".join(map(str, t))
    firsts = list(range(256)) if thorough else [0, 0x41, 0x7F, 0x80, 0xBF, 0xC0, 0xC1, 0xC2, 0xDF, 0xE0, 0xE1, 0xEC, 0xED, 0xEE, 0xEF, 0xF0, 0xF1, 0xF3, 0xF4, 0xF5, 0xF7, 0xF8, 0xFF]
    for b0 in range(256):
        if mine():
            yield "dec", f"dec {C.hx(bytes([b0]))}"
    for b0 in firsts:
        for b1 in range(256):
            if mine():
                yield "dec", f"dec {C.hx(bytes([b0, b1]))}"
    seconds = [0x7F, 0x80, 0x8F, 0x90, 0x9F, 0xA0, 0xBF, 0xC0]
    for b0 in [0xE0, 0xE1, 0xEC, 0xED, 0xEE, 0xEF, 0xF0, 0xF1, 0xF3, 0xF4, 0xF5]:
        for b1 in seconds:
            for b2 in [0x41, 0x7F, 0x80, 0xBF, 0xC0]:
                if mine():
                    yield "dec", f"dec {C.hx(bytes([b0, b1, b2]))}"
                for b3 in [0x80, 0xBF, 0x41]:
                    if mine():
                        yield "dec", f"dec {C.hx(bytes([b0, b1, b2, b3, 0x42]))}"
    for _ in range((20000 if thorough else 2500) // nshards):
        r = rng.random()
        if r < 0.4:
            s = rand_name(rng, 20).encode("utf-8", "surrogatepass")
            cut = rng.randrange(0, len(s) + 1)
            b = s[:cut] if rng.random() < 0.7 else s[cut:]
        elif r < 0.7:
            s = bytearray(rand_name(rng, 20).encode("utf-8", "surrogatepass"))
            for _ in range(rng.randrange(1, 4)):
                if s:
                    s[rng.randrange(len(s))] = rng.choice([0x80, 0xBF, 0xC0, 0xE0, 0xED, 0xF0, 0xF4, 0xFF, 0x41, rng.randrange(256)])
            b = bytes(s)
        else:
            b = bytes(rng.choice([rng.randrange(256), rng.choice([0x80, 0xBF, 0xC2, 0xE0, 0xED, 0xF0, 0xF4, 0xA0, 0x90, 0x8F, 0x9F])]) for _ in range(rng.randrange(0, 10)))
        yield "dec", f"dec {C.hx(b)}"

    # ---- sleep: (sleeptime, jitter) pairs x scripted uniform draws
    svals = [0, 1, 2, 59, 100, 999, 60000, 86400000, 3, 7]
    for s in svals:
        for j in range(0, 101):
            if not mine():
                continue
            for un, ud in ((0, 1), (1, 1), (1, 2)):
                yield "sleep", f"sleep {s} {j} {un} {ud}"
    for _ in range((12000 if thorough else 3000) // nshards):
        s = rng.choice([rng.randrange(0, 10), rng.randrange(0, 100000), rng.randrange(0, 10 ** 9), 60000, -rng.randrange(1, 1000)])
        j = rng.choice([rng.randrange(0, 101), rng.randrange(0, 101), 0, 100, 101, 150, -5, 37])
        ud = rng.choice([1, 2, 3, 7, 10, 100, 1 << 53, rng.randrange(1, 10 ** 6)])
        un = rng.choice([0, ud, rng.randrange(0, ud + 1), rng.randrange(0, ud + 1)])
        for a, b in ((0, 1), (1, 1), (1, 2), (un, ud)):
            yield "sleep", f"sleep {s} {j} {a} {b}"

    # ---- registrations + loop
    for _ in range((16000 if thorough else 3000) // nshards):
        regs, cmds = rand_regs(rng)
        tasks = rand_tasks(rng, cmds)
        silent = rng.choice("TF")
        body = f"{silent} {len(regs)} " + " ".join(regs + [tasks])
        yield "loop", "loop " + body
        yield "lspec", "lspec " + body
    for _ in range((8000 if thorough else 1500) // nshards):
        regs, cmds = rand_regs(rng, gh=True)
        keys = rand_tasks(rng, cmds, gh=True)
        yield "gh", f"gh {len(regs)} " + " ".join(regs + [keys])
    # ---- histories on one client object (nothing may be cached between calls)
    hfixed = [
        "hist S60000 J50 U1/1 S1000 J10 U1/1 U0/1 U1/2",
        "hist U1/2 J10 U1/2 S100 U1/2 S200 U1/2 J20 U1/2",
        "hist " + hist_run_token(rng, 4, 60000, 50, "pc", "user", "p.exe") + " U1/1 I " + hist_run_token(rng, 10, 1000, 10, "pc2", "ü€", "q.exe") + " U1/1 I",
        "hist " + hist_run_token(rng, 4, 60000, 50, "pc", "user", "p.exe") + " TF3 S1000 J10 U1/1 TTn U1/2",
        "hist " + hist_run_token(rng, 4, 1000, 0, "pc", "user", "p.exe") + " I " + hist_run_token(rng, (1 << 32) + 5, 1000, 0, "pc", "user", "p.exe") + " I "
        + hist_run_token(rng, -3, 5, 5, "pc", "user", "p.exe") + " I U1/1 " + hist_run_token(rng, 8, 7, 7, "a", "\ud800", "p") + " I U1/1",
        "hist S1000 J0 G3 h/i3/35 G3 TF3 k/111.110.95.100.105.101/67 G3 TF3 a/111.110.95.100.105.101/96 G3 TF3 c/131 G4 TF4",
        "hist TF3 G3 c/35 TF3 S5 TF3 J5 TF3 TFn TTn",
    ]
    for l in hfixed:
        if mine():
            yield "hist", l
    for _ in range((30000 if thorough else 5000) // nshards):
        yield "hist", "hist " + " ".join(rand_history(rng))

    # every member value once: the generated name table against the real lookup
    for v in VALID + [0, -1, 103, 1 << 32]:
        if mine():
            nm = on_name(v) if v in VALID else f"on_unknown_{v}"
            yield "gh", f"gh 2 k/{name_tok(nm)}/{(abs(v) % 5000) * 32 + 3} c/{9000 * 32 + 3} t{v},{v}"


# ------------------------------------------------------------------------------------------------
# adapters
# ------------------------------------------------------------------------------------------------

class _Done(BaseException):
    """raised by the scripted get_task when the script is exhausted (a KeyboardInterrupt-like sentinel)"""


class _HandlerError(Exception):
    pass


class _Obj:
    def __init__(self, hid, flags, trace):
        self.hid, self.flags, self.trace = hid, flags, trace

    def __bool__(self):
        return bool(self.flags & 2)


class _CallObj(_Obj):
    def __call__(self, task):
        return _behave(self.hid, self.flags, self.trace)


def _behave(hid, flags, trace):
    trace.append(f"c{hid}")
    if flags & 4:
        raise _HandlerError("handler failed")
    if flags & 8:
        return (hid, b"data")
    return None


def make_handler(code, trace, cache, kind):
    """kind: 'plain' (called as f(task)) or 'method' (class attribute: function becomes a bound method)"""
    key = (code, kind)
    if key in cache:
        return cache[key]
    hid, flags = code // 32, code % 32
    if (flags & 19) == 19:  # callable, truthy, function form
        if kind == "method":
            def f(self, task):
                return _behave(hid, flags, trace)
        else:
            def f(task):
                return _behave(hid, flags, trace)
        f.hid = hid
        h = f
    elif flags & 1:
        h = _CallObj(hid, flags, trace)
    else:
        h = _Obj(hid, flags, trace)
    cache[key] = h
    return h


def parse_key(t):
    return None if t == "n" else int(t)


def new_client(trace):
    """a dynamic subclass of the real client (send_callback stubbed) and one instance of it"""

    def send_callback(self, callback_id, data):
        trace.append(f"s{callback_id}")

    cls = type("ScriptedClient", (_client.HttpBeaconClient,), {"send_callback": send_callback})
    return cls, cls(), {}


def apply_reg(cls, cl, r, trace, cache):
    """one registration on the real client; '.' or 'A' (AttributeError raised by the decorator)"""
    f = r.split("/")
    try:
        if f[0] == "h":
            a = f[1]
            if a == "n":
                arg = None
            elif a == "p":
                arg = "sleep"
            elif a[0] == "i":
                arg = int(a[1:])
            elif a[0] == "e":
                arg = BC(int(a[1:]))
            elif a[0] == "v":
                arg = types.SimpleNamespace(value=parse_key(a[1:]))
            h = make_handler(int(f[2]), trace, cache, "plain")
            assert cl.handle(arg)(h) is h
        elif f[0] == "r":
            cl.register_task(parse_key(f[1]), make_handler(int(f[2]), trace, cache, "plain"))
        elif f[0] == "c":
            h = make_handler(int(f[1]), trace, cache, "plain")
            assert cl.catch_all()(h) is h
        elif f[0] == "a":
            nm = "".join(chr(int(x)) for x in f[1].split(".") if x)
            setattr(cl, nm, make_handler(int(f[2]), trace, cache, "plain"))
        elif f[0] == "k":
            nm = "".join(chr(int(x)) for x in f[1].split(".") if x)
            setattr(cls, nm, make_handler(int(f[2]), trace, cache, "method"))
        else:
            raise RuntimeError("bad reg " + r)
        return "."
    except AttributeError:
        return "A"


def build_client(regs, trace):
    """dynamic subclass + registrations; returns (client, regerrs)"""
    cls, cl, cache = new_client(trace)
    errs = [apply_reg(cls, cl, r, trace, cache) for r in regs]
    return cl, "".join(errs) or "-"


def hid_of(h):
    return getattr(h, "hid", "?")


def show_ids(lst):
    return ".".join(str(hid_of(h)) for h in lst) or "~"


def show_view(cl):
    return ",".join(("n" if k is None else str(int(k))) + ":" + show_ids(v) for k, v in cl.task_map.items()) or "-"


def split_regs(w):
    n = int(w[0])
    return w[1:1 + n], w[1 + n]


def drive_loop(cl, script, silent, trace):
    """the REAL _beacon_loop over scripted get_task() results; returns the outcome"""
    script = list(script)
    epoch = [0]

    def get_task():
        if not script:
            raise _Done()
        v = script.pop(0)
        if v is None:
            return None
        epoch[0] += 1
        return _client.TaskPacket(struct.pack(">IIII", 1700000000 + epoch[0], 8, v, 0))

    cl.get_task = get_task
    cl.silent = silent
    cl.writer = None
    saved_time = _client.time
    out_of_band = []

    def _sleep(secs):
        # the interval actually slept is the jitter band in SECONDS: sleeptime(1 - jitter/100)/1000 <= secs <= sleeptime/1000
        trace.append("z")
        try:
            st, jt = Fraction(cl.sleeptime), Fraction(cl.jitter)
            if st >= 0 and 0 <= jt <= 100:
                lo, hi = st * (1 - jt / 100) / 1000, st / 1000
                eps = Fraction(1, 10 ** 9) * (1 + hi)
                if not (lo - eps <= Fraction(secs) <= hi + eps):
                    out_of_band.append(secs)
        except (TypeError, ValueError):
            pass

    _client.time = types.SimpleNamespace(sleep=_sleep, time=saved_time.time)
    outcome = "end"
    try:
        cl._beacon_loop()
        outcome = "returned"
    except _Done:
        if out_of_band:
            outcome = "slept-out-of-band"
    except Exception as e:  # noqa: BLE001
        outcome = "exc:" + ("ValueError" if isinstance(e, ValueError) else type(e).__name__)
    finally:
        _client.time = saved_time
    return outcome


def run_loop(silent, regs, tasks):
    trace = []
    cl, errs = build_client(regs, trace)
    cl.sleeptime = 1000
    cl.jitter = 10
    outcome = drive_loop(cl, [parse_key(t) for t in tasks[1:].split(",") if t], silent, trace)
    return trace, outcome, errs, show_view(cl)


def scripted_sleep(cl, u):
    """get_sleep_time() of the real client with random.uniform(a, b) = a + (b - a) * u, as an exact Fraction"""
    saved = _client.random.uniform
    _client.random.uniform = lambda a, b: a + (b - a) * u
    try:
        return Fraction(cl.get_sleep_time())
    finally:
        _client.random.uniform = saved


def undot(t):
    return "".join(chr(int(x)) for x in t.split(".") if x)


def run_history(steps):
    """a history on ONE client object; one answer token per step, then the registry"""
    trace = []
    cls, cl, cache = new_client(trace)
    outs = []
    for st in steps:
        c0 = st[0]
        if c0 == "S":
            cl.sleeptime = Fraction(int(st[1:]))
            outs.append(".")
        elif c0 == "J":
            cl.jitter = int(st[1:])
            outs.append(".")
        elif c0 == "R":
            f = st.split("/")
            try:
                import zlib as _zlib
                cl.run(bconfig_alt() if _zlib.crc32(st.encode()) % 2 else bconfig(), dry_run=True, beacon_id=int(f[1]),
                       sleeptime=Fraction(int(f[2])), jitter=int(f[3]),
                       computer=undot(f[4]), user=undot(f[5]), process=undot(f[6]))
                outs.append(".")
            except ValueError:
                outs.append("E")
        elif c0 == "U":
            un, ud = st[1:].split("/")
            try:
                t = scripted_sleep(cl, Fraction(int(un), int(ud)))
                outs.append(f"{t.numerator}/{t.denominator}")
            except AttributeError:
                outs.append("A")
        elif c0 == "G":
            lst = cl.get_handlers(parse_key(st[1:]))
            o = show_ids(lst)
            if any(lst is v for v in cl.task_map.values()):
                o = "!" + o
            outs.append(o)
            lst.append(_Obj(999999, 0, trace))
        elif c0 == "T":
            n0 = len(trace)
            outcome = drive_loop(cl, [parse_key(st[2:])], st[1] == "T", trace)
            ev = ",".join(trace[n0:]) or "-"
            if outcome == "end":
                outs.append(ev)
            elif outcome == "exc:AttributeError":
                outs.append(ev + "!A")
            else:
                outs.append(ev + "!" + outcome)
        elif c0 == "I":
            try:
                m = cl.metadata
                assert cl.c2http.beacon_keys.aes_key == cl.c2http.aes_key
                outs.append(f"{m.bid}:{m.aes_rand.hex()}:{cl.c2http.aes_key.hex()}:{cl.c2http.hmac_key.hex()}:{m.info.hex()}")
            except AttributeError:
                outs.append("A")
        else:
            outs.append(apply_reg(cls, cl, st, trace, cache))
    return " ".join(outs) + " " + show_view(cl)


def expected_history(steps):
    """independent plain-Python expectation for a history, plus the band verdicts of its get_sleep_time steps"""
    s = j = None
    ident = None
    regs = []
    outs = []
    band_ok = True
    for st in steps:
        c0 = st[0]
        if c0 == "S":
            s = int(st[1:])
            outs.append(".")
        elif c0 == "J":
            j = int(st[1:])
            outs.append(".")
        elif c0 == "R":
            f = st.split("/")
            bid = expected_bid(int(f[1]))
            try:
                full = (undot(f[4]) + "\t" + undot(f[5]) + "\t" + undot(f[6])).encode()
            except ValueError:
                full = None
            if bid is None or full is None:
                outs.append("E")
                continue
            acc = b""
            for ch in full.decode():
                e = ch.encode()
                if len(acc) + len(e) > 51:
                    break
                acc += e
            ar = _random.Random(bid ^ 0xACCE55ED).getrandbits(128).to_bytes(16, "big")
            dg = hashlib.sha256(ar).digest()
            ident = f"{bid}:{ar.hex()}:{dg[:16].hex()}:{dg[16:].hex()}:{acc.hex()}"
            s, j = int(f[2]), int(f[3])
            outs.append(".")
        elif c0 == "U":
            un, ud = st[1:].split("/")
            u = Fraction(int(un), int(ud))
            if s is None or j is None:
                outs.append("A")
                continue
            t = s - u * Fraction(s * j, 100)
            outs.append(f"{t.numerator}/{t.denominator}")
        elif c0 in "GT":
            reg, attr, _ = expected_registry(regs)
            if c0 == "G":
                hs = expected_handlers(reg, attr, parse_key(st[1:]))
                outs.append(".".join(str(c // 32) for c in hs) or "~")
            else:
                ev, _, _ = expected_dispatch(st[1] == "T", regs, "t" + st[2:])
                if s is None or j is None:
                    ev = ",".join(ev.split(",")[:-1]) or "-"
                    ev += "!A"
                outs.append(ev)
        elif c0 == "I":
            outs.append(ident or "A")
        else:
            outs.append("A" if st.startswith("h/p/") else ".")
            regs.append(st)
    return " ".join(outs) + " " + expected_registry(regs)[2]


def history_band_ok(steps, out):
    """every get_sleep_time answer lies in the band of the settings current at that step"""
    s = j = None
    toks = out.split(" ")
    for st, o in zip(steps, toks):
        c0 = st[0]
        if c0 == "S":
            s = int(st[1:])
        elif c0 == "J":
            j = int(st[1:])
        elif c0 == "R" and o == ".":
            f = st.split("/")
            s, j = int(f[2]), int(f[3])
        elif c0 == "U" and "/" in o and s is not None and j is not None:
            un, ud = st[1:].split("/")
            u = Fraction(int(un), int(ud))
            n, d = o.split("/")
            t = Fraction(int(n), int(d))
            if s >= 0 and 0 <= j <= 100 and 0 <= u <= 1 and not (Fraction(s) * (1 - Fraction(j, 100)) <= t <= s):
                return False
    return True


def hist_run_token(rng, x, s, j, comp, user, proc):
    b = expected_bid(x)
    if b is None:
        tail = "n//"
    else:
        ar = _random.Random(b ^ 0xACCE55ED).getrandbits(128).to_bytes(16, "big")
        tail = f"{b}/{ar.hex()}/{hashlib.sha256(ar).hexdigest()}"
    return f"R/{x}/{s}/{j}/{name_tok(comp)}/{name_tok(user)}/{name_tok(proc)}/{tail}"


def rand_history(rng):
    n = rng.choice([2, 3, 3, 4, 4, 5, 6, 7, 8, 8, 12])
    cmds = POOL_CMDS[: rng.choice([1, 2, 3])]
    steps = []
    hid = [0]
    prev = []

    def one_reg():
        hid[0] += 1
        if prev and rng.random() < 0.15:
            hc = rng.choice(prev)
        else:
            hc = rand_hcode(rng, hid[0])
            prev.append(hc)
        r = rng.random()
        if r < 0.35:
            return f"h/{rng.choice(['i', 'e'])}{rng.choice(cmds)}/{hc}" if rng.random() < 0.8 else f"h/{rng.choice(['n', 'p', 'i9999', 'v3'])}/{hc}"
        if r < 0.5:
            return f"r/{rng.choice([str(rng.choice(cmds)), '9999', 'n', '-1'])}/{hc}"
        if r < 0.65:
            return f"c/{hc}"
        nm = rng.choice([on_name(rng.choice(cmds)), on_name(rng.choice(cmds)), "on_catch_all", "on_empty_task", "on_unknown_9999"])
        return f"{rng.choice('ak')}/{name_tok(nm)}/{hc}"

    def sleep_params():
        return (rng.choice([0, 1, 59, 1000, 60000, 60000, 86400000, rng.randrange(0, 10 ** 6), -5]),
                rng.choice([0, 10, 37, 50, 90, 100, rng.randrange(0, 101), 150]))

    def draw():
        ud = rng.choice([1, 1, 2, 3, 10, rng.randrange(1, 1000)])
        return rng.choice(["0/1", "1/1", "1/2", f"{rng.randrange(0, ud + 1)}/{ud}"])

    def run_tok():
        x = rng.choice([rng.randrange(0, 1 << 31), rng.randrange(0, 1 << 31), 4, 5, (1 << 32) + 4, -(1 << 32) + 4, (1 << 31) + 2, -2, rng.randrange(-(1 << 33), 1 << 34)])
        s, j = sleep_params()
        names = [rand_name(rng, 12) for _ in range(3)] if rng.random() < 0.3 else ["pc" + str(rng.randrange(10)), rng.choice(["user", "ü€", "𝔘" * 14]), "p.exe"]
        return hist_run_token(rng, x, s, j, *names)

    if rng.random() < 0.25:
        # template: observe, change exactly what the observation depends on, observe again
        k = rng.choice([str(rng.choice(cmds)), "9999", "n"])
        nm = "on_empty_task" if k == "n" else (on_name(int(k)) if int(k) in VALID else "on_unknown_" + k)
        obs = lambda: rng.choice(["G" + k, "TT" + k, "TF" + k])
        steps += [f"S{sleep_params()[0]}", f"J{sleep_params()[1]}", "U" + draw(), obs()]
        for _ in range(rng.randrange(1, 4)):
            hid[0] += 1
            hc = rand_hcode(rng, hid[0])
            key_arg = "n" if k == "n" else "i" + k
            steps.append(rng.choice([f"h/{key_arg}/{hc}", f"r/{k}/{hc}", f"a/{name_tok(nm)}/{hc}", f"k/{name_tok(nm)}/{hc}",
                                     f"c/{hc}", f"a/{name_tok('on_catch_all')}/{hc}", rng.choice([f"S{sleep_params()[0]}", f"J{sleep_params()[1]}"])]))
            steps += [obs(), "U" + draw()]
        return steps
    for _ in range(n):
        r = rng.random()
        if r < 0.14:
            steps.append(f"S{sleep_params()[0]}")
        elif r < 0.24:
            steps.append(f"J{sleep_params()[1]}")
        elif r < 0.38:
            steps.append(run_tok())
        elif r < 0.62:
            steps.append("U" + draw())
        elif r < 0.72:
            steps.append("G" + rng.choice([str(rng.choice(cmds)), str(rng.choice(cmds)), "n", "9999", "-1"]))
        elif r < 0.82:
            steps.append("T" + rng.choice("TF") + rng.choice([str(rng.choice(cmds)), str(rng.choice(cmds)), "n", "9999"]))
        elif r < 0.88:
            steps.append("I")
        else:
            steps.append(one_reg())
    return steps


def impl(stream, line):
    if stream == "pyu":
        return pyuval_t19.run(line)
    if stream == "g-arg":
        w = line.split()
        cl = _client.HttpBeaconClient()
        if w[0] == "gidv":
            v = pyuval_t19.pparse(w[1])
            orig = _client.random.getrandbits
            _client.random.getrandbits = lambda k: 6 if k == 32 else orig(k)
            try:
                cl.run(bconfig(), dry_run=True, beacon_id=v, user="u", computer="c", process="p")
            finally:
                _client.random.getrandbits = orig
            return "ok " + pyuval_t19.pshow(cl.beacon_id)
        names = [pyuval_t19.pparse(t) for t in w[1:4]]
        cl.run(bconfig(), dry_run=True, beacon_id=4, computer=names[0], user=names[1], process=names[2])
        return "ok " + pyuval_t19.pshow(cl.metadata.info)
    if stream.startswith("g-"):
        return impl(stream[2:], line[1:])       # the same real code
    w = line.split()
    if stream == "id":
        cl = _client.HttpBeaconClient()
        cl.run(bconfig(), dry_run=True, beacon_id=int(w[1]), user="u", computer="c", process="p")
        assert cl.metadata.bid == cl.beacon_id
        return f"ok {cl.beacon_id}"
    if stream == "idr":
        v = int(w[1])
        cl = _client.HttpBeaconClient()
        orig = _client.random.getrandbits
        calls = []

        def scripted(k):
            if k == 32 and not calls:
                calls.append(k)
                return v
            return orig(k)

        _client.random.getrandbits = scripted
        try:
            cl.run(bconfig(), dry_run=True, user="u", computer="c", process="p")
        finally:
            _client.random.getrandbits = orig
        assert calls == [32] and cl.metadata.bid == cl.beacon_id
        return f"ok {cl.beacon_id}"
    if stream == "run":
        comp, user, proc = uncps(w[2]), uncps(w[3]), uncps(w[4])
        cl = _client.HttpBeaconClient()
        cl.run(bconfig(), dry_run=True, beacon_id=int(w[1]), user=user, computer=comp, process=proc)
        enc = encrypt_metadata(cl.metadata, cl.c2http.pub)  # sets metadata.size; raises ValueError when too long
        assert len(enc) == 128 and cl.metadata.bid == cl.beacon_id and cl.metadata.aes_rand == cl.aes_rand
        assert (cl.c2http.aes_key, cl.c2http.hmac_key) == (cl.aes_key, cl.hmac_key)
        return f"ok {cl.beacon_id} {C.hx(cl.aes_rand)} {C.hx(cl.aes_key)} {C.hx(cl.hmac_key)} {C.hx(cl.metadata.info)} {len(cl.metadata.dumps())}"
    if stream == "enc":
        return "ok " + C.hx(uncps(w[1]).encode())
    if stream == "dec":
        return cps(C.unhx(w[1]).decode(errors="ignore"))
    if stream == "sleep":
        s, j, u = int(w[1]), int(w[2]), Fraction(int(w[3]), int(w[4]))
        cl = _client.HttpBeaconClient()
        cl.sleeptime, cl.jitter = Fraction(s), j
        saved = _client.random.uniform
        _client.random.uniform = lambda a, b: a + (b - a) * u
        try:
            t = cl.get_sleep_time()
        finally:
            _client.random.uniform = saved
        t = Fraction(t)
        return f"{t.numerator} {t.denominator}"
    if stream in ("loop", "lspec"):
        regs, tasks = split_regs(w[2:])
        trace, outcome, errs, view = run_loop(w[1] == "T", regs, tasks)
        ev = ",".join(trace) or "-"
        if stream == "lspec":
            return f"{ev} {outcome}"
        return f"{ev} {outcome} {errs} {view}"
    if stream == "hist":
        return run_history(w[1:])
    if stream == "gh":
        regs, keys = split_regs(w[1:])
        trace = []
        cl, errs = build_client(regs, trace)
        outs = []
        sentinel = _Obj(999999, 0, trace)
        for t in [x for x in keys[1:].split(",") if x]:
            lst = cl.get_handlers(parse_key(t))
            o = show_ids(lst)
            if any(lst is v for v in cl.task_map.values()):
                o = "!" + o  # the stored list object itself was handed out
            outs.append(o)
            lst.append(sentinel)  # a caller mutating its result must not reach the registry
        return f"{','.join(outs) or '-'} {errs} {show_view(cl)}"
    raise RuntimeError("unknown stream " + stream)


# ------------------------------------------------------------------------------------------------
# independent oracle
# ------------------------------------------------------------------------------------------------

def expected_registry(regs):
    """key -> handler codes in registration order, and the attribute tables, from the registrations alone"""
    reg = {}
    iattr, cattr = {}, {}
    for r in regs:
        f = r.split("/")
        if f[0] == "h":
            a = f[1]
            if a == "p":
                continue
            k = None if a in ("n", "vn") else int(a[1:])
            reg.setdefault(k, []).append(int(f[2]))
        elif f[0] == "r":
            reg.setdefault(parse_key(f[1]), []).append(int(f[2]))
        elif f[0] == "c":
            reg.setdefault(-1, []).append(int(f[1]))
        elif f[0] == "a":
            iattr[f[1]] = int(f[2])
        elif f[0] == "k":
            cattr[f[1]] = int(f[2])

    def attr(name):
        t = name_tok(name)
        code = iattr.get(t, cattr.get(t))
        return [code] if code is not None and code & 2 else []

    view = ",".join(("n" if k is None else str(k)) + ":" + ".".join(str(c // 32) for c in v) for k, v in reg.items()) or "-"
    return reg, attr, view


def expected_handlers(reg, attr, k):
    """handler codes a task with command k goes to (k: None, a BeaconCommand value, or any other int)"""
    if k is None:
        name = "on_empty_task"
    elif k in VALID:
        name = on_name(k)
    else:
        name = "on_unknown_" + str(k)
    hs = list(reg.get(k, [])) + attr(name)
    if not hs:
        hs = list(reg.get(-1, [])) + attr("on_catch_all")
    return hs


def expected_dispatch(silent, regs, tasks):
    """plain-Python statement of the property: expected trace / outcome / registry from the registrations alone"""
    reg, attr, view = expected_registry(regs)
    ev = []
    outcome = "end"
    for t in [x for x in tasks[1:].split(",") if x]:
        k = parse_key(t)
        if k is None and not silent:
            ev.append("z")
            continue
        hs = expected_handlers(reg, attr, k)
        for c in hs:
            if c & 1:
                ev.append(f"c{c // 32}")
                if not (c & 4) and (c & 8):
                    ev.append(f"s{c // 32}")
        ev.append("z")
    return ",".join(ev) or "-", outcome, view


def oracle(stream, line, out):
    if stream.startswith("g-") or stream == "pyu":
        return None
    w = line.split()
    if stream == "id":
        x = int(w[1])
        if out.startswith("ok "):
            r = int(out[3:])
            good = r % 2 == 0 and 0 <= r < (1 << 31) and r == expected_bid(x)
            if 0 <= x < (1 << 31):
                good = good and r == x - (x & 1)
            return good
        return out == "exc ValueError" and expected_bid(x) is None
    if stream == "idr":
        v = int(w[1])
        return out == f"ok {(v % (1 << 31)) - (v & 1)}"
    if stream == "run":
        if not out.startswith("ok "):
            try:
                s = uncps(w[2]) + "\t" + uncps(w[3]) + "\t" + uncps(w[4])
                s.encode()
            except ValueError:
                return None
            return expected_bid(int(w[1])) is None
        f = out.split()
        bid, ar, ak, hk, info, mlen = int(f[1]), C.unhx(f[2]), C.unhx(f[3]), C.unhx(f[4]), C.unhx(f[5]), int(f[6])
        full = (uncps(w[2]) + "\t" + uncps(w[3]) + "\t" + uncps(w[4]))
        acc = b""
        for ch in full:  # longest prefix of whole characters that fits in 51 bytes
            e = ch.encode()
            if len(acc) + len(e) > 51:
                break
            acc += e
        dg = hashlib.sha256(ar).digest()
        return (bid == expected_bid(int(w[1])) and len(info) <= 51 and mlen == 59 + len(info) and mlen <= 128 - 11
                and info == acc and len(ar) == 16 and ak == dg[:16] and hk == dg[16:]
                and ar == _random.Random(bid ^ 0xACCE55ED).getrandbits(128).to_bytes(16, "big"))
    if stream == "sleep":
        s, j, u = int(w[1]), int(w[2]), Fraction(int(w[3]), int(w[4]))
        if out.startswith("exc"):
            return False
        n, d = out.split()
        t = Fraction(int(n), int(d))
        ok = True
        if s >= 0 and 0 <= j <= 100 and 0 <= u <= 1:
            ok = Fraction(s) * (1 - Fraction(j, 100)) <= t <= s and t >= 0
            # the float path of the real code, with the same draw
            cl = _client.HttpBeaconClient()
            cl.sleeptime, cl.jitter = s, j
            saved = _client.random.uniform
            _client.random.uniform = lambda a, b: a + (b - a) * float(u)
            try:
                ft = cl.get_sleep_time()
            finally:
                _client.random.uniform = saved
            tol = 1e-9 * max(1, s)
            ok = ok and abs(Fraction(ft) - t) <= tol and float(s) * (1 - j / 100) - tol <= ft <= s + tol
        return ok
    if stream in ("loop", "lspec"):
        regs, tasks = split_regs(w[2:])
        ev, outcome, view = expected_dispatch(w[1] == "T", regs, tasks)
        f = out.split()
        if out.startswith("exc "):
            return False
        good = f[0] == ev and f[1] == outcome
        if stream == "loop":
            good = good and f[3] == view
        return good
    if stream == "hist":
        if out.startswith("exc "):
            return False
        return out == expected_history(w[1:]) and history_band_ok(w[1:], out)
    if stream == "gh":
        regs, keys = split_regs(w[1:])
        if out.startswith("exc "):
            return False
        f = out.split()
        reg, attr, view = expected_registry(regs)
        exp = []
        for t in [x for x in keys[1:].split(",") if x]:
            hs = expected_handlers(reg, attr, parse_key(t))
            exp.append(".".join(str(c // 32) for c in hs) or "~")
        return f[0] == (",".join(exp) or "-") and f[2] == view
    return None


def nontrivial(stream, line, out):
    if out.startswith("exc "):
        return False
    if stream in ("pyu", "g-arg"):
        return True
    if stream.startswith("g-"):
        return nontrivial(stream[2:], line[1:], out)
    w = line.split()
    if stream in ("id", "idr"):
        return True
    if stream == "run":
        full = uncps(w[2]) + uncps(w[3]) + uncps(w[4])
        return not full.isascii() or len(full) > 49
    if stream == "enc":
        return any(int(x) >= 0x80 for x in w[1][1:].split(",") if x)
    if stream == "dec":
        return any(b >= 0x80 for b in C.unhx(w[1]))
    if stream == "sleep":
        return w[2] != "0" and w[3] != "0" and w[1] != "0"
    if stream in ("loop", "lspec"):
        return "c" in out.split()[0]
    if stream == "gh":
        return any(ch.isdigit() for ch in out.split()[0])
    if stream == "hist":
        kinds = {t[0] for t in w[1:]}
        return len(kinds) >= 2 and any(c.isdigit() for c in out)
    return True


def shrink(stream, line):
    if stream in ("pyu", "g-arg"):
        return
    if stream.startswith("g-"):
        for cand in shrink(stream[2:], line[1:]):
            yield "g" + cand
        return
    w = line.split(" ")
    if stream in ("loop", "lspec", "gh"):
        off = 2 if stream != "gh" else 1
        n = int(w[off])
        regs, tasks = w[off + 1:off + 1 + n], w[off + 1 + n]
        items = [x for x in tasks[1:].split(",") if x]
        for i in range(len(regs)):
            r2 = regs[:i] + regs[i + 1:]
            yield " ".join(w[:off] + [str(len(r2))] + r2 + [tasks])
        for i in range(len(items)):
            t2 = items[:i] + items[i + 1:]
            yield " ".join(w[:off] + [str(n)] + regs + ["t" + ",".join(t2)])
        return
    if stream == "hist":
        steps = w[1:]
        for i in range(len(steps)):
            if len(steps) > 1:
                yield " ".join(["hist"] + steps[:i] + steps[i + 1:])
        return
    if stream == "run":
        for cand in C.shrink_tokens(" ".join(w[:5])):
            c = cand.split(" ")
            try:
                yield run_line(int(c[1]), uncps(c[2]), uncps(c[3]), uncps(c[4]))
            except ValueError:
                continue
        return
    yield from C.shrink_tokens(line)

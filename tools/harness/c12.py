"""C12 — profile string literals: generators + adapters to the real library.

Streams (line → answer, identical format on the Lean side, see lean/CsVerif/Driver/C12.lean):
  rt     `rt xBS`              value_to_string(bs) text, string_token_to_bytes of it, STRING regex on it
  tok    `tok xBS xREST`       STRING regex (re.match) on value_to_string(bs) + rest
  emb    `emb xTPL xA xB`      literals embedded in a profile, parsed by C2Profile.from_text(...).as_dict()
  embt   `emb xTPL xA xB`      same, STRING tokens taken from the parse tree and read with string_token_to_bytes
  dec    `dec xTOKEN`          string_token_to_bytes on arbitrary (also malformed) latin-1 token text
  deccp  `deccp lCODEPOINTS`   the same with code points ≥ 256 (StringIterator masks with & 0xFF)
  inthex `inthex xS`           int(s, 16) for |s| ≤ 2 (CPython built-in model)
  scan   `scan xTEXT`          re.match(STRING pattern as loaded by Lark) vs scanString
  rx     `rx xTEXT`            the same vs the literal backtracking reading rxMatch
  vtss   `vtss xTEXT`          value_to_string(str) (the two str.replace scanners on arbitrary text)
  repr   `repr xBS`            repr(bytes) incl. the quote choice
  repl   `repl xOLD xNEW xS`   str.replace
  pattern `pattern`            generated pattern text / flags vs Lark's loaded terminal
  g-rt g-tok g-emb g-embt g-dec g-deccp g-vtss   every case of these streams once more, run through the definitions TRANSLATED
                               from the source of value_to_string / string_token_to_bytes / StringIterator (Gen/PyC2Prof.lean)
  g-arg  `garg vts|stb VALUE`  the translated functions on arguments of every kind (notation of tools/harness/pyuval_t12.py)
  pyu    `pyu OP OPERANDS`     the run-time operations added for c2profile.py (Model/PyU_T12.lean) vs CPython
"""
from __future__ import annotations

import ast
import itertools
import zlib
import re
import signal

from lark import Token

from dissect.cobaltstrike import c2profile as cp

from . import common as C
from . import pyuval_t12

ID = "C12"
DRIVER = "drv_c12"
GEN = ["strlit"]
GEN += ["c16_unicode", "py_c2prof"]
EXTRA_PROP_FILES = ["Props/C12Gen.lean"]
G_STREAMS = ("rt", "tok", "emb", "embt", "dec", "deccp", "vtss")
STREAMS = {
    "rt": {"relevant": True, "desc": "value_to_string(bytes) text; string_token_to_bytes(Token(STRING, text)); STRING regex on the text"},
    "tok": {"relevant": True, "desc": "STRING regex at the start of value_to_string(bs) + arbitrary following text"},
    "emb": {"relevant": True, "desc": "literals inside statements, C2Profile.from_text(...).as_dict()"},
    "embt": {"relevant": True, "desc": "literals inside statements, STRING tokens of the parse tree decoded"},
    "dec": {"relevant": True, "desc": "string_token_to_bytes on hand-written / enumerated escape sequences (also malformed)"},
    "deccp": {"relevant": False, "desc": "string_token_to_bytes on token text with code points >= 256"},
    "inthex": {"relevant": False, "desc": "CPython int(s, 16), |s| <= 2, latin-1"},
    "scan": {"relevant": False, "desc": "re.match(STRING) vs scanString on arbitrary text"},
    "rx": {"relevant": False, "desc": "re.match(STRING) vs rxMatch on arbitrary text"},
    "vtss": {"relevant": False, "desc": "value_to_string(str)"},
    "repr": {"relevant": False, "desc": "repr(bytes)"},
    "repl": {"relevant": False, "desc": "str.replace"},
    "pattern": {"relevant": False, "desc": "generated STRING pattern text vs the terminal Lark loaded"},
    **{"g-" + s_: {"relevant": False, "desc": f"value_to_string / string_token_to_bytes TRANSLATED from their source (Gen/PyC2Prof.lean) "
                                              f"vs the functions, on every case of {s_}"} for s_ in G_STREAMS},
    "g-arg": {"relevant": False, "desc": "the translated functions vs the real ones on arguments of every kind (None, ints, lists, Tokens of other types, …)"},
    "pyu": {"relevant": False, "desc": "run-time operations of Model/PyU_T12.lean (repr, ord, chr, bytes, int(x, base), replace, join, setattr) vs CPython"},
}
TRUSTED = [
    "tools/harness/c12.py generators/adapters/oracle; tools/gen/strlit.py; line protocol parsing in lean/CsVerif/Driver/C12.lean",
    "CPython repr(bytes), str.replace, int(s,16) for |s|<=2, slicing, bytes(list) and the `re` semantics of the STRING pattern are "
    "modelled (Model/C12.lean: reprBytes, strReplace, pyIntHex, pyBytes, scanString/rxMatch), not verified; each has its own exhaustive stream",
    "Lark's LALR parser / contextual lexer is not modelled: the embedded-literal streams compare the library's parse with "
    "'lex one STRING with scanString at the literal position, then decode'",
    "tools/py2leanu.py + lean/CsVerif/Model/PyU.lean, PyU_T12.lean (untyped translation of value_to_string, string_token_to_bytes, "
    "StringIterator: Props/C12Gen.lean proves the translated definitions equal to the hand-written model; the g-* streams run them "
    "against the real functions, the pyu stream runs the added run-time operations against CPython)",
]
ASSUMPTIONS = [
    "profile text is latin-1 (value_to_string output is printable ASCII); token text with code points >= 256 is only covered by the deccp stream",
    "int(s,16) white-space/sign acceptance as measured on the CPython running the harness (3.12)",
]
RULE = ("exhaustive byte strings (<=2 over 0x00-0xff, <=4 over the syntax alphabet in thorough; <=1 / <=3 in quick) + seeded random; "
        "distinct = hash of (stream, line); non-trivial = non-empty input whose literal needs at least one escape, a decoder input "
        "containing a backslash, or a scanner input containing a quote")

SYNTAX = [0x22, 0x5C, 0x27, ord("x"), ord("u"), 0x0A, ord(";"), ord("{"), ord("}"), ord("#"), ord("A"), 0x00, 0xFF]
RESTS = [b"", b'"', b'\\"', b";", b'"x"', b"\\", b' "a\\""', b"\n", b'\\\\"', b"a"]

# (template, where as_dict() shows each observed literal: (key, index in the value list, position in the tuple or None))
TEMPLATES_DICT = [
    ("set useragent %a;", [("useragent", 0, None)]),
    ("http-get { client { header %a %b; metadata { prepend %A; print; } } }",
     [("http-get.client.header", 0, 0), ("http-get.client.header", 0, 1), ("http-get.client.metadata", 0, 1)]),
    ("http-get { client { header %a%b; metadata { append %B; prepend %A; print; } } } # %x",
     [("http-get.client.header", 0, 0), ("http-get.client.header", 0, 1), ("http-get.client.metadata", 0, 1),
      ("http-get.client.metadata", 1, 1)]),
    ("http-post { client { id { prepend %A; append %B; parameter %A; } output { print; } } }",
     [("http-post.client.id", 0, 1), ("http-post.client.id", 1, 1), ("http-post.client.id", 2, 1)]),
    ("stage { transform-x86 { prepend %a; strrep %a %b; } }",
     [("stage.transform-x86.prepend", 0, None), ("stage.transform-x86.strrep", 0, 0), ("stage.transform-x86.strrep", 0, 1)]),
    ("set sample_name %a; # %y\nprocess-inject { transform-x64 { append %a; } execute { CreateThread %A; } }\n"
     "http-stager { server { output { prepend %B; print; } } }",
     [("sample_name", 0, None), ("process-inject.transform-x64.append", 0, None), ("process-inject.execute", 0, 1),
      ("http-stager.server.output", 0, 1)]),
]
_DICT_PATHS = dict(TEMPLATES_DICT)
TEMPLATES_TREE = [
    "set useragent %A;",
    "http-get { client { header %A %B; metadata { prepend %A; print; } } }",
    "http-get %A { set uri %B; client { header %B%A; } }",
    "set sleeptime %A;#%x\nset jitter %B; set host_stage %A;set pipename %B;",
    "stage { transform-x86 { strrep %A %B; strrep %B %A; } stringw %A; string %B; }",
]

_term = cp.c2profile_parser.get_terminal("STRING")
_RX_TEXT = _term.pattern.to_regexp()
_RX = re.compile(_RX_TEXT, cp.c2profile_parser.options.g_regex_flags | sum(int(getattr(re, str(f).upper(), 0)) for f in _term.pattern.flags))


def _l1(b: bytes) -> str:
    return b.decode("latin-1")


def _hx(s: str) -> str:
    return C.hx(s.encode("latin-1"))


def _scan(text: str) -> str:
    m = _RX.match(text)
    if m is None:
        return "none"
    return _hx(m.group(0)) + " " + _hx(text[m.end():])


def _render(tpl: str, a: str, b: str):
    """→ (text, [(which, mode)] for observed literal occurrences in textual order)"""
    out, obs, i = [], [], 0
    while i < len(tpl):
        ch = tpl[i]
        if ch == "%":
            k = tpl[i + 1]
            which = 0 if k in "aAx" else 1
            out.append(b if which else a)
            if k in "abAB":
                obs.append((which, 1 if k in "AB" else 0))
            i += 2
        else:
            out.append(ch)
            i += 1
    return "".join(out), obs


# ---------------------------------------------------------------------------------------------
# generators
# ---------------------------------------------------------------------------------------------

def _words(alpha, maxlen):
    for n in range(maxlen + 1):
        for t in itertools.product(alpha, repeat=n):
            yield bytes(t)


def _rand_bytes(rng, maxlen=24):
    n = rng.choice([1, 2, 3, 4, 5, 6, 8, 12, maxlen])
    r = rng.random()
    if r < 0.5:
        return bytes(rng.choice(SYNTAX) for _ in range(n))
    if r < 0.8:
        return bytes(rng.choice(SYNTAX) if rng.random() < 0.6 else rng.randrange(256) for _ in range(n))
    return C.rbytes(rng, n)


HAND = [
    r"\x41", r"\x4", r"\x", r"\u0041", r"\u12", r"\u123", r"\u", r"\u1", r"\q", "\\", "a\\", r"\\", r"\"", r"\'", r"\n\r\t",
    r"\n", r"\r", r"\t", r"\xZZ", r"\x+f", r"\x f", r"\xf ", r"\x_f", r"\xf_", r"\x-1", r"\x-0", r"\x-f", r"\x0x", r"\x0X",
    r"\u00-1", r"\uzz41", "\\u\\\\41", r"\u004", r"\u00411", "abc", "", r"\x4g", "\\x\xa0f", "\\xf\x85", "\\x\x1cf", "\\x\x1ff",
    "\\xf\x1c", r"\N", r"\X41", r"\U0041", r"\0", r"\a", r"\b", r"\x7f", r"\xff", r"\x00", r"\xFF", r"\xaB", r"\uFFfF",
    r"\u\"\"41", r"\x\"", r"\\x41", r"\\\x41", r"\\\\", r"\\\\\\", "\\\\\\", "\\x\n1", "\\x\t1", "\\x1\r", "\\x\x0b1", "\\x\x0c1",
    "\\x\xb21", "\\x\xb9\xb2", "\xff\xfe", "'", '"', '""', "\n", "#;{}", r"\;", r"\{", r"\#", "\\\n", r"\u+f-1", r"\x+-", r"\x++",
    r"\x--", r"\x -", r"\x  ", r"\x 0", r"\x0 ", r"\x+0",
]
DEC_ALPHA = [ord(c) for c in '\\xun"4g- ']
INT_SET = sorted(set(b"0123456789abcdefABCDEFgGxX_+- \t\n\x0b\x0c\r\x00\x1c\x1d\x1e\x1f\x85\xa0\xb2\xb9\xff\x7f\x80\x84\x86\x9f\xa1"))


ARG_FIXED = [None, True, 0, 5, -1, b"", b"a'\"\\", "", "a'\"\\'", "\u0100\xe9", [], [1], (), {}, Token("STRING", '"a\\x41"'), Token("NAME", "x"),
             Token("STRING", ""), Token("STRING", '"'), Token("STRING", b'"ab"'), Token("STRING", None), Token("STRING", 5),
             Token("STRING", ["a", "b", "c"]), Token("STRING", ("\\", "n", "x", "y")), Token(None, '"a"'), Token(5, '"a"'),
             Token("STRING", '"\u0141\\\u0178\u0134\u0131"'), Token(b"STRING", '"a"')]


def gen(tier, rng, shard, nshards):
    """every case that calls value_to_string / string_token_to_bytes is also run through the definitions translated from their source"""
    for stream, line in gen0(tier, rng, shard, nshards):
        yield stream, line
        if stream in G_STREAMS:
            yield "g-" + stream, "g" + line
    for i, a in enumerate(ARG_FIXED):
        if i % nshards == shard:
            for f in ("vts", "stb"):
                if f == "stb" or not isinstance(a, (list, tuple, dict, Token)):      # `format(list, "")` is not modelled (PyU.fmt)
                    yield "g-arg", f"garg {f} {pyuval_t12.pshow(a)}"
    for _ in range((6000 if tier == "thorough" else 600) // nshards):
        a = pyuval_t12.value(rng)
        f = rng.choice(("vts", "stb"))
        if f == "vts" and not (a is None or type(a) in (bool, int, str, bytes)):
            continue
        if f == "vts" and isinstance(a, str) and any(ord(c) >= 128 for c in a) and rng.random() < 0.5:
            a = a.encode("utf-8")
        yield "g-arg", f"garg {f} {pyuval_t12.pshow(a)}"
    for _ in range((120000 if tier == "thorough" else 12000) // nshards):
        line = pyuval_t12.case(rng)
        if line is not None:
            yield "pyu", line


def gen0(tier, rng, shard, nshards):
    thorough = tier == "thorough"
    k = 0

    def mine():
        nonlocal k
        k += 1
        return (k % nshards) == shard

    if shard == 0:
        yield "pattern", "pattern"

    # ---- rt: the property's quantifier
    for bs in _words(range(256), 2 if thorough else 1):
        if mine():
            yield "rt", "rt " + C.hx(bs)
    for bs in _words(SYNTAX, 4 if thorough else 3):
        if mine():
            yield "rt", "rt " + C.hx(bs)
    for _ in range((24000 if thorough else 3000) // nshards):
        yield "rt", "rt " + C.hx(_rand_bytes(rng, 40))
    # long literals (text of 4 k .. 100 k characters): escapes of every width landing on every offset around 4096 / 8192 / 65536
    for n in ([1000, 4089, 4090, 4093, 4095, 4096, 4097, 8190, 8192, 16384, 30000] if thorough else [4090, 4094, 4096, 8191, 12000]):
        for rep in range(16 if thorough else 10):
            if not mine():
                continue
            pool = [b"A", b"\\", b'"', b"\n", b"\x00", b"\xff", b"n", b"x", b"'", b"\\\\"]
            body = b"".join(rng.choice(pool) if rng.random() < 0.5 else b"A" for _ in range(n // 2))
            body = (b"A" * rng.randrange(0, 8) + body)[:n]
            yield "rt", "rt " + C.hx(body)

    # ---- tok: literal followed by arbitrary text
    for bs in _words(SYNTAX, 3 if thorough else 2):
        for rest in RESTS:
            if mine():
                yield "tok", f"tok {C.hx(bs)} {C.hx(rest)}"
    for b in range(256):
        if mine():
            yield "tok", f"tok {C.hx(bytes([b]))} {C.hx(rng.choice(RESTS))}"
    for _ in range((8000 if thorough else 1500) // nshards):
        rest = bytes(rng.choice(b'"\\a\n;') for _ in range(rng.randrange(0, 6)))
        yield "tok", f"tok {C.hx(_rand_bytes(rng))} {C.hx(rest)}"

    # ---- embedded in statements
    def ab_cases(n_single, n_rand, grid=True):
        for a in n_single:
            yield bytes([a]), b"v"
            yield b"k", bytes([a])
        for j, a in enumerate(SYNTAX):
            for b in (SYNTAX if grid else [SYNTAX[(j + 1) % len(SYNTAX)], 0x5C, 0x22]):
                yield bytes([a, b]), bytes([b, a])
        for _ in range(n_rand):
            yield _rand_bytes(rng, 16), _rand_bytes(rng, 16)
        # byte strings that spell words some consumer of the token stream treats specially (variant names, booleans, keywords,
        # quoted-looking values): as values they are data like any other
        for wd in (b"default", b"Default", b"true", b"false", b"set", b"print", b"header", b"}", b"{", b";", b'""', b'"x"', b'";"',
                   b'"x"; set jitter "9"', b"#", b"None", b"", b"\x00", b"a\x00"):
            yield wd, b"v"
            yield b"k", wd
            yield wd, wd

    e = 0
    for i, (tpl, _paths) in enumerate(TEMPLATES_DICT):
        singles = range(256) if thorough else (SYNTAX if i else list(range(0, 256, 5)) + SYNTAX)
        for a, b in ab_cases(singles, 1500 if thorough else 30, grid=thorough or i == 1):
            e += 1
            if e % nshards == shard:
                yield "emb", f"emb {C.hx(tpl.encode())} {C.hx(a)} {C.hx(b)}"
    for i, tpl in enumerate(TEMPLATES_TREE):
        for a, b in ab_cases(range(256), 6000 if thorough else 500):
            e += 1
            if e % nshards == shard:
                yield "embt", f"emb {C.hx(tpl.encode())} {C.hx(a)} {C.hx(b)}"

    # ---- decoder: hand-written escapes in several positions, enumerated bodies, all \xAB / \uPQAB
    for h in HAND:
        hb = h.encode("latin-1")
        for body in (hb, b"a" + hb, hb + b"b", hb + hb, b"\\\\" + hb, hb + b"\\", b"\\n" + hb + b"\\x41", hb + b'\\"', b"\\" + hb):
            if mine():
                yield "dec", "dec " + C.hx(b'"' + body + b'"')
        if mine():
            yield "dec", "dec " + C.hx(hb)  # not even quoted: [1:-1] strips blindly
    for body in _words(DEC_ALPHA, 5 if thorough else 4):
        if mine():
            yield "dec", "dec " + C.hx(b'"' + body + b'"')
    pairs = itertools.product(range(256), repeat=2) if thorough else itertools.product(INT_SET, repeat=2)
    for a, b in pairs:
        if mine():
            yield "dec", "dec " + C.hx(b'"\\x' + bytes([a, b]) + b'"')
            p, q = rng.randrange(256), rng.randrange(256)
            yield "dec", "dec " + C.hx(b'"z\\u' + bytes([p, q, a, b]) + b'\\x41"')
    for _ in range((20000 if thorough else 3000) // nshards):
        n = rng.randrange(0, 12)
        body = bytes(rng.choice(b'\\\\\\xxuunrt"\'0123456789abcdefABCDEFgq +-_\n\xa0\xff') for _ in range(n))
        yield "dec", "dec " + C.hx(b'"' + body + b'"')

    # ---- code points >= 256
    for _ in range((6000 if thorough else 1000) // nshards):
        n = rng.randrange(0, 9)
        cps = [rng.choice([0x22, 0x5C, 0x15C, 0x25C, 0x178, 0x78, 0x175, 0x75, 0x141, 0x134, 0x34, 0x31, 0x131, 0x122, 0x1F600,
                           0x10FFFF, 0x100, 0xFF, 0x16E, 0x6E, 0x120, 0x20AC, rng.randrange(0, 0x300)]) for _ in range(n)]
        if rng.random() < 0.7:
            cps = [0x22] + cps + [0x22]
        yield "deccp", "deccp " + C.ints(cps)

    # ---- int(s, 16)
    if thorough:
        for s in _words(range(256), 2):
            if mine():
                yield "inthex", "inthex " + C.hx(s)
    else:
        for s in _words(INT_SET, 2):
            if mine():
                yield "inthex", "inthex " + C.hx(s)
        for b in range(256):
            if mine():
                yield "inthex", "inthex " + C.hx(bytes([b]))
                yield "inthex", "inthex " + C.hx(bytes([b, 0x66]))
                yield "inthex", "inthex " + C.hx(bytes([0x37, b]))

    # ---- STRING regex vs the two scanner models
    for s in _words([0x22, 0x5C, 0x61, 0x0A], 8 if thorough else 6):
        if mine():
            yield "scan", "scan " + C.hx(s)
            yield "rx", "rx " + C.hx(s)
    for _ in range((20000 if thorough else 2500) // nshards):
        n = rng.randrange(0, 24)
        s = bytes(rng.choice(b'""\\\\\\a\n;\r\xff\x00') for _ in range(n))
        if rng.random() < 0.8:
            s = b'"' + s
        yield "scan", "scan " + C.hx(s)
        yield "rx", "rx " + C.hx(s)

    # ---- value_to_string(str), repr(bytes), str.replace
    for s in _words([0x22, 0x5C, 0x27, 0x61], 7 if thorough else 5):
        if mine():
            yield "vtss", "vtss " + C.hx(s)
    for b in range(256):
        if mine():
            yield "repr", "repr " + C.hx(bytes([b]))
            yield "vtss", "vtss " + C.hx(bytes([b]))
    for s in _words([0x27, 0x22, 0x5C, 0x61, 0x0A, 0x7F, 0x1F, 0x80, 0x09, 0x0D], 4 if thorough else 3):
        if mine():
            yield "repr", "repr " + C.hx(s)
    for _ in range((6000 if thorough else 800) // nshards):
        yield "repr", "repr " + C.hx(_rand_bytes(rng))
        yield "vtss", "vtss " + C.hx(_rand_bytes(rng))
    for old in _words(b"ab", 2):
        for new in _words(b"ab", 2):
            for s in _words(b"ab", 5 if thorough else 4):
                if mine():
                    yield "repl", f"repl {C.hx(old)} {C.hx(new)} {C.hx(s)}"
    for _ in range((4000 if thorough else 500) // nshards):
        old = bytes(rng.choice(b"\\'\"a") for _ in range(rng.randrange(0, 4)))
        new = bytes(rng.choice(b"\\'\"a") for _ in range(rng.randrange(0, 3)))
        s = bytes(rng.choice(b"\\'\"a") for _ in range(rng.randrange(0, 12)))
        yield "repl", f"repl {C.hx(old)} {C.hx(new)} {C.hx(s)}"


# ---------------------------------------------------------------------------------------------
# implementation adapter
# ---------------------------------------------------------------------------------------------

def _show_py_bytes(v) -> str:
    if not isinstance(v, bytes):
        raise RuntimeError(f"string_token_to_bytes returned {type(v).__name__}")
    return "ok " + C.hx(v)


def _decode_tok(text: str) -> str:
    try:
        return _show_py_bytes(cp.string_token_to_bytes(Token("STRING", text)))
    except ValueError:
        return "exc ValueError"


def impl(stream, line):
    try:
        return _impl(stream, line)
    except Exception as e:  # noqa: BLE001
        if type(e).__name__ != "Timeout":
            raise
    # check.py's 10 s watchdog fired.  A single as_dict() call (50 ms on an idle machine, it builds a Lark Reconstructor)
    # was measured at 4 s with load average 100 on 16 cores, so one expiry is not yet evidence of a hang: re-arm the
    # watchdog once and retry.  A genuine hang expires again and is reported as `exc Timeout` by the runner.
    signal.alarm(30)
    return _impl(stream, line)


def _impl(stream, line):
    if stream == "pyu":
        return pyuval_t12.run(line)
    if stream == "g-arg":
        w = line.split(" ")
        f = cp.value_to_string if w[1] == "vts" else cp.string_token_to_bytes
        return "ok " + pyuval_t12.pshow(f(pyuval_t12.pparse(w[2])))
    if stream.startswith("g-"):
        return _impl(stream[2:], line[1:])       # the same real function
    w = line.split(" ")
    if stream == "rt":
        bs = C.unhx(w[1])
        if zlib.crc32(line.encode()) % 2 == 0:
            # history prefix: the same characters converted as a `str` first (its result must not influence the bytes conversion)
            cp.value_to_string(_l1(bs))
        text = cp.value_to_string(bs)
        return f"{_hx(text)} {_decode_tok(text)} {_scan(text)}"
    if stream == "tok":
        text = cp.value_to_string(C.unhx(w[1])) + _l1(C.unhx(w[2]))
        return _scan(text)
    if stream in ("emb", "embt"):
        tpl = C.unhx(w[1]).decode()
        a, b = C.unhx(w[2]), C.unhx(w[3])
        text, obs = _render(tpl, cp.value_to_string(a), cp.value_to_string(b))
        try:
            prof = cp.C2Profile.from_text(text)
        except Exception as e:  # noqa: BLE001  (lark UnexpectedInput: the literal broke the statement)
            if type(e).__module__.startswith("lark"):
                return "split"
            raise
        outs = []
        if stream == "emb":
            d = prof.as_dict()
            for key, idx, pos in _DICT_PATHS[tpl]:
                v = d[key][idx]
                if pos is not None:
                    v = v[pos]
                outs.append(_show_py_bytes(v) if isinstance(v, bytes) else "ok " + _hx(str(v)))
        else:
            for t in prof.tree.scan_values(lambda v: isinstance(v, Token) and v.type == "STRING"):
                outs.append(_decode_tok(str(t)))
        return " ".join(outs)
    if stream == "dec":
        return _show_py_bytes(cp.string_token_to_bytes(Token("STRING", _l1(C.unhx(w[1])))))
    if stream == "deccp":
        return _show_py_bytes(cp.string_token_to_bytes(Token("STRING", "".join(chr(c) for c in C.unints(w[1])))))
    if stream == "inthex":
        return "ok " + str(int(_l1(C.unhx(w[1])), 16))
    if stream in ("scan", "rx"):
        return _scan(_l1(C.unhx(w[1])))
    if stream == "vtss":
        return _hx(cp.value_to_string(_l1(C.unhx(w[1]))))
    if stream == "repr":
        return _hx(repr(C.unhx(w[1])))
    if stream == "repl":
        return _hx(_l1(C.unhx(w[3])).replace(_l1(C.unhx(w[1])), _l1(C.unhx(w[2]))))
    if stream == "pattern":
        return C.ints(ord(c) for c in _RX_TEXT) + f" {int(cp.c2profile_parser.options.g_regex_flags)} {len(_term.pattern.flags)}"
    raise RuntimeError("unknown stream " + stream)


# ---------------------------------------------------------------------------------------------
# independent oracle, non-triviality, shrinking
# ---------------------------------------------------------------------------------------------

def _py_literal(text: str):
    """Read the literal with Python's own bytes-literal syntax (independent of the decoder under test)."""
    try:
        return ast.literal_eval("b" + text)
    except Exception:  # noqa: BLE001
        return None


def _one_string_token(text: str) -> bool:
    try:
        toks = list(cp.c2profile_parser.lex(text))
    except Exception:  # noqa: BLE001
        return False
    return len(toks) == 1 and toks[0].type == "STRING" and str(toks[0]) == text


def oracle(stream, line, out):
    if stream.startswith("g-") or stream == "pyu":
        return None
    w = line.split(" ")
    if stream == "rt":
        bs = C.unhx(w[1])
        p = out.split(" ")
        if len(p) != 5 or p[1] != "ok":
            return False
        text = _l1(C.unhx(p[0]))
        if C.unhx(p[2]) != bs:                       # decode(encode(b)) == b
            return False
        if not (len(text) >= 2 and text[0] == '"' and text[-1] == '"' and "\n" not in text):
            return False
        if _py_literal(text) != bs:                  # the text denotes b in an independent reader
            return False
        if p[3] != p[0] or p[4] != "x":              # the STRING regex consumes exactly the literal
            return False
        return _one_string_token(text)               # Lark's own lexer: exactly one STRING token
    if stream == "tok":
        p = out.split(" ")
        if len(p) != 2:
            return False
        return C.unhx(p[1]) == C.unhx(w[2]) and _py_literal(_l1(C.unhx(p[0]))) == C.unhx(w[1])
    if stream in ("emb", "embt"):
        tpl = C.unhx(w[1]).decode()
        a, b = C.unhx(w[2]), C.unhx(w[3])
        _, obs = _render(tpl, "", "")
        p = out.split(" ") if out else []
        if len(p) != 2 * len(obs):
            return False
        for i, (which, mode) in enumerate(obs):
            if p[2 * i] != "ok":
                return False
            v = C.unhx(p[2 * i + 1])
            want = b if which else a
            if mode == 1 or stream == "embt":
                if v != want:
                    return False
            elif _py_literal('"' + _l1(v) + '"') != want:
                return False
        return True
    if stream == "dec":
        # documented escapes: a body made only of documented escapes and plain characters has a fixed meaning
        body = C.unhx(w[1])[1:-1]
        exp = _doc_decode(body)
        if exp is None:
            return None
        return out == "ok " + C.hx(exp)
    return None


_HEX = b"0123456789abcdefABCDEF"
_SIMPLE = {ord("n"): 10, ord("r"): 13, ord("t"): 9, 0x5C: 0x5C, 0x22: 0x22, 0x27: 0x27}


def _doc_decode(body: bytes):
    """Meaning of a body consisting only of plain characters and documented escapes; None otherwise."""
    out, i = [], 0
    while i < len(body):
        c = body[i]
        if c != 0x5C:
            out.append(c)
            i += 1
            continue
        if i + 1 >= len(body):
            return None
        k = body[i + 1]
        if k in _SIMPLE:
            out.append(_SIMPLE[k])
            i += 2
        elif k == ord("x") and i + 4 <= len(body) and body[i + 2] in _HEX and body[i + 3] in _HEX:
            out.append(int(body[i + 2:i + 4], 16))
            i += 4
        elif k == ord("u") and i + 6 <= len(body) and all(x in _HEX for x in body[i + 2:i + 6]):
            out.append(int(body[i + 4:i + 6], 16))
            i += 6
        else:
            return None
    return bytes(out)


_PLAIN = set(range(0x20, 0x7F)) - {0x22, 0x5C}


def nontrivial(stream, line, out):
    if stream in ("pyu", "g-arg"):
        return not out.startswith("exc ")
    if stream.startswith("g-"):
        return nontrivial(stream[2:], line[1:], out)
    if out.startswith("exc ") and stream not in ("dec", "deccp", "inthex"):
        return False
    w = line.split(" ")
    if stream in ("rt", "tok", "repr", "vtss"):
        return any(c not in _PLAIN for c in C.unhx(w[1]))
    if stream in ("emb", "embt"):
        return any(c not in _PLAIN for c in C.unhx(w[2]) + C.unhx(w[3]))
    if stream == "dec":
        return b"\\" in C.unhx(w[1])
    if stream == "deccp":
        return any(c >= 256 for c in C.unints(w[1]))
    if stream == "inthex":
        return True
    if stream in ("scan", "rx"):
        return b'"' in C.unhx(w[1])[1:]
    if stream == "repl":
        return w[1] != "x" and C.unhx(w[1]) in C.unhx(w[3])
    return True


def shrink(stream, line):
    if stream in ("pyu", "g-arg"):
        return
    w = line.split(" ")
    for cand in C.shrink_tokens(line):
        if stream in ("emb", "embt") and cand.split(" ")[1] != w[1]:
            continue  # never shrink the template
        yield cand

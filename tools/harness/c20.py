"""C20 — byte codecs and stager URI classification: generators + adapters to the real library."""
from __future__ import annotations

import itertools
import string

from dissect.cobaltstrike import utils

from . import common as C

ID = "C20"
DRIVER = "drv_c20"
GEN = ["py_utils"]
EXTRA_PROP_FILES = ["Props/C20Gen.lean"]
STREAMS = {
    "xor": {"relevant": True, "desc": "utils.xor(data, key)"},
    "nbenc": {"relevant": True, "desc": "utils.netbios_encode(data, offset)"},
    "nbdec": {"relevant": True, "desc": "utils.netbios_decode(data, offset)"},
    "pack": {"relevant": True, "desc": "utils.pack(n, size, byteorder, signed)"},
    "unpack": {"relevant": True, "desc": "utils.unpack(data, size, byteorder, signed)"},
    "uri": {"relevant": True, "desc": "checksum8 / is_stager_x86 / is_stager_x64"},
    "rsu": {"relevant": True, "desc": "random_stager_uri with scripted random.choice"},
    "gate": {"relevant": True, "desc": "BeaconCapture.find_staged_beacon gate with stubbed extraction"},
    # the definitions translated from the source text by tools/py2lean.py (Gen/PyUtils.lean), run on the same cases: they follow
    # the source by construction, so a difference here is a defect of the translator / of Model/PyRt.lean, not of the library
    "g-xor": {"relevant": False, "desc": "translated utils.xor vs utils.xor"},
    "g-nbenc": {"relevant": False, "desc": "translated utils.netbios_encode vs the function"},
    "g-nbdec": {"relevant": False, "desc": "translated utils.netbios_decode vs the function"},
    "g-pack": {"relevant": False, "desc": "translated utils.pack vs the function (incl. invalid byteorder / negative size)"},
    "g-unpack": {"relevant": False, "desc": "translated utils.unpack vs the function"},
    "g-uri": {"relevant": False, "desc": "translated checksum8 / is_stager_x86 / is_stager_x64 vs the functions"},
    "g-part": {"relevant": False, "desc": "translated partial applications u8 … p64be vs the library objects"},
}
TRUSTED = [
    "tools/harness/c20.py generators and adapters; line protocol parsing in lean/CsVerif/Driver/C20.lean",
    "tools/py2lean.py + tools/gen/py_utils.py (source text of xor, netbios_encode/decode, pack, unpack, checksum8, is_stager_x86/x64 and "
    "the partial applications -> Gen/PyUtils.lean) and the Python semantics written down in lean/CsVerif/Model/PyRt.lean; "
    "Props/C20Gen.lean proves every translated definition equal to the hand-written model, the g-* streams run the translated "
    "definitions against the real functions",
    "CPython int.from_bytes/to_bytes, bytes(), re.match are modelled (Model/C20.lean), not verified; "
    "the xor model is byte-wise (keyAt), the big-int formulation is compared by this correspondence",
]
ASSUMPTIONS = [
    "URIs are sequences of Unicode code points; random.choice is replaced by a scripted stream (Mersenne Twister not modelled)",
    "find_staged_beacon: BeaconConfig.from_bytes is stubbed (its behaviour is C01's subject)",
]
RULE = ("exhaustive short URIs / (|data|,|key|) grid / width-boundary integers + seeded random cases; distinct = hash of input line; "
        "non-trivial = real code returned a value and the case is not the empty/zero input")

ALNUM = string.ascii_letters + string.digits
PRINTABLE = [chr(c) for c in range(32, 127)] + ["\n"]


def fmt_uri(s: str) -> str:
    return "uri l" + ",".join(str(ord(c)) for c in s)


G_STREAMS = {"xor", "nbenc", "nbdec", "pack", "unpack", "uri"}
PARTS_U = ["u8", "u16", "u32", "u64", "u16be", "u32be", "u64be"]
PARTS_P = ["p8", "p16", "p32", "p64", "p16be", "p32be", "p64be"]


def gen(tier, rng, shard, nshards):
    """every case of the translatable streams is also run through the translated definition (`g-` streams)"""
    for stream, line in gen0(tier, rng, shard, nshards):
        yield stream, line
        if stream in G_STREAMS and len(line) < 20000:
            yield "g-" + stream, "g" + line
    thorough = tier == "thorough"
    # what the hand-written model cannot express: invalid byteorder strings, negative sizes
    for _ in range((3000 if thorough else 400) // nshards):
        order = rng.choice(["little", "big", "Little", "BIG", "l", "middle", "le"])
        size = rng.choice(["none", "0", "1", "2", "4", "-1", "-7", "8"])
        sg = rng.choice("TF")
        v = rng.choice([0, 1, -1, 255, 256, -128, -129, 65535, 65536, rng.randrange(-2 ** 40, 2 ** 40)])
        yield "g-pack", f"gpack {v} {size} {order} {sg}"
        d = C.rbytes(rng, rng.choice([0, 1, 2, 3, 4, 8, 9]))
        yield "g-unpack", f"gunpack {C.hx(d)} {size} {order} {sg}"
    for _ in range((3000 if thorough else 400) // nshards):
        sg = rng.choice("TF")
        nm = rng.choice(PARTS_U)
        d = C.rbytes(rng, rng.choice([0, 1, 2, 3, 4, 5, 8, 9]))
        yield "g-part", f"gpart {nm} {C.hx(d)} {sg}"
        nm = rng.choice(PARTS_P)
        w = {"8": 1, "16": 2, "32": 4, "64": 8}[nm.strip("pbe")]
        lim = 256 ** w
        v = rng.choice([0, 1, -1, lim - 1, lim, lim // 2 - 1, lim // 2, -(lim // 2), -(lim // 2) - 1, rng.randrange(-lim, lim)])
        yield "g-part", f"gpart {nm} {v} {sg}"


def gen0(tier, rng, shard, nshards):
    thorough = tier == "thorough"
    k = 0

    def mine():
        nonlocal k
        k += 1
        return (k % nshards) == shard

    # ---- xor: grid of lengths with random bytes, zero keys, long keys
    maxn = 12 if thorough else 9
    reps = 6 if thorough else 2
    for dl in range(maxn + 1):
        for kl in range(maxn + 4):
            for r in range(reps):
                if not mine():
                    continue
                d = C.rbytes(rng, dl)
                key = C.rbytes(rng, kl)
                if r == 1 and kl:
                    key = bytes(kl)  # all-zero key
                if r == 0 and kl > 1:
                    key = bytes([0] * (kl - 1)) + bytes([rng.randrange(1, 256)])
                yield "xor", f"xor {C.hx(d)} {C.hx(key)}"
    for _ in range((4000 if thorough else 400) // nshards):
        d = C.rbytes(rng, rng.choice([1, 3, 4, 5, 16, 17, 255, 256, 4096, 5000]))
        key = C.rbytes(rng, rng.choice([1, 1, 2, 3, 4, 4, 7, 16]))
        yield "xor", f"xor {C.hx(d)} {C.hx(key)}"

    # histories with ONE key: consecutive calls of a worker run in one process, so whatever a call keeps for "the same key"
    # (expanded key streams, masks) meets data of other lengths and phases next
    for _ in range((600 if thorough else 60) // nshards):
        key = C.rbytes(rng, rng.choice([2, 3, 4, 4, 5, 7, 16]))
        for n in rng.sample([0, 1, 3, 4, 5, 6, 7, 9, 10, 13, 16, 17, 31, 64, 100], rng.choice([3, 5, 8])):
            yield "xor", f"xor {C.hx(C.rbytes(rng, n))} {C.hx(key)}"

    # large inputs (block-wise "optimisations"): sizes around 64 KiB / 128 KiB / 1 MiB with keys that do not divide them
    big = [65535, 65536, 65537, 70001, 131072 + 5] + ([262144 + 3, 1048576 + 7] if thorough else [])
    for n in big:
        for kl in (3, 5, 7, 4, 13):
            if not mine():
                continue
            d = rng.randbytes(n)
            yield "xor", f"xor {C.hx(d)} {C.hx(C.rbytes(rng, kl))}"

    # ---- netbios: every byte × every offset; odd lengths; out-of-range
    offs = [0, 0x41, 0x61, 240, 241, 255, -1, 1, 0x30, 300]
    for off in offs:
        if mine():
            yield "nbenc", f"nbenc {C.hx(bytes(range(256)))} {off}"
    # full (byte, offset) sweep: one line with all 256 bytes per offset, encode and decode of the reference encoding
    for off in range(-3, 260):
        if not mine():
            continue
        allb = bytes(range(256))
        yield "nbenc", f"nbenc {C.hx(allb)} {off}"
        if 0 <= off <= 240:
            enc = bytes(x for c in allb for x in ((c >> 4) + off, (c & 15) + off))
            yield "nbdec", f"nbdec {C.hx(enc)} {off}"
            yield "nbdec", f"nbdec {C.hx(enc.lower())} {off}"
            yield "nbdec", f"nbdec {C.hx(enc.upper())} {off}"
        else:
            for c in range(0, 256, 5):
                yield "nbenc", f"nbenc {C.hx(bytes([c]))} {off}"
                yield "nbdec", f"nbdec {C.hx(bytes([c, (c * 7 + 3) % 256]))} {off}"
    for b in range(256):
        for off in offs:
            if not mine():
                continue
            yield "nbenc", f"nbenc {C.hx(bytes([b]))} {off}"
            try:
                enc = utils.netbios_encode(bytes([b]), off)
            except ValueError:
                enc = bytes([b, b ^ 0x5A])
            yield "nbdec", f"nbdec {C.hx(enc)} {off}"
    for _ in range((6000 if thorough else 800) // nshards):
        n = rng.choice([0, 1, 2, 3, 4, 5, 8, 9, 31, 64])
        off = rng.choice([0x41, 0x61, 0x41, 0x61, 0, 240, 17])
        if rng.random() < 0.6:
            d = bytes(rng.randrange(off, min(256, off + 16)) for _ in range(n)) if off < 256 else b""
        else:
            d = C.rbytes(rng, n)
        yield "nbdec", f"nbdec {C.hx(d)} {off}"
        yield "nbenc", f"nbenc {C.hx(C.rbytes(rng, n))} {off}"

    # ---- pack / unpack at width limits ±1
    for size in [0, 1, 2, 3, 4, 8, 9]:
        lim = 256 ** size
        vals = {0, 1, -1, lim - 1, lim, lim + 1, lim // 2 - 1, lim // 2, lim // 2 + 1, -(lim // 2), -(lim // 2) - 1, -(lim // 2) + 1, -lim, 255, 256, -128, -129, 127, 128}
        for v in sorted(vals):
            for order in ("little", "big"):
                for sg in ("T", "F"):
                    if not mine():
                        continue
                    yield "pack", f"pack {v} {size} {order} {sg}"
                    yield "pack", f"pack {v} none {order} {sg}"
    for _ in range((20000 if thorough else 2500) // nshards):
        size = rng.choice([1, 2, 4, 8, 3, 16])
        order = rng.choice(["little", "big"])
        sg = rng.choice("TF")
        v = rng.randrange(-(256 ** size), 256 ** size)
        if rng.random() < 0.5:
            v //= rng.choice([1, 2, 3, 256, 65536])
        yield "pack", f"pack {v} {rng.choice([str(size), 'none'])} {order} {sg}"
        d = C.rbytes(rng, rng.choice([0, 1, 2, 3, 4, 5, 8, 9]))
        if rng.random() < 0.3 and d:
            d = bytes([rng.choice([0x7F, 0x80, 0xFF, 0])]) + d[1:-1] + bytes([rng.choice([0x7F, 0x80, 0xFF, 0])])
        sz = rng.choice(["none", "0", "1", "2", "4", "8", "-1", "-2", "100"])
        yield "unpack", f"unpack {C.hx(d)} {sz} {order} {sg}"

    # ---- URIs: exhaustive short ones + structured near-misses + random
    maxlen = 3 if thorough else 2
    for n in range(maxlen + 1):
        for t in itertools.product(PRINTABLE, repeat=n):
            if mine():
                yield "uri", fmt_uri("".join(t))
    # all "/abc" style 4-char strings over a reduced alphabet (first length where checksum8 is live)
    red = "/09AZaz_\n" + ("bB5~ " if thorough else "")
    for t in itertools.product(red, repeat=4):
        if mine():
            yield "uri", fmt_uri("".join(t))
    for t in itertools.product("/0Zz\n", repeat=5):
        if mine():
            yield "uri", fmt_uri("".join(t))
    for _ in range((60000 if thorough else 8000) // nshards):
        yield "uri", fmt_uri(gen_uri(rng))

    # ---- random_stager_uri with scripted choices
    for _ in range((3000 if thorough else 500) // nshards):
        x64 = rng.random() < 0.4
        length = 4 if (x64 and rng.random() < 0.9) else rng.choice([3, 4, 4, 5, 6, 8, 2, 1, 0, -1, 12])
        n = max(length, 0)
        rounds = rng.randrange(0, 6)
        cs = [rng.choice(ALNUM) for _ in range(n * rounds)]
        if rng.random() < 0.8 and n >= 3:
            target = 93 if x64 else 92
            cs += solve(rng, n, target) or []
        cs += [rng.choice(ALNUM) for _ in range(rng.randrange(0, n + 2))]
        yield "rsu", f"rsu {'T' if x64 else 'F'} {length} l{','.join(str(ord(c)) for c in cs)}"

    # ---- find_staged_beacon gate
    for _ in range((4000 if thorough else 600) // nshards):
        r = rng.random()
        if r < 0.1:
            req = "none"
        else:
            u = gen_uri(rng)
            b = u.encode("utf-8", "ignore") if rng.random() < 0.8 else u.encode("latin-1", "ignore")
            req = C.hx(b)
        meth = rng.choice(["GET", "GET", "POST", "HEAD", "get", "", "PUT"])
        yield "gate", f"gate {req} {rng.choice('TF')} {C.hx(meth.encode())}"


def solve(rng, n, target):
    """n alnum chars whose code points sum to target mod 256 (random search)."""
    for _ in range(400):
        s = [rng.choice(ALNUM) for _ in range(n - 1)]
        need = (target - sum(map(ord, s))) % 256
        if chr(need) in ALNUM:
            s.insert(rng.randrange(0, n), chr(need))
            return s
    return None


def gen_uri(rng) -> str:
    r = rng.random()
    if r < 0.35:
        # exact or near stager
        n = rng.choice([3, 4, 4, 4, 5, 7])
        target = rng.choice([92, 93, 93, 91, 94])
        s = solve(rng, n, target) or list("abcd")
        u = "/" + "".join(s)
        m = rng.random()
        if m < 0.15:
            u += "\n"
        elif m < 0.25:
            u = u[1:]
        elif m < 0.35:
            i = rng.randrange(1, len(u))
            u = u[:i] + "/" + u[i:]
        elif m < 0.45:
            i = rng.randrange(1, len(u))
            c = rng.choice("_-.~éı١Ａ")
            # keep the checksum: compensate on a neighbour when possible
            u = u[:i] + c + u[i + 1:]
        elif m < 0.5:
            u = u + "\n\n"
        elif m < 0.55:
            u = "\n" + u
        return u
    if r < 0.6:
        n = rng.randrange(0, 9)
        return "".join(rng.choice(ALNUM + "/") for _ in range(n))
    if r < 0.8:
        return "/" + "".join(rng.choice(ALNUM) for _ in range(4))
    n = rng.randrange(0, 9)
    return "".join(chr(rng.choice([rng.randrange(32, 127), rng.randrange(0, 0x300), 0x2F, 10, 0x10FFFF, 0x100 + 92])) for _ in range(n))


class _Exhausted(Exception):
    pass


class _ScriptedRandom:
    def __init__(self, cs):
        self.cs = list(cs)

    def choice(self, seq):
        if not self.cs:
            raise _Exhausted()
        return chr(self.cs.pop(0))


class _StubConfig:
    public_key = b""
    domain_uri_pairs = []
    submit_uri = None
    version = "stub"
    watermark = 0


def _ok(v):
    if isinstance(v, bool):
        return "ok " + C.tf(v)
    if isinstance(v, (bytes, bytearray)):
        return "ok " + C.hx(v)
    return f"ok {v}"


# documented defaults (utils.py docstrings / Cobalt Strike conventions): netbios offset 'A', little-endian unsigned minimal-width
# integers, x86 stager URIs of 4 characters
DOC_DEFAULTS = {"offset": 0x41, "size": None, "byteorder": "little", "signed": False, "x64": False, "length": 4}


def impl(stream, line):
    w = line.split()
    if stream.startswith("g-"):
        size = (None if w[2] == "none" else int(w[2])) if stream in ("g-pack", "g-unpack") else None
        if stream == "g-xor":
            return _ok(utils.xor(C.unhx(w[1]), C.unhx(w[2])))
        if stream == "g-nbenc":
            return _ok(utils.netbios_encode(C.unhx(w[1]), **C.drop_defaults(line, DOC_DEFAULTS, offset=int(w[2]))))
        if stream == "g-nbdec":
            return _ok(utils.netbios_decode(C.unhx(w[1]), **C.drop_defaults(line, DOC_DEFAULTS, offset=int(w[2]))))
        if stream == "g-pack":
            return _ok(utils.pack(int(w[1]), **C.drop_defaults(line, DOC_DEFAULTS, size=size, byteorder=w[3], signed=w[4] == "T")))
        if stream == "g-unpack":
            return _ok(utils.unpack(C.unhx(w[1]), **C.drop_defaults(line, DOC_DEFAULTS, size=size, byteorder=w[3], signed=w[4] == "T")))
        if stream == "g-uri":
            t = "".join(chr(int(x)) for x in w[1][1:].split(",") if x)
            return f"ok {utils.checksum8(t)} {C.tf(utils.is_stager_x86(t))} {C.tf(utils.is_stager_x64(t))}"
        if stream == "g-part":
            f = getattr(utils, w[1])
            arg = C.unhx(w[2]) if w[1].startswith("u") else int(w[2])
            return _ok(f(arg, **C.drop_defaults(line, DOC_DEFAULTS, signed=w[3] == "T")))
    if stream == "xor":
        return C.hx(utils.xor(C.unhx(w[1]), C.unhx(w[2])))
    if stream == "nbenc":
        return "ok " + C.hx(utils.netbios_encode(C.unhx(w[1]), **C.drop_defaults(line, DOC_DEFAULTS, offset=int(w[2]))))
    if stream == "nbdec":
        return "ok " + C.hx(utils.netbios_decode(C.unhx(w[1]), **C.drop_defaults(line, DOC_DEFAULTS, offset=int(w[2]))))
    if stream == "pack":
        size = None if w[2] == "none" else int(w[2])
        return "ok " + C.hx(utils.pack(int(w[1]), **C.drop_defaults(line, DOC_DEFAULTS, size=size, byteorder=w[3], signed=w[4] == "T")))
    if stream == "unpack":
        size = None if w[2] == "none" else int(w[2])
        return str(utils.unpack(C.unhx(w[1]), **C.drop_defaults(line, DOC_DEFAULTS, size=size, byteorder=w[3], signed=w[4] == "T")))
    if stream == "uri":
        t = "".join(chr(int(x)) for x in w[1][1:].split(",") if x)
        return f"{utils.checksum8(t)} {C.tf(utils.is_stager_x86(t))} {C.tf(utils.is_stager_x64(t))}"
    if stream == "rsu":
        cs = [int(x) for x in w[3][1:].split(",") if x]
        saved = utils.random
        utils.random = _ScriptedRandom(cs)
        try:
            u = utils.random_stager_uri(**C.drop_defaults(line, DOC_DEFAULTS, x64=w[1] == "T", length=int(w[2])))
            return "ok l" + ",".join(str(ord(c)) for c in u)
        except _Exhausted:
            return "ok none"
        finally:
            utils.random = saved
    if stream == "gate":
        from dissect.cobaltstrike import pcap
        from dissect.cobaltstrike.c2 import HttpRequest, HttpResponse

        class Stub:
            @staticmethod
            def from_bytes(data, *a, **k):
                if w[2] == "T":
                    return _StubConfig()
                raise ValueError("No valid Beacon configuration found")

        req = None
        if w[1] != "none":
            req = HttpRequest(method=C.unhx(w[3]), uri=C.unhx(w[1]), params={}, headers={}, body=b"")
        resp = HttpResponse(status=200, headers={}, reason=b"OK", body=b"payload", request=req)
        saved = pcap.BeaconConfig
        pcap.BeaconConfig = Stub
        try:
            r = pcap.BeaconCapture.find_staged_beacon(None, resp)
        finally:
            pcap.BeaconConfig = saved
        return "config" if r is not None else "none"
    raise RuntimeError("unknown stream " + stream)


def nontrivial(stream, line, out):
    if out.startswith("exc "):
        return False
    w = line.split()
    if stream.startswith("g-"):
        return w[1] not in ("x", "l")
    if stream in ("xor", "nbenc", "nbdec", "unpack"):
        return w[1] != "x"
    if stream == "uri":
        return not out.startswith("0 ")
    return True


def oracle(stream, line, out):
    """Independent statement of the property on the implementation's own outputs."""
    w = line.split()
    if stream == "g-part":
        # the fixed-width helpers u8 … p64be are part of the property's codecs: their value is stated here from the name alone
        nm = w[1]
        width = {"8": 1, "16": 2, "32": 4, "64": 8}[nm[1:].replace("be", "")]
        big = nm.endswith("be")
        signed = w[3] == "T"
        if nm.startswith("u"):
            d = C.unhx(w[2])[:width]
            v = 0
            for b in (d if big else d[::-1]):
                v = v * 256 + b
            if signed and d and v >= 256 ** len(d) // 2:
                v -= 256 ** len(d)
            return out == f"ok {v}"
        v = int(w[2])
        lim = 256 ** width
        fits = (-(lim // 2) <= v < lim // 2) if signed else (0 <= v < lim)
        if not fits:
            return out == "exc OverflowError"
        e = [((v % lim) >> (8 * i)) & 0xFF for i in range(width)]
        return out == "ok " + C.hx(bytes(e[::-1] if big else e))
    if stream.startswith("g-"):
        return None
    if stream == "xor":
        d, k = C.unhx(w[1]), C.unhx(w[2])
        if out.startswith("exc"):
            return False
        o = C.unhx(out)
        if len(o) != len(d):
            return False
        if not any(k):
            return o == d
        return all(o[i] == d[i] ^ k[i % len(k)] for i in range(len(d)))
    if stream == "nbenc":
        d, off = C.unhx(w[1]), int(w[2])
        if out.startswith("ok "):
            e = C.unhx(out[3:])
            return len(e) == 2 * len(d) and bytes((((e[i] - off) << 4) + (e[i + 1] - off)) & 0xFF for i in range(0, len(e) - 1, 2)) == d
        return not (0 <= off <= 240) or None
    if stream == "nbdec":
        e, off = C.unhx(w[1]), int(w[2])
        if len(e) % 2 == 0 and all(off <= x <= off + 15 for x in e) and 0 <= off <= 240:
            want = bytes(((e[i] - off) << 4) + (e[i + 1] - off) for i in range(0, len(e), 2))
            return out == "ok " + C.hx(want)
        return None
    if stream == "unpack":
        d = C.unhx(w[1])
        if w[2] != "none":
            n = int(w[2])
            d = d[:n]
        v = 0
        for b in (d if w[3] == "big" else d[::-1]):
            v = v * 256 + b
        if w[4] == "T" and d and v >= 256 ** len(d) // 2:
            v -= 256 ** len(d)
        return out == str(v)
    if stream == "pack":
        if w[2] == "0" and w[1] == "-1":
            return None  # CPython quirk: (-1).to_bytes(0, signed=True) == b'' (theorem pack_width0_quirk)
        if out.startswith("ok "):
            b = C.unhx(out[3:])
            return utils.unpack(b, None, byteorder=w[3], signed=w[4] == "T") == int(w[1])
        return None
    if stream == "uri":
        t = "".join(chr(int(x)) for x in w[1][1:].split(",") if x)
        cs = 0 if len(t) < 4 else sum(ord(c) for c in t if c != "/") % 256
        core = t[:-1] if t.endswith("\n") else t
        shape = len(core) == 5 and core[0] == "/" and all(c in ALNUM for c in core[1:])
        return out == f"{cs} {C.tf(cs == 92)} {C.tf(cs == 93 and shape)}"
    if stream == "rsu":
        if out.startswith("ok l"):
            u = "".join(chr(int(x)) for x in out[4:].split(","))
            return (utils.is_stager_x64(u) if w[1] == "T" else utils.is_stager_x86(u)) and len(u) == int(w[2]) + 1
        return None
    if stream == "gate":
        if w[1] == "none":
            return None
        u = C.unhx(w[1]).decode("ascii", "ignore")
        if not utils.is_stager_x86(u) and not utils.is_stager_x64(u):
            return out == "none"
        return None
    return None


def shrink(stream, line):
    yield from C.shrink_tokens(line)

"""C18 — PE artifacts and deduced Cobalt Strike version: generators, independent image builder, adapters.

PE lines:   <op> <kind B|O> <data xhex> <pos0> <start none|n> <maxrange> <expect>
            (any start offset / maxrange; section 2b of gen() produces junk(s) ++ P ++ I searched from s with maxrange m for every helper)
            op ∈ mz arch stamps mmz mpe ppa ;  kind B = io.BytesIO, O = a real temporary file opened "rb";
            <expect> is the ground truth of the *builder* (tokens joined by '_', '-' = no claim); the Lean driver ignores it,
            the oracle compares the real library's answer with it.
Histories:  hist l<setting indices> <op|op|…>   ops: r (read .version) m (read max_setting_enum) s<v> c<v> (assign pe_export_stamp /
            pe_compile_stamp, v int or none) a<x86|x64|none> (assign architecture);   verhist <l..|l..|…>;
            pehist <kind> <data> <maxrange> <op:start:seek:expect|…>   (seek '-' = keep the position left by the previous call)
            answers of the steps are joined by ' | '.
Version:    ver l<code points> | tbl pe|enum <key> | cfg <stamp|none> l<setting indices> | fmt maj min patch y m d

Streams `g-*` / `pyu`: the six pe.py helpers are also TRANSLATED from their source on every run (plug-in gen/py_pe.py →
lean/CsVerif/Gen/PyPe.lean; Props/C18Gen.lean proves the translation equal to the model).  Every PE / pehist case is also executed
through the translated definition (`g-<stream>`: line `g<line>`; `start` / `maxrange` that equal the documented default are written
`dflt` in half of the cases = left out of the real call, the Lean side then uses the default the SOURCE has), `g-arg` runs it on
arguments of any kind, `pyu` runs the operations of Model/PyU_T18.lean against dissect.cstruct / CPython.
"""
from __future__ import annotations

import datetime
import io
import os
import struct
import tempfile

from dissect.cobaltstrike import pe, version
from dissect.cobaltstrike.beacon import BeaconConfig

from . import common as C
from . import pyuval, pyuval_t15, pyuval_t18

ID = "C18"
DRIVER = "drv_c18"
GEN = ["version", "pestruct", "py_utils", "py_scan", "py_pe"]
EXTRA_PROP_FILES = ["Props/C18Gen.lean"]
PE_OPS = ("mz", "arch", "stamps", "mmz", "mpe", "ppa")
STREAMS = {
    "mz": {"relevant": True, "desc": "pe.find_mz_offset"},
    "arch": {"relevant": True, "desc": "pe.find_architecture"},
    "stamps": {"relevant": True, "desc": "pe.find_compile_stamps"},
    "mmz": {"relevant": True, "desc": "pe.find_magic_mz"},
    "mpe": {"relevant": True, "desc": "pe.find_magic_pe"},
    "ppa": {"relevant": True, "desc": "pe.find_stage_prepend_append"},
    "ver": {"relevant": True, "desc": "BeaconVersion(text): tuple, date, version_only, version_string"},
    "tbl": {"relevant": True, "desc": "BeaconVersion.from_pe_export_stamp / from_max_setting_enum"},
    "cfg": {"relevant": True, "desc": "BeaconConfig.version precedence (export stamp, then max setting enum)"},
    "stage": {"relevant": True, "desc": "BeaconConfig.from_bytes on a whole stage (prepend + PE image + configuration block): .architecture, "
              ".pe_compile_stamp, .pe_export_stamp, .version against the image builder's field values (stamps 0, missing export directory, both architectures)"},
    "fmt": {"relevant": True, "desc": "documented shape: format → BeaconVersion → same fields"},
    "hist": {"relevant": True, "desc": "history on ONE BeaconConfig: reads of .version / max_setting_enum interleaved with assignments of "
             "pe_export_stamp / pe_compile_stamp / architecture; every read must reflect the CURRENT attributes"},
    "verhist": {"relevant": True, "desc": "BeaconVersion constructed repeatedly with different (prefix-sharing) strings"},
    "pehist": {"relevant": True, "desc": "several pe.find_* calls on the SAME file object in different orders / from different positions"},
    "cls": {"relevant": False, "desc": "character classes of the str patterns: re \\s, \\d and int() over all code points"},
    "mono": {"relevant": True, "desc": "table monotonicity on every key pair through the real BeaconVersion constructors"},
    "g-mz": {"relevant": False, "desc": "pe.find_mz_offset TRANSLATED from its source (Gen/PyPe.lean) vs the function, on every case of mz"},
    "g-arch": {"relevant": False, "desc": "translated find_architecture vs the function on every case of arch"},
    "g-stamps": {"relevant": False, "desc": "translated find_compile_stamps vs the function on every case of stamps"},
    "g-mmz": {"relevant": False, "desc": "translated find_magic_mz vs the function on every case of mmz"},
    "g-mpe": {"relevant": False, "desc": "translated find_magic_pe vs the function on every case of mpe"},
    "g-ppa": {"relevant": False, "desc": "translated find_stage_prepend_append vs the function on every case of ppa"},
    "g-pehist": {"relevant": False, "desc": "several translated pe.find_* calls on ONE file object vs the functions, on every case of pehist"},
    "g-tbl": {"relevant": False, "desc": "BeaconVersion.from_pe_export_stamp / from_max_setting_enum TRANSLATED from their source vs the functions, on every case of tbl"},
    "g-cfg": {"relevant": False, "desc": "BeaconConfig.version translated from its source vs the property, on every case of cfg"},
    "g-hist": {"relevant": False, "desc": "histories on ONE BeaconConfig with the reads of .version done by the translated property, on every case of hist"},
    "g-argv": {"relevant": False, "desc": "the translated from_* classmethods vs the functions on keys of ANY kind (bool / None / str / bytes / tuple / list)"},
    "g-arg": {"relevant": False, "desc": "the translated helpers vs the functions on arguments of ANY kind (None / str / bytes / bool / list where an int, "
              "a non-file where a file is expected)"},
    "pyu": {"relevant": False, "desc": "the operations of Model/PyU_T18.lean (cstruct types read from BytesIO / a real file incl. the position an EOFError "
            "leaves, `[Type(fh) for _ in range(n)]`, int.to_bytes) vs dissect.cstruct / CPython on random operands"},
}
G_STREAMS = set(PE_OPS) | {"pehist", "tbl", "cfg", "hist"}
TRUSTED = [
    "tools/harness/c18.py (struct.pack image builder = ground truth, generators, adapters); line protocol parsing in lean/CsVerif/Driver/C18.lean",
    "tools/gen/version.py, tools/gen/pestruct.py (tables, struct layouts measured on the loaded cstruct classes)",
    "dissect.cstruct structure reads are modelled as read(size)+EOFError-when-short; CPython re / _strptime / datetime.date / int() "
    "are modelled (Model/C18.lean: matchVersion, strptimeDate, validDate, digitValue?), not verified — exercised by the ver/fmt/cls streams; "
    "io.BytesIO / file objects by Model/PyFile.lean",
    "tools/py2leanu.py + lean/CsVerif/Model/PyU.lean, PyU_T15.lean, PyU_T02.lean, PyU_T18.lean + tools/gen/py_pe.py (source → Lean translation of the six "
    "pe.py helpers: Props/C18Gen.lean proves the translation equal to the hand-written model; the g-* streams run the translated definitions against "
    "the real functions on every PE / pehist case and on arguments of any kind, the pyu stream runs the PyU_T18 operations against dissect.cstruct)",
]
ASSUMPTIONS = [
    "version strings: any Python str (Unicode digits and white space are table-driven, measured on re/int at generation time); "
    "digit groups shorter than CPython's int-conversion limit (4300 digits); C locale month abbreviations",
    "file objects are io.BytesIO or regular files opened 'rb'; start_offset is None or a non-negative int, maxrange a non-negative int",
]
RULE = ("histories on one BeaconConfig / one file object / repeated BeaconVersion constructions + grid of synthetic images (arch × e_lfanew × prepend × export dir × section count × append × magic × truncation × file kind) "
        "+ junk(s) ++ P ++ I searched from start_offset s with maxrange m (s, |P|, e_lfanew on both sides of m and of 1024; decoy images in front of / straddling s) for every helper "
        "+ mutated/random images + all table keys ±1 + shaped/malformed version strings; distinct = hash of (stream, line); "
        "non-trivial = an MZ header was located / the version regex matched / a table key hit")

MONTHS = ["Jan", "Feb", "Mar", "Apr", "May", "Jun", "Jul", "Aug", "Sep", "Oct", "Nov", "Dec"]
X86_MARK = bytes.fromhex("e8000000005b")
X64_MARK = bytes.fromhex("554889e54881")
AMD64, I386 = 0x8664, 0x14C


# --------------------------------------------------------------------------------------------------
# independent image builder (struct.pack only) — the ground truth
# --------------------------------------------------------------------------------------------------

class Img:
    """A synthetic PE image with known field values."""

    def __init__(self, rng, *, arch="x86", lfanew=128, nsec=2, export="in", machine=None, magic_mz=None, marker="own",
                 magic_pe=b"PE\x00\x00", append=b"", pad=0, raw_sizes=None, big_stamp=False, marker_at=None, overlap=False):
        self.arch = arch
        self.machine = machine if machine is not None else (AMD64 if arch == "x64" else I386)
        self.lfanew = lfanew
        self.magic_pe = magic_pe
        self.append = append
        self.pad = pad
        self.compile_stamp = rng.choice([0, 1, 0x5F94C216, 0xFFFFFFFF, rng.getrandbits(32)]) if big_stamp else rng.getrandbits(32)
        self.export_stamp = rng.choice([0, 0x5F94C216, 0x674E0D17, 0xFFFFFFFF, rng.getrandbits(32), rng.getrandbits(32)])
        is64 = self.machine == AMD64
        optsize = 240 if is64 else 224
        hdr_end = max(lfanew, 0) + 24 + optsize + 40 * nsec
        if lfanew < 64:
            hdr_end = max(hdr_end, 64)
        self.size_of_headers = hdr_end + rng.choice([0, 0, 8, 40])
        # sections: consecutive raw data after the headers, ascending VAs with gaps
        self.sections = []
        rawptr = self.size_of_headers
        va = 0x1000
        for i in range(nsec):
            rs = raw_sizes[i] if raw_sizes else rng.choice([0, 40, 64, 100, 200])
            vs = rng.choice([rs, rs + 16, max(rs - 8, 0), 0x100])
            self.sections.append(dict(name=(b".s%d" % i).ljust(8, b"\0"), vs=vs, va=va, rs=rs, ptr=rawptr))
            rawptr += rs
            va += 0x1000
        self.image_size = rawptr
        self.marker_at = marker_at if (marker_at is not None and 64 <= marker_at and marker_at + 6 <= lfanew) else None
        # overlapping sections: section 1 repeats the address range of section 0 (own raw data): the FIRST one must win
        self.overlap = overlap and nsec >= 2 and self.sections[0]["vs"] > 0
        if self.overlap:
            self.sections[1]["va"] = self.sections[0]["va"]
            self.sections[1]["vs"] = self.sections[0]["vs"] + rng.choice([0, 8])
        self.decoy_export_off = None
        # export directory placement
        self.export_rva = 0
        self.export_file_off = None  # offset inside the image
        cands = [s for s in self.sections if s["vs"] > 0]
        if export == "in" and cands:
            s = self.sections[0] if self.overlap else rng.choice(cands)
            delta = rng.choice([0, 0, 4, max(s["vs"] - 1, 0), rng.randrange(0, s["vs"])])
            self.export_rva = s["va"] + delta
            self.export_file_off = s["ptr"] + delta
            if self.overlap and delta < self.sections[1]["vs"]:
                self.decoy_export_off = self.sections[1]["ptr"] + delta
        elif export == "out":
            # RVA in no section: before the first, in a gap, exactly at VA+VirtualSize, or far away
            opts = [0x10, 0xFFFFFFF0]
            for s in self.sections:
                opts += [s["va"] + s["vs"], s["va"] + s["vs"] + 5, s["va"] - 1]
            self.export_rva = rng.choice(opts)
        elif export == "none":
            self.export_rva = 0
        # DOS header
        if magic_mz is None:
            magic_mz = b"MZ"
        self.magic_mz = magic_mz
        mark = {"own": X64_MARK if is64 else X86_MARK, "x86": X86_MARK, "x64": X64_MARK, "none": b"", "both": X64_MARK + b"\x90" + X86_MARK}[marker]
        self.marker = marker
        stub = magic_mz + mark
        fill = bytes(rng.choice(b"\x90\x91\x41\x42\xcc") for _ in range(64))
        self.dos = (stub + fill)[:60] + struct.pack("<i", lfanew)
        self.stub_fits = len(stub) <= 60

    def build(self, rng) -> bytes:
        is64 = self.machine == AMD64
        buf = bytearray(rng.choice(b"\x00\x90\x11\x22") for _ in range(self.image_size))
        # section raw data random
        for s in self.sections:
            buf[s["ptr"]:s["ptr"] + s["rs"]] = C.rbytes(rng, s["rs"])
        buf[:64] = self.dos
        L = self.lfanew
        if L >= 0:
            nsec = len(self.sections)
            fh = struct.pack("<HHIIIHH", self.machine, nsec, self.compile_stamp, rng.getrandbits(32), rng.getrandbits(32),
                             240 if is64 else 224, 0x2102)
            dd = [(self.export_rva, 0x50)] + [(rng.getrandbits(32), rng.getrandbits(16)) for _ in range(15)]
            ddb = b"".join(struct.pack("<II", a, b) for a, b in dd)
            if is64:
                opt = struct.pack("<HBBIIIIIQIIHHHHHHIIIIHHQQQQII", 0x20B, 14, 0, 1, 2, 3, 4, 5, 0x180000000, 0x1000, 0x200,
                                  6, 0, 0, 0, 6, 0, 0, 0x50000, self.size_of_headers, rng.getrandbits(32), 2, 0x160,
                                  0x100000, 0x1000, 0x100000, 0x1000, 0, 16) + ddb
            else:
                opt = struct.pack("<HBBIIIIIIIIIHHHHHHIIIIHHIIIIII", 0x10B, 14, 0, 1, 2, 3, 4, 5, 6, 0x10000000, 0x1000, 0x200,
                                  6, 0, 0, 0, 6, 0, 0, 0x50000, self.size_of_headers, rng.getrandbits(32), 2, 0x140,
                                  0x100000, 0x1000, 0x100000, 0x1000, 0, 16) + ddb
            assert len(opt) == (240 if is64 else 224)
            secs = b"".join(
                s["name"] + struct.pack("<IIIIIIHHI", s["vs"], s["va"], s["rs"], s["ptr"], 0, 0, 0, 0, 0x60000020) for s in self.sections
            )
            hdr = self.magic_pe + fh + opt + secs
            if len(buf) < L + len(hdr):
                buf += bytes(L + len(hdr) - len(buf))
            buf[L:L + len(hdr)] = hdr
            if L < 64:
                buf[60:64] = struct.pack("<i", L)  # keep e_lfanew authoritative (ground truth not claimed for such images)
        if self.decoy_export_off is not None:
            # what a "last matching section wins" reader would find
            ed = struct.pack("<IIHHIIIIIII", 0, self.export_stamp ^ 0x5A5A5A5A, 0, 0, 0x3000, 1, 1, 1, 0x3100, 0x3200, 0x3300)
            end = self.decoy_export_off + 40
            if len(buf) < end:
                buf += bytes(end - len(buf))
            buf[self.decoy_export_off:end] = ed
        if self.marker_at is not None:
            buf[self.marker_at:self.marker_at + 6] = X64_MARK if is64 else X86_MARK
        if self.export_file_off is not None:
            ed = struct.pack("<IIHHIIIIIII", 0, self.export_stamp, 0, 0, 0x3000, 1, 1, 1, 0x3100, 0x3200, 0x3300)
            end = self.export_file_off + 40
            if len(buf) < end:
                buf += bytes(end - len(buf))  # export directory partly beyond the raw data: still inside the file
            buf[self.export_file_off:end] = ed
        self.built_size = len(buf)
        return bytes(buf) + self.append + bytes(self.pad)

    def boundaries(self):
        """offsets (inside the image) where a truncation changes which read comes up short"""
        L = max(self.lfanew, 0)
        o = 240 if self.machine == AMD64 else 224
        b = [0, 1, 60, 63, 64, L, L + 3, L + 4, L + 23, L + 24, L + 24 + 95, L + 24 + o - 1, L + 24 + o]
        for i in range(len(self.sections) + 1):
            b += [L + 24 + o + 40 * i - 1, L + 24 + o + 40 * i]
        if self.export_file_off is not None:
            b += [self.export_file_off, self.export_file_off + 8, self.export_file_off + 39, self.export_file_off + 40]
        b += [self.image_size - 1, self.image_size, self.image_size + 1]
        return sorted({x for x in b if x >= 0})


def candidate(data: bytes, off: int, maxrange: int):
    """independent statement of the e_lfanew + Machine test at absolute offset `off` → machine or None"""
    if off + 64 > len(data):
        return None
    e = int.from_bytes(data[off + 60:off + 64], "little", signed=True)
    if not (0 < e < maxrange):
        return None
    p = off + 4 + e
    if p + 20 > len(data):
        return None
    m = int.from_bytes(data[p:p + 2], "little")
    return m


def first_candidate(data, start, maxrange, machines=(AMD64, I386)):
    for o in range(maxrange):
        if candidate(data, start + o, maxrange) in machines:
            return start + o
    return None


def expectations(img: Img, prepend: bytes, data: bytes, start, pos0, maxrange):
    """Ground truth for an untruncated image placed after `prepend` (None when the builder makes no claim)."""
    exp = dict.fromkeys(PE_OPS, "-")
    s = pos0 if start is None else start
    P = len(prepend)
    wellformed = (64 <= img.lfanew < maxrange and img.machine in (AMD64, I386) and s <= P < s + maxrange)
    fc = first_candidate(data, s, maxrange)
    if fc is None:
        # no offset in range passes the e_lfanew + Machine test: nothing may be reported
        return {"mz": "none", "arch": "none", "stamps": "ok_none_none", "mmz": "none", "mpe": "ok_none", "ppa": "ok_none_none"}
    if not wellformed:
        return exp
    if fc != P:
        return exp  # an accidental earlier candidate (NoEarlierCandidate does not hold): no claim
    exp["mz"] = str(P)
    exp["arch"] = "x64" if img.machine == AMD64 else "x86"
    ex = "none"
    # first section (in header order) that contains the RVA; the stamp is what the file holds at that place
    for sct in img.sections:
        if sct["va"] <= img.export_rva < sct["va"] + sct["vs"]:
            off = img.export_rva - sct["va"] + sct["ptr"]
            if off + 40 <= len(data) - P:
                ex = str(struct.unpack_from("<I", data, P + off + 4)[0])
                if img.export_file_off is not None:
                    assert off == img.export_file_off and ex == str(img.export_stamp)
            break
    exp["stamps"] = f"ok_{img.compile_stamp}_{ex}"
    # magic MZ
    if img.marker == "none" and img.marker_at is not None:
        full = data[P:P + 256]
        first = min([p for p in (full.find(X86_MARK), full.find(X64_MARK)) if p >= 0], default=-1)
        if img.marker_at + 6 <= 256 and first == img.marker_at:
            exp["mmz"] = C.hx(data[P:P + img.marker_at])   # everything before the marker
        elif img.marker_at + 6 > 256 and first == -1:
            exp["mmz"] = "none"                             # marker not completely inside the 256-byte window
    elif img.stub_fits and img.marker != "none" and X86_MARK not in img.magic_mz and X64_MARK not in img.magic_mz:
        full = data[P:P + 256]
        # only claim when no *other* marker occurrence precedes (random header bytes): positions known from the builder
        stub_at = len(img.magic_mz)
        first = min([p for p in (full.find(X86_MARK), full.find(X64_MARK)) if p >= 0], default=-1)
        if img.marker in ("own", "x86", "x64") and first == stub_at:
            exp["mmz"] = C.hx(img.magic_mz)
        elif img.marker == "both":
            # X86 marker is searched first even though the X64 marker comes earlier
            exp["mmz"] = C.hx(img.magic_mz + X64_MARK + b"\x90")
    exp["mpe"] = "ok_" + C.hx(img.magic_pe.rstrip(b"\x00"))
    # prepend / append
    total = img.size_of_headers + sum(sc["rs"] for sc in img.sections)
    tail = data[P + total:P + total + 1024]
    app = "none" if not tail else C.hx(tail.rstrip(b"\x00"))
    if total == img.built_size:
        want = (img.append + bytes(img.pad))[:1024]
        assert tail == want
    exp["ppa"] = f"ok_{'none' if P == 0 else C.hx(prepend)}_{app}"
    return exp


def pe_lines(kind, data, pos0, start, maxrange, exp=None, ops=PE_OPS):
    st = "none" if start is None else str(start)
    for op in ops:
        e = exp[op] if exp else "-"
        yield op, f"{op} {kind} {C.hx(data)} {pos0} {st} {maxrange} {e}"


def safe_prepend(rng, n):
    """prepend bytes that cannot form an earlier candidate by themselves (every dword is negative or huge)"""
    mode = rng.random()
    if mode < 0.5:
        return bytes(rng.choice(b"\xff\xfe\xcc\x90\xf0") for _ in range(n))
    if mode < 0.8:
        return C.rbytes(rng, n)
    return bytes(n)  # all zero: e_lfanew == 0 everywhere


# --------------------------------------------------------------------------------------------------
# generators
# --------------------------------------------------------------------------------------------------

def gen0(tier, rng, shard, nshards):
    thorough = tier == "thorough"
    k = 0

    def mine():
        nonlocal k
        k += 1
        return (k % nshards) == shard

    # ---- 1. grid of synthetic images -------------------------------------------------------------
    lfas = [64, 128, 200, 400, 1023, 0, -1, 1024, 5000] + ([65, 1022, 40, 1, 63, -2147483648] if thorough else [1, 63])
    pres = [0, 1, 5, 300, 1023, 1024] + ([2, 64, 1022, 1025] if thorough else [])
    for arch in ("x86", "x64"):
        for lfa in lfas:
            for pl in pres:
                for export in ("in", "out", "none"):
                    nsecs = range(6) if thorough else (0, 1, 3, 5)
                    for nsec in nsecs:
                        if not mine():
                            continue
                        # full 1024-step scans (long prepend / no valid header) are the slow cases: the quick tier keeps
                        # every (arch, e_lfanew, prepend) pair but samples the export × section-count sub-grid for them
                        slow = pl >= 1023 or not (0 < lfa < 1024)
                        if not thorough and rng.random() < (0.6 if slow else 0.3):
                            continue
                        append = rng.choice([b"", b"APPENDED", C.rbytes(rng, rng.choice([1, 7, 100])), b"\x00\x00tail\x00", C.rbytes(rng, 1100)])
                        pad = rng.choice([0, 0, 3, 16, 1030])
                        magic = rng.choice([None, None, b"MZRE", b"MZAR", b"\x4d\x5a\x90\x00", b"", b"zz", C.rbytes(rng, 4)])
                        marker = rng.choice(["own", "own", "own", "x86", "x64", "none", "both"])
                        mpe = rng.choice([b"PE\x00\x00", b"PE\x00\x00", b"AB\x00\x00", b"\x00\x00\x00\x00", b"A\x00B\x00", b"WXYZ", b"\x00PE\x00"])
                        marker_at = None
                        if lfa >= 300 and rng.random() < 0.5:
                            marker, marker_at = "none", rng.choice([249, 250, 251, 252, 255, 256, 100, 64])
                        img = Img(rng, arch=arch, lfanew=lfa, nsec=nsec, export=export, magic_mz=magic, marker=marker, magic_pe=mpe,
                                  append=append, pad=pad, marker_at=marker_at, overlap=rng.random() < 0.35)
                        body = img.build(rng)
                        prepend = safe_prepend(rng, pl)
                        data = prepend + body
                        kind = "O" if (k // nshards) % 4 == 3 else "B"
                        exp = expectations(img, prepend, data, 0, 0, 1024)
                        yield from pe_lines(kind, data, 0, 0, 1024, exp)
                        # truncations of the same image (model correspondence; "return what is known")
                        bnds = img.boundaries()
                        ntr = 2 if thorough else 1
                        for _ in range(ntr):
                            cut = pl + (rng.choice(bnds) if rng.random() < 0.8 else rng.randrange(0, len(body) + 1))
                            cut = max(0, min(cut, len(data)))
                            ops = PE_OPS if rng.random() < 0.5 else rng.sample(PE_OPS, 2)
                            yield from pe_lines(kind, data[:cut], 0, 0, 1024, None, ops)

    # ---- 1b. whole stages through BeaconConfig.from_bytes: prepend + image + configuration block ----------
    for rep in range(240 if thorough else 48):
        if not mine():
            continue
        arch = rng.choice(["x86", "x64"])
        img = Img(rng, arch=arch, lfanew=rng.choice([64, 128, 200, 400]), nsec=rng.choice([1, 2, 3]), export=rng.choice(["in", "in", "none", "out"]),
                  big_stamp=True)
        if rep % 4 == 0:
            img.compile_stamp = 0                         # a zero TimeDateStamp is a value, not "no image"
        if rep % 8 == 2:
            img.export_stamp = 0
        pre = safe_prepend(rng, rng.choice([0, 0, 5, 300]))
        enums = sorted(rng.sample([2, 3, 4, 5, 7, 8, 9, 26, 27, 37, 38, 40, 43, 50, 54, 58, 59, 70, 72, 76, 77, 78], rng.choice([1, 3, 6])))
        blk = struct.pack(">HHHH", 1, 1, 2, rng.choice([0, 1, 8])) + _settings_block(enums)
        key = rng.choice([0x2E, 0x69])
        cfgb = bytes(b ^ key for b in blk.ljust(rng.choice([200, 4096]), b"\x00"))
        gap = bytes(rng.choice(b"\x90\xcc\x41") for _ in range(rng.choice([0, 3, 64])))
        img.append = gap + cfgb                      # the builder's own "append" slot: what follows the image
        body = img.build(rng)[:-len(img.append)]
        data = pre + body + gap + cfgb
        exp = expectations(img, pre, data, 0, 0, 1024)
        e = "-" if "-" in (exp["arch"], exp["stamps"]) else f"{exp['arch']}_{exp['stamps'][3:]}"
        if (bytes(b ^ 0x2E for b in STAGE_HDR) in pre + body + gap) or (bytes(b ^ 0x69 for b in STAGE_HDR) in pre + body + gap) or STAGE_HDR in pre + body + gap:
            continue
        yield "stage", f"stage {C.hx(data)} {C.ints([1] + enums)} {e}"

    # ---- 2. start_offset / maxrange / tell() variations, other machines, boundary e_lfanew vs maxrange -----
    n2 = (1500 if thorough else 260) // nshards
    for _ in range(n2):
        arch = rng.choice(["x86", "x64"])
        maxrange = rng.choice([1024, 1024, 0, 1, 2, 64, 65, 100, 129, 200, 201, 2048])
        lfa = rng.choice([64, 64, 100, 128, 199, 200, 201, maxrange - 1 if maxrange > 65 else 64, maxrange, 72])
        machine = rng.choice([None, None, None, 0x200, 0x14D, 0x8665, 0x6486, 0x4C01, 0])
        img = Img(rng, arch=arch, lfanew=lfa, nsec=rng.randrange(0, 4), export=rng.choice(["in", "in", "out", "none"]), machine=machine,
                  append=rng.choice([b"", b"xyz\x00\x00"]), big_stamp=True, overlap=rng.random() < 0.4)
        body = img.build(rng)
        pl = rng.choice([0, 1, 3, 63, 64, 99, 100, 101, 128, 199, 200, 300])
        prepend = safe_prepend(rng, pl)
        data = prepend + body
        mode = rng.random()
        if mode < 0.4:
            start, pos0 = 0, rng.choice([0, 5])
        elif mode < 0.7:
            start, pos0 = None, rng.choice([0, 1, pl, max(pl - 1, 0), pl + 1, len(data), len(data) + 7])
        else:
            start, pos0 = rng.choice([1, pl, max(pl - 1, 0), pl + 1, len(data) - 1, len(data) + 3]), rng.choice([0, 9])
        start = None if start is None else max(start, 0)
        kind = rng.choice("BBBO")
        exp = expectations(img, prepend, data, start, pos0, maxrange)
        yield from pe_lines(kind, data, pos0, start, maxrange, exp)

    # ---- 2b. junk(s bytes) ++ P ++ I searched with start_offset = s and maxrange = m: the shape of `mz_found_at` ---------
    # every helper, both tiers.  What a subtly wrong start/maxrange handling would change:
    #   * `return offset` instead of `start_offset + offset`, a helper calling find_mz_offset with the default start/maxrange
    #     → s > 0, a COMPLETE decoy image in front of s (other arch / stamps / magic), m ≠ 1024 with |P| or e_lfanew on the
    #     far side of 1024 resp. of m;
    #   * `range(maxrange)` / `e_lfanew < maxrange` off by one → |P| ∈ {m-1, m}, e_lfanew ∈ {m-1, m}, decoy starting at s-1;
    #   * prepend read from start_offset instead of 0 → the expected prepend is everything in front of the image.
    def stage_at(arch, m, lfa, s, pl, jmode, tellmode):
        img = Img(rng, arch=arch, lfanew=lfa, nsec=rng.randrange(0, 4), export=rng.choice(["in", "in", "out", "none"]),
                  append=rng.choice([b"", b"xyz\x00\x00", C.rbytes(rng, 9)]), big_stamp=True,
                  magic_mz=rng.choice([None, None, b"MZRE", b"zz"]), magic_pe=rng.choice([b"PE\x00\x00", b"PE\x00\x00", b"AB\x00\x00"]))
        body = img.build(rng)
        other = "x64" if arch == "x86" else "x86"
        junk = safe_prepend(rng, s)
        P = safe_prepend(rng, pl)
        if jmode == "decoy" and s >= 700:
            # a complete, valid image of the OTHER architecture entirely in front of the start offset
            d = Img(rng, arch=other, lfanew=64, nsec=1, export="in", raw_sizes=[64], append=b"")
            db = d.build(rng)
            if len(db) <= s:
                at = rng.choice([0, s - len(db)])
                junk = junk[:at] + db + junk[at + len(db):]
        elif jmode == "straddle" and s >= 1:
            # a valid image that begins ONE byte before the start offset (its header must not be inspected)
            d = Img(rng, arch=other, lfanew=64, nsec=0, export="none")
            db = d.build(rng)
            junk = junk[:s - 1] + db[:1]
            P = (db[1:] + P)[:pl] if pl else b""
        prepend = junk + P
        data = prepend + body
        if tellmode:
            start, pos0 = None, s
        else:
            start, pos0 = s, rng.choice([0, 0, 5, s, len(data), len(data) + 3])
        kind = rng.choice("BBO")
        exp = expectations(img, prepend, data, start, pos0, m)
        return pe_lines(kind, data, pos0, start, m, exp)

    for m in (65, 129, 2048):
        for j, (s, pl) in enumerate(((1, 0), (7, m - 1), (1000, m), (1024, 1), (3, m - 2))):
            if not mine():
                continue
            yield from stage_at("x64" if (j + m) % 2 else "x86", m, 64 if j % 2 else m - 1, s, pl,
                                ("safe", "decoy", "straddle")[j % 3], False)
    n2b = (900 if thorough else 140) // nshards
    for _ in range(n2b):
        m = rng.choice([65, 66, 100, 129, 257, 512, 1023, 1024, 1025, 2048, 2048] + ([4096] if thorough else []))
        lfa = rng.choice([64, 64, 64, m - 1, m - 1, m, max(m - 2, 64), min(72, m - 1)])
        s = rng.choice([1, 2, 7, 64, 100, 331, 1000, 1023, 1024, 1025, 3000])
        pl = rng.choice([0, 0, 1, 2, m // 2, m - 2, m - 1, m - 1, m, m + 1, min(1024, m - 1), min(1023, m - 1)])
        yield from stage_at(rng.choice(["x86", "x64"]), m, lfa, s, pl, rng.choice(["safe", "safe", "decoy", "straddle"]),
                            rng.random() < 0.2)

    # ---- 3. two images / decoys: an earlier candidate exists (first one must win) ---------------------
    n3 = (400 if thorough else 80) // nshards
    for _ in range(n3):
        a = Img(rng, arch=rng.choice(["x86", "x64"]), lfanew=rng.choice([64, 80, 128]), nsec=rng.randrange(0, 3), export="in")
        b = Img(rng, arch=rng.choice(["x86", "x64"]), lfanew=rng.choice([64, 128, 256]), nsec=rng.randrange(0, 3), export="in")
        da, db = a.build(rng), b.build(rng)
        gap = safe_prepend(rng, rng.choice([0, 1, 17]))
        pre = safe_prepend(rng, rng.choice([0, 2, 50]))
        data = pre + da + gap + db
        # decoy with wrong machine in front
        if rng.random() < 0.5:
            d = Img(rng, arch="x86", lfanew=64, nsec=0, export="none", machine=rng.choice([0x200, 0x14D]))
            data = d.build(rng) + data
        yield from pe_lines(rng.choice("BO"), data, 0, 0, 1024)

    # ---- 4. malformed: mutated images and random bytes ------------------------------------------------
    n4 = (1500 if thorough else 250) // nshards
    for _ in range(n4):
        r = rng.random()
        if r < 0.6:
            img = Img(rng, arch=rng.choice(["x86", "x64"]), lfanew=rng.choice([64, 64, 128, 200]), nsec=rng.randrange(0, 6),
                      export=rng.choice(["in", "out", "none"]), append=rng.choice([b"", b"A" * 20]))
            data = bytearray(safe_prepend(rng, rng.choice([0, 0, 1, 9])) + img.build(rng))
            for _ in range(rng.choice([1, 1, 2, 4, 8])):
                i = rng.randrange(0, min(len(data), 700))
                data[i] = rng.choice([0, 0xFF, 0x7F, 0x80, rng.getrandbits(8)])
            if rng.random() < 0.3:
                data = data[:rng.randrange(0, len(data) + 1)]
            data = bytes(data)
        elif r < 0.75:
            data = C.rbytes(rng, rng.choice([0, 1, 63, 64, 65, 87, 88, 89, 200, 1500]))
        elif r < 0.9:
            # dense in small e_lfanew values: many overlapping candidates
            n = rng.choice([90, 130, 400])
            data = bytes(rng.choice([0, 0, 0, 1, 0x4C, 0x64, 0x86, 0x14, 8, 24]) for _ in range(n))
        else:
            # huge / negative header fields
            img = Img(rng, arch=rng.choice(["x86", "x64"]), lfanew=64, nsec=2, export="in")
            data = bytearray(img.build(rng))
            o = 64 + 24 + (240 if img.machine == AMD64 else 224)
            for fld in rng.sample([o + 8, o + 12, o + 16, o + 20, 64 + 24 + 60, 64 + 6], 2):
                data[fld:fld + 4] = rng.choice([b"\xff\xff\xff\xff", b"\x00\x00\x00\x80", b"\xff\xff\xff\x7f", b"\x00\x00\x00\x00"])
            data = bytes(data)
        mr = rng.choice([1024, 1024, 1024, 16, 300])
        ops = PE_OPS if rng.random() < 0.6 else rng.sample(PE_OPS, 2)
        yield from pe_lines(rng.choice("BBBO"), data, 0, rng.choice([0, 0, 0, None, 3]), mr, None, ops)

    # ---- 5. version tables: every key, key ± 1, 0 ------------------------------------------------------
    for which, tbl in (("pe", version.PE_EXPORT_STAMP_TO_VERSION), ("enum", version.MAX_ENUM_TO_VERSION)):
        keys = set()
        for key in tbl:
            keys |= {key, key - 1, key + 1}
        keys |= {0, 1, -1, 2 ** 32 - 1, 2 ** 32, 2 ** 31}
        for key in sorted(keys):
            if mine():
                yield "tbl", f"tbl {which} {key}"
    allpe = list(version.PE_EXPORT_STAMP_TO_VERSION)
    allen = list(version.MAX_ENUM_TO_VERSION)
    # monotonicity witnesses: every pair of keys of each table (a failed `table_monotone_*` obligation has a failing pair here)
    for which, keys in (("pe", allpe), ("enum", allen)):
        for i, k1 in enumerate(keys):
            for k2 in keys[i + 1:]:
                if mine():
                    a, b = (k1, k2) if k1 < k2 else (k2, k1)
                    yield "mono", f"mono {which} {a} {b}"
    # precedence: stamp ∈ {None, 0, hit, miss} × enums
    stamps = ["none", "0"] + [str(x) for x in allpe] + [str(x + 1) for x in allpe[:6]] + ["-1", "1"]
    for st in stamps:
        for en in ([[x] for x in allen] + [[1, 2, 3], [78, 20], [20, 78, 5], [79], [77, 1], [], [65535], [200, 7]]):
            if not mine():
                continue
            if len(en) == 1 and st not in ("none", "0") and rng.random() < (0.0 if thorough else 0.7):
                continue
            yield "cfg", f"cfg {st} {C.ints(en)}"
    for _ in range((2000 if thorough else 300) // nshards):
        st = rng.choice(["none", "0", str(rng.choice(allpe)), str(rng.choice(allpe) + rng.choice([-1, 1])), str(rng.getrandbits(32))])
        en = [rng.choice(allen + [rng.randrange(1, 120)]) for _ in range(rng.randrange(0, 6))]
        yield "cfg", f"cfg {st} {C.ints(en)}"

    # ---- histories on ONE BeaconConfig object (a memoised .version, a stale cache after assigning pe_export_stamp, …)
    stamp_pool = (["none", "0", "-1", "1"] + [str(x) for x in allpe] + [str(x + 1) for x in allpe[:8]] + [str(x - 1) for x in allpe[:8]])

    def rstamp():
        return rng.choice(stamp_pool) if rng.random() < 0.9 else str(rng.getrandbits(32))

    def rother():
        return rng.choice(["c" + rng.choice(["none", "0", str(rng.getrandbits(32)), str(rng.choice(allpe))]),
                           "a" + rng.choice(["x86", "x64", "none"])])

    # systematic: read, assign, read  (all ordered pairs of a small stamp set × a few settings)
    small = ["none", "0", str(allpe[0]), str(allpe[-1]), str(allpe[5] + 1)]
    for en in ([20], [78, 20], [55, 1, 3], [], [200]):
        for a in small:
            for b in small:
                if not mine():
                    continue
                yield "hist", f"hist {C.ints(en)} s{a}|r|s{b}|r"
                yield "hist", f"hist {C.ints(en)} r|s{b}|r|m|s{a}|r"
    for _ in range((6000 if thorough else 900) // nshards):
        en = [rng.choice(allen + [rng.randrange(1, 120)]) for _ in range(rng.choice([0, 1, 1, 2, 3, 5]))]
        n = rng.randrange(2, 9)
        ops = []
        for _ in range(n):
            r = rng.random()
            ops.append("r" if r < 0.4 else ("s" + rstamp()) if r < 0.7 else "m" if r < 0.8 else rother())
        if "r" not in ops:
            ops[rng.randrange(len(ops))] = "r"
        if rng.random() < 0.5:
            ops += ["s" + rstamp(), "r"]
        yield "hist", f"hist {C.ints(en)} {'|'.join(ops[:10])}"

    # ---- BeaconVersion constructed repeatedly with prefix-sharing strings
    alltexts = sorted(set(version.PE_EXPORT_STAMP_TO_VERSION.values()) | set(version.MAX_ENUM_TO_VERSION.values()))
    for _ in range((4000 if thorough else 600) // nshards):
        base = rng.choice(alltexts)
        fam = [base]
        for _ in range(rng.randrange(1, 6)):
            r = rng.random()
            if r < 0.25:
                fam.append(rng.choice(alltexts))
            elif r < 0.45:   # same prefix up to the day / year
                fam.append(base[:-9] + f"{rng.randrange(1, 29):02d}, {rng.choice([2016, 2019, 2021, 2024])})")
            elif r < 0.6:    # same prefix, other minor / patch
                head, _, tail = base.partition(" (")
                fam.append(head + rng.choice([".1", ".0", "0", ""]) + " (" + tail)
            elif r < 0.75:
                fam.append(base[:rng.randrange(0, len(base))])
            elif r < 0.85:
                fam.append("Unknown")
            else:
                fam.append(gen_version(rng))
        rng.shuffle(fam)
        yield "verhist", "verhist " + "|".join(txt(t) for t in fam)

    # ---- several pe.find_* calls on the SAME file object, different orders and starting positions
    for _ in range((1500 if thorough else 220) // nshards):
        arch = rng.choice(["x86", "x64"])
        img = Img(rng, arch=arch, lfanew=rng.choice([64, 64, 128, 200, 400, 0, 1024]), nsec=rng.randrange(0, 4),
                  export=rng.choice(["in", "in", "out", "none"]), append=rng.choice([b"", b"TAIL\x00\x00", C.rbytes(rng, 30)]),
                  magic_mz=rng.choice([None, b"MZRE", b"zz"]), overlap=rng.random() < 0.3)
        body = img.build(rng)
        # non-default maxrange and a non-zero start offset (junk of `js` bytes in front of it) in a third of the histories
        mr = rng.choice([1024, 1024, 1024, 1024, 129, 300, 401, 2048])
        js = rng.choice([0, 0, 0, 0, 5, 700])
        prepend = safe_prepend(rng, js) + safe_prepend(rng, rng.choice([0, 0, 1, 7, 64, 300]))
        data = prepend + body
        if rng.random() < 0.15:
            data = data[:rng.randrange(0, len(data) + 1)]
            img = None
        P = len(prepend)
        items = []
        ops = [rng.choice(PE_OPS) for _ in range(rng.randrange(2, 7))]
        if rng.random() < 0.4:
            ops = list(PE_OPS)
            rng.shuffle(ops)
        for op in ops:
            start = rng.choice([0, 0, 0, None, P, max(P - 1, 0), P + 1, 3]) if js == 0 else rng.choice([js, js, js, None, 0, P, P + 1])
            sk = rng.choice(["-", "-", "0", str(P), str(js), str(rng.randrange(0, len(data) + 5)), str(len(data))])
            exp = "-"
            if img is not None and (start is not None or sk != "-"):
                exp = expectations(img, prepend, data, start, int(sk) if sk != "-" else 0, mr)[op]
            items.append(f"{op}:{'none' if start is None else start}:{sk}:{exp}")
        yield "pehist", f"pehist {rng.choice('BBO')} {C.hx(data)} {mr} {'|'.join(items)}"

    # ---- character classes: every code point (thorough) / the BMP part that holds all white space + sampled blocks (quick)
    step = 4096
    blocks = list(range(0, 0x110000, step))
    for b in blocks:
        if not mine():
            continue
        if thorough or b < 0x4000 or rng.random() < 0.1:
            yield "cls", f"cls {b} {min(b + step, 0x110000)}"

    # ---- 6. version strings -----------------------------------------------------------------------------
    for text in sorted(set(version.PE_EXPORT_STAMP_TO_VERSION.values()) | set(version.MAX_ENUM_TO_VERSION.values())):
        if mine():
            yield "ver", "ver " + txt(text)
    for text in EDGE_VERSIONS:
        if mine():
            yield "ver", "ver " + txt(text)
    # every (month, day) with leap / non-leap years
    for y in (2016, 2019, 1900, 2000, 1, 9999, 0):
        for m in range(1, 13):
            for d in (1, 9, 10, 28, 29, 30, 31, 32, 0):
                if mine():
                    yield "ver", "ver " + txt(f"Cobalt Strike 4.{m} ({MONTHS[m - 1]} {d:02d}, {y:04d})")
    for _ in range((30000 if thorough else 4000) // nshards):
        yield "ver", "ver " + txt(gen_version(rng))
    for _ in range((6000 if thorough else 800) // nshards):
        maj, mn = rng.choice([0, 3, 4, 10, 99, 12345678901234567890]), rng.choice([0, 1, 9, 10, 14, 100])
        patch = rng.choice(["none", "none", "0", "1", "12"])
        y = rng.choice([1, 999, 1000, 1999, 2016, 2020, 2024, 2100, 9999, 2000, 1900])
        m = rng.randrange(1, 13)
        d = rng.randrange(1, 32)
        yield "fmt", f"fmt {maj} {mn} {patch} {y} {m} {d}"


EDGE_VERSIONS = [
    "", "Unknown", "Cobalt Strike", "Cobalt Strike ", "Cobalt Strike 4", "Cobalt Strike 4.", "Cobalt Strike 4.5", "Cobalt Strike 4.5 ",
    "Cobalt Strike 4.5 (", "Cobalt Strike 4.5 ()", "Cobalt Strike 4.5 (Dec 14, 2021)", " Cobalt Strike 4.5 (Dec 14, 2021)",
    "Cobalt Strike 4.5 (Dec 14, 2021) trailing", "Cobalt Strike 4.5 (Dec 14, 2021))", "Cobalt Strike 4.5 (Dec 14, 2021) (x)",
    "Cobalt Strike 4.5 (Dec 14, 2021)\n", "Cobalt Strike 4.5 (Dec 14, 2021\n)", "Cobalt Strike 4.5 (Dec 14,\n2021)",
    "Cobalt Strike 4.5 (Dec 14, 2021)\n)", "Cobalt Strike 4.5.1 (Dec 14, 2021)", "Cobalt Strike 4.5. (Dec 14, 2021)",
    "Cobalt Strike 4.5.1.2 (Dec 14, 2021)", "Cobalt Strike 4..5 (Dec 14, 2021)", "Cobalt Strike .5 (Dec 14, 2021)",
    "Cobalt Strike 4.5  (Dec 14, 2021)", "Cobalt Strike 4.5(Dec 14, 2021)", "Cobalt Strike 04.005.0007 (Dec 14, 2021)",
    "Cobalt Strike 4.5 (dec 14, 2021)", "Cobalt Strike 4.5 (DEC 14, 2021)", "Cobalt Strike 4.5 (dEc 14, 2021)",
    "Cobalt Strike 4.5 (Dec  14,  2021)", "Cobalt Strike 4.5 (Dec\t14,\t2021)", "Cobalt Strike 4.5 (Dec14, 2021)",
    "Cobalt Strike 4.5 (Dec 14,2021)", "Cobalt Strike 4.5 (Dec 1, 2021)", "Cobalt Strike 4.5 (Dec  1, 2021)",
    "Cobalt Strike 4.5 (Dec 01, 2021)", "Cobalt Strike 4.5 (Dec 00, 2021)", "Cobalt Strike 4.5 (Dec 0, 2021)",
    "Cobalt Strike 4.5 (Dec 31, 2021)", "Cobalt Strike 4.5 (Dec 32, 2021)", "Cobalt Strike 4.5 (Dec 3, 2021)",
    "Cobalt Strike 4.5 (Dec 014, 2021)", "Cobalt Strike 4.5 (Dec 14, 202)", "Cobalt Strike 4.5 (Dec 14, 20211)",
    "Cobalt Strike 4.5 (Dec 14, 2021 )", "Cobalt Strike 4.5 ( Dec 14, 2021)", "Cobalt Strike 4.5 (Decem 14, 2021)",
    "Cobalt Strike 4.5 (December 14, 2021)", "Cobalt Strike 4.5 (Feb 29, 2020)", "Cobalt Strike 4.5 (Feb 29, 2021)",
    "Cobalt Strike 4.5 (Feb 29, 1900)", "Cobalt Strike 4.5 (Feb 29, 2000)", "Cobalt Strike 4.5 (Feb 30, 2020)",
    "Cobalt Strike 4.5 (Apr 31, 2020)", "Cobalt Strike 4.5 (Jun 31, 2020)", "Cobalt Strike 4.5 (Sep 31, 2020)", "Cobalt Strike 4.5 (Nov 31, 2020)",
    "Cobalt Strike 4.5 (Dec 14, 0000)", "Cobalt Strike 4.5 (Dec 14, 0001)", "Cobalt Strike 4.5 (Dec 14, 9999)",
    "Cobalt Strike 4.5 (Dec 14; 2021)", "Cobalt Strike 4.5 (Dec 14, 2021", "Cobalt Strike 4.5 )Dec 14, 2021(",
    "Cobalt Strike 4.5 (a) (Dec 14, 2021)", "Cobalt Strike 4.5 (Dec 14, 2021) (Dec 15, 2021)", "cobalt strike 4.5 (Dec 14, 2021)",
    "Cobalt Strike 4.5 (Dec\xa014, 2021)", "Cobalt Strike 4.5 (Dec\x1c14,\x852021)", "Cobalt Strike 4.5 (Dec 14, 2021)",
    "Cobalt Strike 4.5 (Dec\n14, 2021)", "Cobalt Strike 4.5 (Dec \n14, 2021))", "Cobalt Strike 4.5 (Dec 14, 2021)))",
    "Cobalt Strike 4.5 (Dec 14, 2021)\r", "Cobalt Strike 4.5\n (Dec 14, 2021)", "Cobalt Strike 4 .5 (Dec 14, 2021)",
    "Cobalt Strike 4.5 (Mai 14, 2021)", "Cobalt Strike 4.5 (May 14, 2021)", "Cobalt Strike 4.5 (Dec 2 , 2021)", "Cobalt Strike 4.5 (Dec 3x, 2021)",
    "Cobalt Strike 4.5 (Dec 30, 2021)", "Cobalt Strike 4.5 (Dec 29, 2021)", "Cobalt Strike 4.5 (Dec 19, 2021)", "Cobalt Strike 4.5 (Dec 09, 2021)",
    "Cobalt Strike 4.5 (Dec 9, 2021)", "Cobalt Strike 4.5 (Dec 4 , 2021)", "Cobalt Strike 4.5 (Dec 40, 2021)", "Cobalt Strike 4.5 (Dec 33, 2021)",
    "Cobalt Strike 4.5 (é)", "Cobalt Strike 4.5 (日本)", "Cobalt Strike 4.5 (Dec 14, 2021)日",
    # Unicode decimal digits (\d of a str pattern, int()) and white space; case-folding specials of re.IGNORECASE
    "Cobalt Strike ٤.٥ (Dec 14, 2021)", "Cobalt Strike 4.5.٣ (Dec 14, 2021)", "Cobalt Strike ４.５ (Dec 14, ２０２１)",
    "Cobalt Strike 4.5 (Dec 1٤, 2021)", "Cobalt Strike 4.5 (Dec ١4, 2021)", "Cobalt Strike 4.5 (Dec 3١, 2021)", "Cobalt Strike 4.5 (Dec 0١, 2021)",
    "Cobalt Strike 4.5 (Dec ٤, 2021)", "Cobalt Strike 4.5 (Dec 2𝟗, 2021)", "Cobalt Strike 𝟜.𝟝 (Dec 14, 𝟚𝟘𝟚𝟙)", "Cobalt Strike 4.5 (Dec 14, 20２1)",
    "Cobalt Strike 4.5 (Dec\u200514,\u30002021)", "Cobalt Strike 4.5 (Dec\u180e14, 2021)", "Cobalt Strike 4.5 (Dec\u200b14, 2021)",
    "Cobalt Strike 4.5 (ſep 14, 2021)", "Cobalt Strike 4.5 (\u017fEP 14, 2021)", "Cobalt Strike 4.5 (Oc\u212a 14, 2021)",
    "Cobalt Strike 4.5 (Jun 14, 2021)", "Cobalt Strike 4.5 (JUN 14, 2021)", "Cobalt Strike 4.5 (jUn 14, 2021)", "Cobalt Strike 4.5 (Ju\u0130 14, 2021)",
    "Cobalt Strike 4\u00b2.5 (Dec 14, 2021)", "Cobalt Strike 4.5 (Dec 14, 202\u00b9)", "Cobalt Strike 4.5 (Dec 14, 2021)\u2028x",
    "Cobalt Strike 4.5 (Dec 14, 2021\u2028)", "Cobalt Strike 4.5 (Dec 14, 2021\r)", "Cobalt Strike 4.5 (Dec 14, 2021)\x00", "Cobalt Strike 4.5 (\ud800)",
]


def txt(s: str) -> str:
    return "l" + ",".join(str(ord(c)) for c in s)


def untxt(t: str) -> str:
    return "".join(chr(int(x)) for x in t[1:].split(",") if x)


def gen_version(rng) -> str:
    """documented shape with local deviations"""
    maj = str(rng.choice([3, 4, 4, 4, 0, 10, 123]))
    mn = str(rng.choice([0, 1, 5, 9, 10, 11, 14, 7]))
    if rng.random() < 0.08:
        z = rng.choice([0x660, 0xFF10, 0x1D7CE, 0x966])
        maj = "".join(chr(z + int(ch)) if rng.random() < 0.7 else ch for ch in maj)
        mn = "".join(chr(z + int(ch)) if rng.random() < 0.7 else ch for ch in mn)
    patch = rng.choice(["", "", "", ".1", ".0", ".12", ".", "..1", ".x"])
    mon = rng.choice(MONTHS + ["jan", "DEC", "sEp", "Foo", "Ma", "Sept", "Juli"])
    day = rng.choice([f"{rng.randrange(0, 33):02d}", str(rng.randrange(0, 40)), " " + str(rng.randrange(1, 10)), "3", "31", "30", "29"])
    year = rng.choice(["2016", "2020", "2021", "2024", "1999", "2000", "1900", "0000", "0001", "9999", "202", "20201", "20a1"])
    if rng.random() < 0.08:
        z = rng.choice([0x660, 0xFF10, 0x1D7CE])
        day = "".join(chr(z + int(ch)) if (ch.isdigit() and rng.random() < 0.5) else ch for ch in day)
        year = "".join(chr(z + int(ch)) if (ch.isdigit() and rng.random() < 0.5) else ch for ch in year)
    sep1 = rng.choice([" ", " ", " ", "  ", "\t", "", "\xa0", "\u2003", "\u3000"])
    sep2 = rng.choice([", ", ", ", ", ", ",", ",  ", " , ", "; ", ",\t"])
    date = f"{mon}{sep1}{day}{sep2}{year}"
    s = f"Cobalt Strike {maj}.{mn}{patch} ({date})"
    r = rng.random()
    if r < 0.55:
        return s
    if r < 0.65:
        i = rng.randrange(0, len(s))
        return s[:i] + s[i + 1:]
    if r < 0.75:
        i = rng.randrange(0, len(s) + 1)
        return s[:i] + rng.choice(["(", ")", " ", ".", "\n", "1", ",", "x", "é", "中"]) + s[i:]
    if r < 0.85:
        return s + rng.choice([")", " (beta)", "\n", " x", "))", "\n)", " (", ")("])
    if r < 0.9:
        return rng.choice([" ", "x", "\n", "Cobalt Strike "]) + s
    i = rng.randrange(0, len(s))
    return s[:i] + rng.choice(["(", ")", " ", ".", "0", "\n"]) + s[i + 1:]


# --------------------------------------------------------------------------------------------------
# adapters to the real library
# --------------------------------------------------------------------------------------------------

_TMP = None


def _open(kind, data, pos0):
    global _TMP
    if kind == "B":
        fh = io.BytesIO(data)
    else:
        if _TMP is None or _TMP[0] != os.getpid():
            fd, path = tempfile.mkstemp(prefix="c18_", suffix=".bin")
            os.close(fd)
            _TMP = (os.getpid(), path)
            import atexit

            atexit.register(lambda p=path: os.path.exists(p) and os.unlink(p))
        with open(_TMP[1], "wb") as w:
            w.write(data)
        fh = open(_TMP[1], "rb")
    fh.seek(pos0)
    return fh


def _ob(b):
    return "none" if b is None else C.hx(b)


def _oi(v):
    return "none" if v is None else str(int(v))


def _ver(bv) -> str:
    """canonical rendering of a BeaconVersion; also checks the derived properties against each other"""
    if bv.tuple is None and bv.date is None:
        if bv.version_only != "Unknown" or bv.version_string != "Cobalt Strike Unknown":
            return "inconsistent-version_only"
        return "ok none"
    if bv.tuple is None or bv.date is None:
        return "inconsistent-tuple-date"
    if bv.version_string != "Cobalt Strike " + bv.version_only:
        return "inconsistent-version_string"
    d = bv.date
    if type(d) is not datetime.date:
        return "date-type"
    return f"ok {C.ints(bv.tuple)} {d.year} {d.month} {d.day} {txt(bv.version_only)}"


def _excname(e):
    for cls in (EOFError, IndexError, KeyError, OverflowError, ValueError, OSError, AttributeError, TypeError):
        if isinstance(e, cls):
            return cls.__name__
    return type(e).__name__


STAGE_HDR = bytes.fromhex("00010001000200")


def _settings_block(enums):
    return b"".join(struct.pack(">HHHI", e, 2, 4, 0x01020304) for e in enums) + b"\x00\x00"


# documented defaults of the pe helpers: search from offset 0 over 1024 bytes
DOC_DEFAULTS = {"start_offset": 0, "maxrange": 1024}
_LINE = [""]      # the case line being executed (impl sets it; drop_defaults derives its choice from it)


def _pe_call(fh, op, start, maxrange):
    if op == "mz":
        r = pe.find_mz_offset(fh, **C.drop_defaults(_LINE[0], DOC_DEFAULTS, start_offset=start, maxrange=maxrange))
        return f"{_oi(r)} {fh.tell()}"
    if op == "arch":
        r = pe.find_architecture(fh, **C.drop_defaults(_LINE[0], DOC_DEFAULTS, start_offset=start, maxrange=maxrange))
        return f"{'none' if r is None else r} {fh.tell()}"
    if op == "stamps":
        c, x = pe.find_compile_stamps(fh, **C.drop_defaults(_LINE[0], DOC_DEFAULTS, start_offset=start, maxrange=maxrange))
        return f"ok {_oi(c)} {_oi(x)} {fh.tell()}"
    if op == "mmz":
        r = pe.find_magic_mz(fh, **C.drop_defaults(_LINE[0], DOC_DEFAULTS, start_offset=start, maxrange=maxrange))
        return f"{_ob(r)} {fh.tell()}"
    if op == "mpe":
        r = pe.find_magic_pe(fh, **C.drop_defaults(_LINE[0], DOC_DEFAULTS, start_offset=start, maxrange=maxrange))
        return f"ok {_ob(r)} {fh.tell()}"
    if op == "ppa":
        p, a = pe.find_stage_prepend_append(fh, **C.drop_defaults(_LINE[0], DOC_DEFAULTS, start_offset=start, maxrange=maxrange))
        return f"ok {_ob(p)} {_ob(a)} {fh.tell()}"
    raise RuntimeError("unknown pe op " + op)


def impl0(stream, line):
    _LINE[0] = line
    w = line.split(" ")
    if stream in PE_OPS:
        data = C.unhx(w[2])
        pos0 = int(w[3])
        start = None if w[4] == "none" else int(w[4])
        maxrange = int(w[5])
        fh = _open(w[1], data, pos0)
        try:
            return _pe_call(fh, stream, start, maxrange)
        finally:
            fh.close()
    if stream == "pehist":
        fh = _open(w[1], C.unhx(w[2]), 0)
        maxrange = int(w[3])
        outs = []
        try:
            for item in w[4].split("|"):
                op, start, sk, _exp = item.split(":")
                if sk != "-":
                    fh.seek(int(sk))
                try:
                    outs.append(_pe_call(fh, op, None if start == "none" else int(start), maxrange))
                except Exception as e:  # noqa: BLE001  (per-step rendering, same names as check.canon_exc for the builtins)
                    outs.append("exc " + _excname(e))
        finally:
            fh.close()
        return " | ".join(outs)
    if stream == "hist":
        enums = C.unints(w[1])
        cfg = BeaconConfig(_settings_block(enums))
        outs = []
        for op in w[2].split("|"):
            if op == "r":
                try:
                    v = cfg.version
                    outs.append(f"{txt(str(v))} {_ver(v)}")
                except Exception as e:  # noqa: BLE001
                    outs.append("exc " + _excname(e))
            elif op == "m":
                try:
                    outs.append(f"ok {int(cfg.max_setting_enum)}")
                except Exception as e:  # noqa: BLE001
                    outs.append("exc " + _excname(e))
            elif op[0] == "s":
                cfg.pe_export_stamp = None if op[1:] == "none" else int(op[1:])
            elif op[0] == "c":
                cfg.pe_compile_stamp = None if op[1:] == "none" else int(op[1:])
            elif op[0] == "a":
                cfg.architecture = None if op[1:] == "none" else op[1:]
            else:
                raise RuntimeError("bad history op " + op)
        return " | ".join(outs)
    if stream == "verhist":
        outs = []
        for t in w[1].split("|"):
            try:
                outs.append(_ver(version.BeaconVersion(untxt(t))))
            except Exception as e:  # noqa: BLE001
                outs.append("exc " + _excname(e))
        return " | ".join(outs)
    if stream == "ver":
        return _ver(version.BeaconVersion(untxt(w[1])))
    if stream == "tbl":
        key = int(w[2])
        bv = version.BeaconVersion.from_pe_export_stamp(key) if w[1] == "pe" else version.BeaconVersion.from_max_setting_enum(key)
        return f"{txt(str(bv))} {_ver(bv)}"
    if stream == "cls":
        import re

        out = []
        for c in range(int(w[1]), int(w[2])):
            ch = chr(c)
            if re.match(r"\s", ch):
                out.append("s")
            elif re.match(r"\d", ch):
                out.append(str(int(ch)))
            else:
                out.append("-")
        return "".join(out)
    if stream == "mono":
        mk = version.BeaconVersion.from_pe_export_stamp if w[1] == "pe" else version.BeaconVersion.from_max_setting_enum
        k1, k2 = int(w[2]), int(w[3])
        a, b = mk(k1), mk(k2)
        if k1 >= k2:
            return "T"
        if a.tuple is None or b.tuple is None or a.date is None or b.date is None:
            return "F"
        return C.tf(a.tuple <= b.tuple and a.date <= b.date)
    if stream == "stage":
        cfg = BeaconConfig.from_bytes(C.unhx(w[1]))
        return f"ok {cfg.architecture or 'none'} {_oi(cfg.pe_compile_stamp)} {_oi(cfg.pe_export_stamp)} ok {txt(str(cfg.version))}"
    if stream == "cfg":
        enums = C.unints(w[2])
        cfg = BeaconConfig(_settings_block(enums))
        cfg.pe_export_stamp = None if w[1] == "none" else int(w[1])
        return "ok " + txt(str(cfg.version))
    if stream == "fmt":
        maj, mn, patch, y, m, d = w[1:7]
        text = f"Cobalt Strike {maj}.{mn}" + ("" if patch == "none" else f".{patch}") + f" ({MONTHS[int(m) - 1]} {int(d):02d}, {int(y):04d})"
        try:
            r = _ver(version.BeaconVersion(text))
        except ValueError:
            r = "exc ValueError"
        return f"{txt(text)} {r}"
    raise RuntimeError("unknown stream " + stream)


def nontrivial0(stream, line, out):
    if out.startswith("exc "):
        return False
    if stream in ("mz", "arch", "mmz"):
        return not out.startswith("none")
    if stream in ("stamps", "mpe", "ppa"):
        return not out.startswith("ok none")
    if stream in ("ver",):
        return out.startswith("ok l")
    if stream in ("tbl", "fmt"):
        return " ok l" in out
    if stream == "mono":
        return out == "T"
    if stream == "cfg":
        return out != "ok " + txt("Unknown")
    if stream == "cls":
        return any(ch != "-" for ch in out)
    if stream == "hist":
        return " ok l" in out
    if stream == "verhist":
        return "ok l" in out
    if stream == "pehist":
        return any(not (p.startswith("none") or p.startswith("ok none") or p.startswith("exc")) for p in out.split(" | "))
    return True


def _days_in_month(y, m):
    if m == 2:
        return 29 if (y % 4 == 0 and (y % 100 != 0 or y % 400 == 0)) else 28
    return 30 if m in (4, 6, 9, 11) else 31


def oracle0(stream, line, out):
    """Independent statement of the property on the implementation's own output."""
    w = line.split(" ")
    if stream in PE_OPS:
        exp = w[6]
        if exp == "-":
            return None
        got = out.split(" ")
        if out.startswith("exc "):
            return False
        got = "_".join(got[:-1])  # drop the final tell()
        return got == exp
    if stream == "tbl":
        key = int(w[2])
        tbl = version.PE_EXPORT_STAMP_TO_VERSION if w[1] == "pe" else version.MAX_ENUM_TO_VERSION
        text = tbl.get(key, "Unknown")
        if not out.startswith(txt(text) + " "):
            return False
        if key in tbl:
            return _shape_ok(text, out.split(" ", 1)[1])
        return out.endswith(" ok none")
    if stream == "mono":
        return out == "T"
    if stream == "hist":
        return _hist_oracle(w, out)
    if stream == "verhist":
        outs = out.split(" | ")
        texts = [untxt(t) for t in w[1].split("|")]
        if len(outs) != len(texts):
            return False
        for t, o in zip(texts, outs):
            if t == "Unknown" and o != "ok none":
                return False
            if _documented(t) and not _shape_ok(t, o):
                return False
        return True
    if stream == "pehist":
        items = w[4].split("|")
        outs = out.split(" | ")
        if len(outs) != len(items):
            return False
        claimed = False
        for item, o in zip(items, outs):
            exp = item.split(":")[3]
            if exp == "-":
                continue
            claimed = True
            if o.startswith("exc ") or "_".join(o.split(" ")[:-1]) != exp:
                return False
        return True if claimed else None
    if stream == "stage":
        if w[3] == "-":
            return None
        arch, comp, exs = w[3].split("_")
        enums = C.unints(w[2])
        st = None if exs == "none" else int(exs)
        if not st and not enums:
            return None  # max() of an empty configuration: ValueError, outside the statement
        want = version.PE_EXPORT_STAMP_TO_VERSION.get(st, "Unknown") if st else version.MAX_ENUM_TO_VERSION.get(max(enums), "Unknown")
        return out == f"ok {arch} {comp} {exs} ok {txt(want)}"
    if stream == "cfg":
        st = None if w[1] == "none" else int(w[1])
        enums = C.unints(w[2])
        if st:
            want = version.PE_EXPORT_STAMP_TO_VERSION.get(st, "Unknown")
        elif enums:
            want = version.MAX_ENUM_TO_VERSION.get(max(enums), "Unknown")
        else:
            return None  # max() of an empty configuration: ValueError, outside the statement
        return out == "ok " + txt(want)
    if stream == "fmt":
        maj, mn, patch, y, m, d = w[1:7]
        y, m, d = int(y), int(m), int(d)
        if d > _days_in_month(y, m):
            return out.endswith("exc ValueError") or None
        tup = [int(maj), int(mn)] + ([] if patch == "none" else [int(patch)])
        vo = ".".join(str(x) for x in tup)
        return out.endswith(f" ok {C.ints(tup)} {y} {m} {d} {txt(vo)}")
    if stream == "ver":
        text = untxt(w[1])
        return _shape_ok(text, out) if _documented(text) else None
    return None


def _expected_ver(text: str):
    if text == "Unknown":
        return "ok none"
    if not _documented(text):
        return None
    pre = "Cobalt Strike "
    ver, _, date = text[len(pre):-1].partition(" (")
    tup = [int(p) for p in ver.split(".")]
    y, m, d = int(date[8:]), MONTHS.index(date[:3]) + 1, int(date[4:6])
    return f"ok {C.ints(tup)} {y} {m} {d} {txt('.'.join(str(x) for x in tup))}"


def _hist_oracle(w, out):
    """every read must equal the stateless value for the attributes the object has AT THAT MOMENT:
    (a) computed from the two dictionaries directly, (b) what a fresh object with the same attributes reports"""
    enums = C.unints(w[1])
    outs = out.split(" | ") if out else []
    stamp = compile_ = arch = None
    k = 0
    for op in w[2].split("|"):
        if op in ("r", "m"):
            if k >= len(outs):
                return False
            got = outs[k]
            k += 1
            if op == "m":
                want = f"ok {max(enums)}" if enums else "exc ValueError"
                if got != want:
                    return False
                continue
            if stamp:
                text = version.PE_EXPORT_STAMP_TO_VERSION.get(stamp, "Unknown")
            elif enums:
                text = version.MAX_ENUM_TO_VERSION.get(max(enums), "Unknown")
            else:
                if got != "exc ValueError":
                    return False
                continue
            ev = _expected_ver(text)
            if ev is not None and got != f"{txt(text)} {ev}":
                return False
            if not got.startswith(txt(text) + " "):
                return False
            fresh = BeaconConfig(_settings_block(enums))
            fresh.pe_export_stamp, fresh.pe_compile_stamp, fresh.architecture = stamp, compile_, arch
            if txt(str(fresh.version)) != got.split(" ")[0]:
                return False
        elif op[0] == "s":
            stamp = None if op[1:] == "none" else int(op[1:])
        elif op[0] == "c":
            compile_ = None if op[1:] == "none" else int(op[1:])
        elif op[0] == "a":
            arch = None if op[1:] == "none" else op[1:]
    return k == len(outs)


def _documented(text: str) -> bool:
    """exactly the documented shape, written without `re`/`strptime`"""
    pre = "Cobalt Strike "
    if not text.startswith(pre) or not text.endswith(")") or " (" not in text:
        return False
    ver, _, date = text[len(pre):-1].partition(" (")
    parts = ver.split(".")
    if len(parts) not in (2, 3) or not all(p.isascii() and p.isdigit() for p in parts):
        return False
    if len(date) != 12 or date[:3] not in MONTHS or date[3] != " " or date[6:8] != ", ":
        return False
    dd, yy = date[4:6], date[8:]
    if not (dd.isascii() and dd.isdigit() and yy.isascii() and yy.isdigit()):
        return False
    y, m, d = int(yy), MONTHS.index(date[:3]) + 1, int(dd)
    return 1 <= y <= 9999 and 1 <= d <= _days_in_month(y, m)


def _shape_ok(text: str, ver_out: str) -> bool:
    """for a string of the documented shape: the reported tuple/date/version_only agree with the text"""
    pre = "Cobalt Strike "
    ver, _, date = text[len(pre):-1].partition(" (")
    tup = [int(p) for p in ver.split(".")]
    y, m, d = int(date[8:]), MONTHS.index(date[:3]) + 1, int(date[4:6])
    vo = ".".join(str(x) for x in tup)
    return ver_out == f"ok {C.ints(tup)} {y} {m} {d} {txt(vo)}"


def shrink0(stream, line):
    if stream in ("hist", "verhist"):
        w = line.split(" ")
        steps = w[-1].split("|")
        for i in range(len(steps)):
            if len(steps) > 1:
                yield " ".join(w[:-1] + ["|".join(steps[:i] + steps[i + 1:])])
        return
    if stream == "pehist":
        w = line.split(" ")
        steps = w[-1].split("|")
        for i in range(len(steps)):
            if len(steps) > 1:
                yield " ".join(w[:-1] + ["|".join(steps[:i] + steps[i + 1:])])
        return
    if stream in ("mono", "tbl"):
        return  # the keys are the witness; shrinking an integer key leaves the table
    if stream in PE_OPS:
        w = line.split(" ")
        # shrinking invalidates the builder's expectation
        w[6] = "-"
        yield from C.shrink_tokens(" ".join(w))
    else:
        yield from C.shrink_tokens(line)


# --------------------------------------------------------------------------------------------------
# `g-*` / `pyu` streams: the definitions translated from the source of pe.py (Gen/PyPe.lean)
# --------------------------------------------------------------------------------------------------

def g_line(line: str) -> str:
    """the case line of a PE stream for the translated definition: in half of the cases an argument that equals its DOCUMENTED default
    is written `dflt` (= left out of the real call; the Lean side then takes the default the source has)"""
    import zlib
    w = line.split(" ")
    if w[0] in PE_OPS and zlib.crc32(("g" + line).encode()) % 2 == 0:
        if w[4] == str(DOC_DEFAULTS["start_offset"]):
            w[4] = "dflt"
        if w[5] == str(DOC_DEFAULTS["maxrange"]):
            w[5] = "dflt"
    return "g" + " ".join(w)


_PE_FUNCS = {"mz": "find_mz_offset", "arch": "find_architecture", "stamps": "find_compile_stamps", "mmz": "find_magic_mz", "mpe": "find_magic_pe",
             "ppa": "find_stage_prepend_append"}


def _fmt_pe(op, r, tell):
    if op == "mz":
        return f"{_oi(r)} {tell}"
    if op == "arch":
        return f"{'none' if r is None else r} {tell}"
    if op == "stamps":
        return f"ok {_oi(r[0])} {_oi(r[1])} {tell}"
    if op == "mmz":
        return f"{_ob(r)} {tell}"
    if op == "mpe":
        return f"ok {_ob(r)} {tell}"
    return f"ok {_ob(r[0])} {_ob(r[1])} {tell}"


def _g_impl(stream, line):
    w = line.split(" ")
    if stream in ("g-pehist", "g-tbl", "g-cfg", "g-hist"):
        return impl0(stream[2:], line[1:])
    if stream == "g-argv":
        key = pyuval.pparse(w[2])
        bv = version.BeaconVersion.from_pe_export_stamp(key) if w[1] == "pe" else version.BeaconVersion.from_max_setting_enum(key)
        return f"{txt(str(bv))} {_ver(bv)}"
    if stream == "g-arg":
        args = [pyuval_t15.parse(t) for t in w[2:5]]
        with pyuval_t15.Opened(args) as a:
            r = getattr(pe, _PE_FUNCS[w[1]])(*a)
            tell = a[0].tell() if isinstance(args[0], pyuval_t15.FileSpec) else "-"      # (no helper touches a non-file `fh` when maxrange ≤ 0)
        return "ok " + pyuval.pshow(pyuval_t18.norm(r)) + " " + str(tell)
    op = stream[2:]
    kw = {}
    if w[4] != "dflt":
        kw["start_offset"] = None if w[4] == "none" else int(w[4])
    if w[5] != "dflt":
        kw["maxrange"] = int(w[5])
    fh = _open(w[1], C.unhx(w[2]), int(w[3]))
    try:
        r = getattr(pe, _PE_FUNCS[op])(fh, **kw)
        return _fmt_pe(op, r, fh.tell())
    finally:
        fh.close()


def impl(stream, line):
    if stream == "pyu":
        return pyuval_t18.run(line)
    if stream.startswith("g-"):
        return _g_impl(stream, line)
    return impl0(stream, line)


def nontrivial(stream, line, out):
    if stream in ("pyu", "g-arg", "g-argv"):
        return not out.startswith("exc ")
    if stream.startswith("g-"):
        return nontrivial0(stream[2:], line[1:], out)
    return nontrivial0(stream, line, out)


def oracle(stream, line, out):
    if stream.startswith("g-") or stream == "pyu":
        return None
    return oracle0(stream, line, out)


def shrink(stream, line):
    if stream in ("pyu", "g-arg", "g-argv"):
        return
    if stream.startswith("g-"):
        if " dflt " in line:
            return
        for cand in shrink0(stream[2:], line[1:]):
            yield "g" + cand
        return
    yield from shrink0(stream, line)


def garg_case(rng):
    """arguments of any kind for the translated helpers.  (The translation evaluates the arguments of `fh.seek(a + b)` before it looks the
    method up on `fh`; CPython does it the other way round — the two differ only when BOTH fail, so a non-file `fh` comes with well-typed
    arguments here.)"""
    op = rng.choice(PE_OPS)
    if rng.random() < 0.85:
        img = Img(rng, arch=rng.choice(["x86", "x64"]), lfanew=rng.choice([64, 64, 72, 128]), nsec=rng.choice([0, 1, 2]), export=rng.choice(["in", "out", "none"]),
                  append=rng.choice([b"", b"AB\x00"]))
        pre = safe_prepend(rng, rng.choice([0, 0, 1, 3, 7]))
        data = pre + img.build(rng)
        if rng.random() < 0.3:
            data = data[:rng.randrange(0, len(data) + 1)]
        f = pyuval_t15.FileSpec(data, rng.choice([0, 0, 1, len(pre), len(data), len(data) + 3]), rng.choice([0, 0, 1]))
        start = rng.choice([0, 0, None, 1, len(pre), 3, -1, True, False, "1", b"", [0], (1,)])
        maxrange = rng.choice([1024, 1024, 200, 65, 64, 8, 1, 0, -1, -5, True, False, None, "a", b"", [4]])
    else:
        f = rng.choice([None, 5, b"ab", "ab", [1], (1, 2)])
        start = rng.choice([0, None, 1, 7, True])
        maxrange = rng.choice([0, 1, 3, -1, True, False, 1024])
    return "garg " + op + " " + " ".join(pyuval_t15.show(x) for x in (f, start, maxrange))


def gen(tier, rng, shard, nshards):
    """every case that calls one of the six helpers is also run through the definition translated from its source"""
    for stream, line in gen0(tier, rng, shard, nshards):
        yield stream, line
        if stream in G_STREAMS:
            yield "g-" + stream, g_line(line)
    for _ in range((20000 if tier == "thorough" else 4000) // nshards):
        yield "g-arg", garg_case(rng)
    keys = sorted(version.PE_EXPORT_STAMP_TO_VERSION) + sorted(version.MAX_ENUM_TO_VERSION)
    for _ in range((4000 if tier == "thorough" else 400) // nshards):
        key = rng.choice([rng.choice(keys), rng.choice(keys) + 1, 0, 1, 20, -1, True, False, None, "20", b"", (20,), [20], {}, 2 ** 40])
        yield "g-argv", f"gargv {rng.choice(['pe', 'enum'])} {pyuval.pshow(key)}"
    for _ in range((30000 if tier == "thorough" else 6000) // nshards):
        line = pyuval_t18.case(rng)
        if line is not None:
            yield "pyu", line

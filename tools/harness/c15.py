"""C15 — pattern scanners (utils.iter_find_needle, artifact.iter_artifactkit_payloads):
generators, adapters to the real library, independent oracle.

Streams `g-*` / `pyu`: the two functions are also TRANSLATED from their source on every run (plug-in gen/py_scan.py →
Gen/PyScan.lean, untyped translator) and proved equal to the hand-written model (Props/C15Gen.lean); every needle / art case is
also executed through the translated definition (`g-<stream>`), `g-arg` runs it on arguments of any kind, `pyu` runs the
operations of Model/PyU_T15.lean (file objects, `find`) against CPython."""
from __future__ import annotations

import io
import itertools
import os
import struct
import tempfile

from dissect.cobaltstrike import artifact, utils

from . import common as C
from . import pyuval, pyuval_t15

ID = "C15"
DRIVER = "drv_c15"
GEN = ["py_utils", "py_scan"]
EXTRA_PROP_FILES = ["Props/C15Gen.lean"]
STREAMS = {
    "needle-b": {"relevant": True, "desc": "list(iter_find_needle(BytesIO, needle, start, 0)) + tell(), io.DEFAULT_BUFFER_SIZE patched to B; "
                 "no limit: the property fixes the answer completely, any difference from the model contradicts it"},
    "needle-f": {"relevant": True, "desc": "same on a real file opened 'rb'"},
    "needlelim-b": {"relevant": True, "desc": "with max_offset != 0 on BytesIO: the exact list and final position are fixed by the closed form of "
                    "`needle_limit_exact` (block start <= max_offset and buffer index <= max_offset, as a function of B and the start); the oracle "
                    "implements that closed form independently and also checks soundness + completeness before the limit"},
    "needlelim-f": {"relevant": True, "desc": "same on a real file"},
    "needle-edge": {"relevant": False, "desc": "outside the property's domain (empty needle, B = 0): model/code agreement only"},
    "art-b": {"relevant": True, "desc": "list(iter_artifactkit_payloads(BytesIO, start, maxrange)) + tell()"},
    "art-f": {"relevant": True, "desc": "same on a real file opened 'rb'"},
    "find": {"relevant": False, "desc": "CPython bytes.find(needle, start) vs the Lean model bytesFind (trusted-base exercise)"},
    "occ": {"relevant": False, "desc": "Lean specification `occ` vs the naive Python occurrence search used by the oracle"},
    "g-needle-b": {"relevant": False, "desc": "iter_find_needle TRANSLATED from its source (Gen/PyScan.lean) vs the function, on every case of needle-b"},
    "g-needle-f": {"relevant": False, "desc": "translated iter_find_needle vs the function on every case of needle-f"},
    "g-needlelim-b": {"relevant": False, "desc": "translated iter_find_needle vs the function on every case of needlelim-b"},
    "g-needlelim-f": {"relevant": False, "desc": "translated iter_find_needle vs the function on every case of needlelim-f"},
    "g-needle-edge": {"relevant": False, "desc": "translated iter_find_needle vs the function on every case of needle-edge"},
    "g-art-b": {"relevant": False, "desc": "iter_artifactkit_payloads TRANSLATED from its source vs the function, on every case of art-b"},
    "g-art-f": {"relevant": False, "desc": "translated iter_artifactkit_payloads vs the function on every case of art-f"},
    "g-arg": {"relevant": False, "desc": "the translated definitions vs the functions on arguments of ANY kind (None / str / bytes / list where an int, "
              "a file or bytes is expected; io.DEFAULT_BUFFER_SIZE of any kind): cases only the translation can express"},
    "pyu": {"relevant": False, "desc": "the operations of Model/PyU_T15.lean (file objects: read / seek / tell on BytesIO and a real file; bytes.find / "
            "str.find) vs CPython on operands of all kinds"},
}
G_STREAMS = ("needle-b", "needle-f", "needlelim-b", "needlelim-f", "needle-edge", "art-b", "art-f")
TRUSTED = [
    "tools/harness/c15.py generators, adapters and naive oracle; line protocol parsing in lean/CsVerif/Driver/C15.lean",
    "CPython bytes.find, bytes slicing, BytesIO / buffered file read/seek/tell are modelled (Model/C15.lean bytesFind?, Model/PyFile.lean), "
    "not verified; each is exercised by this correspondence (stream 'find', BytesIO and real-file streams)",
    "utils.u32 / utils.xor are the C20 models (C20.unpack, C20.xor), tied to the code by C20's correspondence",
    "tools/py2leanu.py and lean/CsVerif/Model/PyU.lean + PyU_T15.lean (the untyped translator and its run-time library: file objects, find, "
    "generators as the list of their yields): trusted; Props/C15Gen.lean proves the definitions translated from the source of both functions equal "
    "to the hand-written model; the g-* streams run the translated definitions against the real functions on every needle / art case and on "
    "arguments of any kind, the pyu stream runs the PyU_T15 operations against CPython",
]
ASSUMPTIONS = [
    "io.DEFAULT_BUFFER_SIZE is a positive int (model parameter B >= 1; B = 0 is exercised as correspondence only)",
    "file objects behave like BytesIO or a regular file opened 'rb' (read(n) is short only at EOF); max_offset / maxrange are non-negative",
    "the iterator is consumed completely (list(...)); the file is not modified concurrently",
]
RULE = ("exhaustive haystacks/needles over {00,01,ff} x B in 1..5 x start x limit, planted boundary-straddling occurrences for B in {7,64,8192}, "
        "limits on every block start s0+j*B (+-1) and on the buffer index of planted occurrences (+-1) for B in {1,2,3,5,7,64,8192}, "
        "ArtifactKit files with planted headers; distinct = hash of (stream, line); non-trivial = at least one offset / payload was reported "
        "by the real code, or a limit / start offset cut the result")

ALPHA = [0x00, 0x01, 0xFF]

# ----------------------------------------------------------------------------------------------
# naive, independent oracle
# ----------------------------------------------------------------------------------------------


def naive_occ(hay: bytes, needle: bytes):
    n = len(needle)
    return [i for i in range(0, len(hay) - n + 1) if all(hay[i + k] == needle[k] for k in range(n))]


def limit_closed_form(hay: bytes, needle: bytes, s0: int, m: int, B: int):
    """`needle_limit_exact`, written from the theorem statement (no block loop, no bytes.find):
    an occurrence at file offset o >= s0 belongs to block j = (o + n - 1 - s0) // B (the block holding its last byte), whose search
    buffer starts at file offset s0 + max(j*B - (n-1), 0); it is reported iff the block START is <= m and the buffer INDEX is <= m."""
    n = len(needle)
    out = []
    for o in naive_occ(hay, needle):
        if o < s0:
            continue
        j = (o + n - 1 - s0) // B
        if s0 + j * B > m:
            continue
        if o - (s0 + max(j * B - (n - 1), 0)) > m:
            continue
        out.append(o)
    return out


def limit_end(B: int, m: int, L: int, pos: int) -> int:
    """`limitEnd`: the position after the last block that was read (its start is <= m and < L)"""
    if pos > m or pos >= L:
        return pos
    return min(L, pos + ((m - pos) // B + 1) * B)


def naive_art(hay: bytes, s0: int, maxrange):
    out = []
    for pos in range(s0, len(hay) - 3):
        if maxrange is not None and pos > maxrange:
            break
        v = hay[pos] | hay[pos + 1] << 8 | hay[pos + 2] << 16 | hay[pos + 3] << 24
        if v != pos + 16:
            continue
        sz_b = hay[pos + 4:pos + 8]
        size = sum(b << (8 * k) for k, b in enumerate(sz_b))
        key = hay[pos + 8:pos + 12]
        hints = hay[pos + 12:pos + 20]
        data = hay[pos + 20:pos + 20 + size]
        if any(key):
            payload = bytes(b ^ key[k % len(key)] for k, b in enumerate(data))
        else:
            payload = data
        out.append((pos, size, key, hints, payload))
    return out


# ----------------------------------------------------------------------------------------------
# adapters
# ----------------------------------------------------------------------------------------------

def _open(kind: str, hay: bytes):
    """BytesIO, or a real (regular, buffered) file opened 'rb'; the directory entry is removed at once."""
    if kind == "b":
        return io.BytesIO(hay)
    fd, path = tempfile.mkstemp(prefix="c15_", suffix=".bin")
    try:
        with os.fdopen(fd, "wb") as w:
            w.write(hay)
        return open(path, "rb")
    finally:
        os.unlink(path)


def opt(t):
    return None if t == "none" else int(t)


def fmt_hits(hits, tell):
    parts = [str(len(hits))]
    for h in hits:
        parts += [str(h[0]), str(h[1]), C.hx(h[2]), C.hx(h[3]), C.hx(h[4])]
    parts.append(str(tell))
    return "ok " + " ".join(parts)


def _garg(line):
    """`gargn` / `garga`: the real generator on arguments of any kind; io.DEFAULT_BUFFER_SIZE patched to the first operand"""
    w = line.split()
    args = [pyuval_t15.parse(t) for t in w[1:]]
    saved = io.DEFAULT_BUFFER_SIZE
    try:
        if w[0] == "gargn":
            with pyuval_t15.Opened(args[1:]) as a:
                io.DEFAULT_BUFFER_SIZE = args[0]
                assert utils.io is io
                try:
                    out = list(utils.iter_find_needle(*a))
                finally:
                    io.DEFAULT_BUFFER_SIZE = saved
                return "ok " + pyuval.pshow(out) + " " + str(a[0].tell())
        with pyuval_t15.Opened(args) as a:
            hits = list(artifact.iter_artifactkit_payloads(*a))
            shown = "L[" + ";".join("I0[" + ";".join(pyuval.pshow(x) for x in h) + "]" for h in hits) + "]"
            return "ok " + shown + " " + str(a[0].tell())
    finally:
        io.DEFAULT_BUFFER_SIZE = saved


def impl(stream, line):
    if stream == "g-arg":
        return _garg(line)
    if stream == "pyu":
        return pyuval_t15.run(line)
    if stream.startswith("g-"):
        return impl(stream[2:], line[1:])        # the same real function
    w = line.split()
    if stream == "find":
        return str(C.unhx(w[1]).find(C.unhx(w[2]), int(w[3])))
    if stream == "occ":
        return C.ints(naive_occ(C.unhx(w[1]), C.unhx(w[2])))
    if stream.startswith("needle"):
        kind, B, hay, needle, start, maxoff, initpos = w[1], int(w[2]), C.unhx(w[3]), C.unhx(w[4]), opt(w[5]), int(w[6]), int(w[7])
        fh = _open(kind, hay)
        saved = io.DEFAULT_BUFFER_SIZE
        try:
            fh.seek(initpos)
            io.DEFAULT_BUFFER_SIZE = B  # utils does `import io` and reads the attribute at call time
            assert utils.io is io
            out = list(utils.iter_find_needle(fh, needle, **C.drop_defaults(line, {"start_offset": None, "max_offset": 0},
                                                                           start_offset=start, max_offset=maxoff)))
            return "ok " + C.ints(out) + " " + str(fh.tell())
        finally:
            io.DEFAULT_BUFFER_SIZE = saved
            fh.close()
    if stream.startswith("art"):
        kind, hay, start, maxrange, initpos = w[1], C.unhx(w[2]), opt(w[3]), opt(w[4]), int(w[5])
        fh = _open(kind, hay)
        try:
            fh.seek(initpos)
            hits = [tuple(h) for h in artifact.iter_artifactkit_payloads(fh, **C.drop_defaults(line, {"start_offset": 0, "maxrange": None},
                                                                                              start_offset=start, maxrange=maxrange))]
            return fmt_hits(hits, fh.tell())
        finally:
            fh.close()
    raise RuntimeError("unknown stream " + stream)


def oracle(stream, line, out):
    """The property stated directly on the implementation's output (naive search, no library calls)."""
    if stream.startswith("g-") or stream == "pyu":
        return None
    w = line.split()
    if stream.startswith("needle"):
        B, hay, needle, start, maxoff, initpos = int(w[2]), C.unhx(w[3]), C.unhx(w[4]), opt(w[5]), int(w[6]), int(w[7])
        if not needle or B < 1:
            return None  # outside the property's domain (correspondence only)
        if start is not None and start < 0:
            return out in ("exc ValueError", "exc OSError")
        if not out.startswith("ok l"):
            return False
        s0 = initpos if start is None else start
        toks = out.split()
        got = C.unints(toks[1])
        truth = [i for i in naive_occ(hay, needle) if i >= s0]
        if maxoff == 0:
            return got == truth
        tset = set(truth)
        if any(g not in tset for g in got):
            return False  # limit soundness
        if any(a >= b for a, b in zip(got, got[1:])):
            return False  # ascending, no duplicates
        gset = set(got)
        if not all(i in gset for i in truth if i + len(needle) <= maxoff):
            return False  # limit completeness
        # the exact cut and the final position (closed form of `needle_limit_exact`)
        return got == limit_closed_form(hay, needle, s0, maxoff, B) and int(toks[2]) == limit_end(B, maxoff, len(hay), s0)
    if stream.startswith("art"):
        hay, start, maxrange, initpos = C.unhx(w[2]), opt(w[3]), opt(w[4]), int(w[5])
        if start is not None and start < 0:
            return out in ("exc ValueError", "exc OSError")
        if not out.startswith("ok "):
            return False
        s0 = initpos if start is None else start
        exp = naive_art(hay, s0, maxrange)
        toks = out.split()
        return " ".join(toks[:-1]) == " ".join(fmt_hits(exp, 0).split()[:-1])
    return None


def nontrivial(stream, line, out):
    if stream in ("pyu", "g-arg"):
        return not out.startswith("exc ")
    if stream.startswith("g-"):
        return nontrivial(stream[2:], line[1:], out)
    if out.startswith("exc "):
        return False
    w = line.split()
    if stream.startswith("needle"):
        return out.split()[1] != "l" or (w[6] != "0" and w[3] != "x") or (w[5] not in ("none", "0") and w[3] != "x")
    if stream.startswith("art"):
        return not out.startswith("ok 0 ")
    if stream == "find":
        return out != "-1"
    if stream == "occ":
        return out != "l"
    return True


def shrink(stream, line):
    if stream in ("pyu", "g-arg"):
        return
    if stream.startswith("g-"):
        for cand in shrink(stream[2:], line[1:]):
            yield "g" + cand
        return
    yield from C.shrink_tokens(line)


# ----------------------------------------------------------------------------------------------
# generators
# ----------------------------------------------------------------------------------------------


def all_strings(maxlen, minlen=0):
    for n in range(minlen, maxlen + 1):
        for t in itertools.product(ALPHA, repeat=n):
            yield bytes(t)


def needle_line(kind, B, hay, needle, start, maxoff, initpos=0):
    stream = "needle-edge" if (not needle or B < 1) else (f"needlelim-{kind}" if maxoff else f"needle-{kind}")
    return (stream, f"needle {kind} {B} {C.hx(hay)} {C.hx(needle)} {'none' if start is None else start} {maxoff} {initpos}")


def art_line(kind, hay, start, maxrange, initpos=0):
    return (f"art-{kind}", f"art {kind} {C.hx(hay)} {'none' if start is None else start} {'none' if maxrange is None else maxrange} {initpos}")


def art_header(pos, size, key, hints):
    return struct.pack("<II", pos + 16, size) + key + hints


def gen_art_file(rng):
    """A file with 0-3 planted ArtifactKit headers (possibly overlapping / truncated)."""
    n = rng.choice([0, 1, 1, 2, 2, 3])
    total = rng.choice([0, 3, 4, 5, 19, 20, 24, 40, 64, 100, 300])
    buf = bytearray(C.rbytes(rng, total) if rng.random() < 0.5 else bytes(total))
    positions = []
    for _ in range(n):
        if positions and rng.random() < 0.4:
            # inside the previous record: size field, key, hints or payload area
            pos = positions[-1] + rng.choice([4, 5, 8, 11, 12, 16, 19, 20, 21, 24])
        elif positions and rng.random() < 0.6:
            pos = prev_end + rng.choice([0, 0, 1, 2, 7, 30])  # right after the previous record
        else:
            pos = rng.randrange(0, max(1, total + 4))
        r = rng.random()
        if r < 0.5:
            size = rng.randrange(0, 24)
        elif r < 0.7:
            size = rng.choice([0, 1, 4, 5, 255, 256, 1000])
        elif r < 0.8:
            size = rng.choice([2 ** 31, 2 ** 32 - 1, 70000])
        else:
            size = rng.randrange(0, 64)
        kr = rng.random()
        key = bytes(4) if kr < 0.15 else (bytes([0, 0, 0, rng.randrange(1, 256)]) if kr < 0.3 else C.rbytes(rng, 4))
        rec = art_header(pos, size, key, C.rbytes(rng, 8)) + C.rbytes(rng, min(size, 80) if rng.random() < 0.8 else rng.randrange(0, 8))
        if len(buf) < pos:
            buf += bytes(pos - len(buf))
        buf[pos:pos + len(rec)] = rec
        positions.append(pos)
        prev_end = pos + len(rec)
    hay = bytes(buf)
    if positions and rng.random() < 0.35:
        # truncate somewhere inside the last record (header, size, key, hints, payload)
        cut = positions[-1] + rng.choice([0, 1, 3, 4, 5, 7, 8, 9, 11, 12, 13, 19, 20, 21, 23])
        hay = hay[:cut]
    return hay, positions


def garg_case(rng):
    """arguments of any kind for the translated definitions"""
    f = pyuval_t15.rfile(rng) if rng.random() < 0.9 else rng.choice([None, 5, b"ab", [1]])
    if rng.random() < 0.6:
        bufsize = rng.choice([1, 2, 3, 4, 5, 8192, 0, True, None, -1, -2, "4", b"", [4]])
        needle = rng.choice([b"\x01", b"\x00\x01", b"\x01\x01", b"", b"\xff", None, 1, True, "a", "", [1], (1, 2), {}])
        start = rng.choice([None, None, 0, 1, 2, 5, -1, True, False, "1", b"", [0]])
        maxoff = rng.choice([0, 0, 1, 2, 3, 7, -1, -4, None, True, False, b"", b"x", "a", [], [1]])
        return "gargn " + " ".join(pyuval_t15.show(x) for x in (bufsize, f, needle, start, maxoff))
    if isinstance(f, pyuval_t15.FileSpec) and rng.random() < 0.6:
        pos = rng.choice([0, 1, 2])
        body = art_header(pos, rng.choice([0, 1, 3, 5]), C.rbytes(rng, 4), C.rbytes(rng, 8)) + C.rbytes(rng, rng.choice([0, 2, 5]))
        f = pyuval_t15.FileSpec(bytes(pos) + body[:rng.choice([len(body), len(body), 7, 11, 19])], rng.choice([0, 0, 1, 30]), f.kind)
    start = rng.choice([0, 0, None, 1, 2, -1, True, "0", b"", [0]])
    maxrange = rng.choice([None, None, 0, 1, 2, 30, -1, True, False, "a", b"", [1]])
    return "garga " + " ".join(pyuval_t15.show(x) for x in (f, start, maxrange))


def gen(tier, rng, shard, nshards):
    """every case that calls one of the two functions is also run through the definition translated from its source"""
    for stream, line in gen0(tier, rng, shard, nshards):
        yield stream, line
        if stream in G_STREAMS:
            yield "g-" + stream, "g" + line
    for _ in range((60000 if tier == "thorough" else 6000) // nshards):
        yield "g-arg", garg_case(rng)
    for _ in range((100000 if tier == "thorough" else 10000) // nshards):
        line = pyuval_t15.case(rng)
        if line is not None:
            yield "pyu", line


def gen0(tier, rng, shard, nshards):
    thorough = tier == "thorough"
    k = 0

    def mine():
        nonlocal k
        k += 1
        return (k % nshards) == shard

    def kind_of(c):
        return "f" if c % 5 == 0 else "b"

    starts = [None, 0, 1, 2, 3]
    needles = [n for n in all_strings(3, 1)]

    # ---- (1) bytes.find model and the occ specification, exhaustive on small inputs
    for hay in all_strings(5 if thorough else 4):
        for needle in all_strings(2):
            if not mine():
                continue
            yield "occ", f"occ {C.hx(hay)} {C.hx(needle)}"
            for s in range(-len(hay) - 2, len(hay) + 3):
                yield "find", f"find {C.hx(hay)} {C.hx(needle)} {s}"

    # ---- (2) full (start x limit x initpos) product on very small haystacks
    max_full, full_needles = (4, needles) if thorough else (3, [n for n in needles if len(n) <= 2])
    for hay in all_strings(max_full):
        for needle in full_needles:
            for B in range(1, 6):
                if not mine():
                    continue
                c = k
                for start in starts:
                    for maxoff in (0, 1, 2, 3, 5):
                        initpos = 0 if start is not None else (c % 4)
                        c += 1
                        yield needle_line(kind_of(c), B, hay, needle, start, maxoff, initpos)

    # ---- (3) all haystacks up to the length bound x needles x B, sampled (start, limit)
    max_hay = 7 if thorough else 5
    for hay in all_strings(max_hay, max_full + 1):
        for needle in needles:
            for B in range(1, 6):
                if not mine():
                    continue
                yield needle_line(kind_of(k), B, hay, needle, 0, 0)
                start = rng.choice(starts + [len(hay), len(hay) + 1])
                maxoff = rng.choice([0, 0, 1, 2, 3, 4, 5, 6, 7, 8])
                initpos = rng.randrange(0, len(hay) + 2) if start is None else rng.choice([0, 0, 3])
                yield needle_line(kind_of(k + 1), B, hay, needle, start, maxoff, initpos)

    # ---- (4) domain edges: empty needle, B = 0, negative / far start, needle longer than hay
    for hay in all_strings(3):
        for B in (0, 1, 2, 4):
            if not mine():
                continue
            for kind in "bf":
                yield needle_line(kind, B, hay, b"", rng.choice(starts), rng.choice([0, 0, 1, 2]), rng.randrange(0, 5))
                yield needle_line(kind, B, hay, bytes([rng.choice(ALPHA)]), -rng.randrange(1, 4), 0, rng.randrange(0, 3))
                yield needle_line(kind, B, hay, hay + b"\x01", 0, 0)
                yield needle_line(kind, max(B, 1), hay, hay, rng.choice(starts), rng.choice([0, 2, 3]))

    # ---- (5) long haystacks, occurrences planted at k*B - j (straddling every block boundary)
    plan = [(7, 8000 if thorough else 1600, 6), (64, 5000 if thorough else 800, 6), (8192, 800 if thorough else 160, 3),
            (1, 600 if thorough else 120, 40), (3, 3000 if thorough else 480, 10)]
    for B, count, maxblocks in plan:
        for _ in range(max(1, count // nshards)):
            nl = rng.choice([1, 1, 2, 2, 3, 4, 5, 6, 8, B, B + 1, B + 3, 2 * B + 1] if B <= 7 else [1, 2, 3, 4, 8, 16, 63, 64, 65, 130] if B == 64 else [1, 2, 4, 5, 16, 300])
            style = rng.random()
            if style < 0.35:
                needle = bytes(rng.choice(ALPHA) for _ in range(nl))
            elif style < 0.5:
                needle = bytes([rng.choice(ALPHA)]) * nl  # self-overlapping
            elif style < 0.65 and nl >= 2:
                unit = C.rbytes(rng, rng.choice([1, 2]))
                needle = (unit * nl)[:nl]  # periodic
            else:
                needle = C.rbytes(rng, nl)
            total = rng.randrange(0, maxblocks * B + 2) if rng.random() < 0.8 else rng.choice([B - 1, B, B + 1, 2 * B - 1, 2 * B, 2 * B + 1, 3 * B])
            r = rng.random()
            if r < 0.4:
                buf = bytearray(C.rbytes(rng, total))
            elif r < 0.7:
                buf = bytearray(rng.choice(list(needle) + ALPHA) for _ in range(total))  # many partial matches
            else:
                buf = bytearray(bytes([needle[0]]) * total) if rng.random() < 0.5 else bytearray(total)
            if B == 8192 and len(buf) and r >= 0.7 and rng.random() < 0.7:
                buf = bytearray(C.rbytes(rng, total))  # keep the number of hits in huge files moderate
            s_choice = rng.random()
            if s_choice < 0.45:
                start, initpos = 0, 0
            elif s_choice < 0.6:
                start, initpos = None, rng.choice([0, 1, B - 1, B, B + 1, rng.randrange(0, total + 2)])
            else:
                start, initpos = rng.choice([1, 2, nl - 1, nl, B - 1, B, B + 1, rng.randrange(0, total + 3)]), rng.choice([0, 5])
            s0 = initpos if start is None else start
            planted = []
            for _ in range(rng.randrange(0, 7)):
                kb = rng.randrange(0, maxblocks + 1) * B + (s0 if rng.random() < 0.7 else 0)
                j = rng.randrange(0, nl + 2)
                p = kb - j
                if p < 0:
                    p = rng.choice([0, s0])
                if len(buf) < p + nl and rng.random() < 0.8:
                    buf += bytes(rng.choice(ALPHA) for _ in range(p + nl - len(buf)))
                if p + nl <= len(buf):
                    buf[p:p + nl] = needle
                    planted.append(p)
            if rng.random() < 0.15 and len(buf) >= 1:
                buf = buf[:len(buf) - rng.randrange(0, min(nl, len(buf)) + 1)]  # cut the last occurrence
            hay = bytes(buf)
            if rng.random() < 0.7 or not planted:
                maxoff = 0
            else:
                p = rng.choice(planted)
                maxoff = max(0, p + rng.choice([-1, 0, 1, nl - 1, nl, nl + 1, B, -B]))
            yield needle_line("f" if rng.random() < 0.3 else "b", B, hay, needle, start, maxoff, initpos)

    # ---- (5b) limits ON the two boundaries of the closed form: block starts s0 + j*B and buffer indices o - bufStart(j(o))
    # (a wrong comparison operator in either test, or a test against the file offset instead of the buffer index, changes one of these)
    plan_b = [(1, 260, 9), (2, 300, 8), (3, 300, 6), (5, 300, 5), (7, 300, 5), (64, 220, 4), (8192, 50, 2)]
    for B, count, maxblocks in plan_b:
        for _ in range(max(1, (count * (6 if thorough else 1)) // nshards)):
            nl = rng.choice([1, 1, 2, 3, 4, B, B + 1, 2 * B + 1] if B <= 7 else [1, 2, 6, 16, 65] if B == 64 else [1, 2, 6, 300])
            needle = bytes([rng.choice(ALPHA)]) * nl if rng.random() < 0.4 else bytes(rng.choice(ALPHA) for _ in range(nl))
            s0 = rng.choice([0, 0, 0, 1, 2, B - 1, B, B + 1, nl, rng.randrange(0, 2 * B + 2)])
            nb = rng.randrange(1, maxblocks + 1)
            total = s0 + rng.randrange(max(0, (nb - 1) * B), nb * B + 2)
            if rng.random() < 0.5:
                buf = bytearray(rng.choice(list(needle) + ALPHA) for _ in range(total))
            else:
                buf = bytearray(bytes([needle[0]]) * total)
            planted = []
            for _ in range(rng.randrange(1, 6)):
                p = s0 + rng.randrange(0, nb + 1) * B - rng.randrange(0, nl + 2)
                if p < s0:
                    p = s0 + rng.randrange(0, 3)
                if len(buf) < p + nl:
                    buf += bytes(rng.choice(ALPHA) for _ in range(p + nl - len(buf)))
                buf[p:p + nl] = needle
                planted.append(p)
            hay = bytes(buf)
            cands = set()
            for j in range(nb + 2):
                cands |= {s0 + j * B - 1, s0 + j * B, s0 + j * B + 1}
            for o in planted:
                j = (o + nl - 1 - s0) // B
                idx = o - (s0 + max(j * B - (nl - 1), 0))
                cands |= {idx - 1, idx, idx + 1, o - 1, o, o + 1, o + nl - 1, o + nl}
            cands |= {B + nl - 3, B + nl - 2, B + nl - 1}
            maxoff = rng.choice(sorted(c for c in cands if c > 0))
            if rng.random() < 0.25:
                start, initpos = None, s0
            else:
                start, initpos = s0, rng.choice([0, 0, 3])
            yield needle_line("f" if rng.random() < 0.25 else "b", B, hay, needle, start, maxoff, initpos)

    # ---- (6) ArtifactKit: exhaustive tiny files over the bytes that make headers at offsets 0/1
    amax = 8 if thorough else 6
    for n in range(0, amax + 1):
        for t in itertools.product([0x00, 0x10, 0x11], repeat=n):
            if not mine():
                continue
            hay = bytes(t)
            yield art_line("b", hay, 0, None)
            if n >= 4:
                yield art_line(kind_of(k), hay, rng.choice([None, 0, 1, 2]), rng.choice([None, 0, 1, 2, n - 4, n]), rng.choice([0, 0, 1, 2]))
    # ---- (6b) ArtifactKit: large payloads (chunk-wise decoders): sizes around 64 KiB / 128 KiB, keys that do not divide the chunk
    for size in ([65535, 65536, 65537, 70001, 131072 + 3] if thorough else [65537, 70001]):
        if not mine():
            continue
        key = bytes(rng.randrange(1, 256) for _ in range(4))
        pos = rng.choice([0, 1, 5])
        payload = rng.randbytes(size)
        hay = rng.randbytes(pos) + art_header(pos, size, key, rng.randbytes(8)) + payload + rng.randbytes(rng.choice([0, 3]))
        if struct.unpack("<I", hay[0:4])[0] == 16 and pos:
            hay = b"\x00" + hay[1:]
        yield art_line(rng.choice(["b", "f"]), hay, 0, pos + 4, 0)
    # ---- (7) ArtifactKit: planted headers
    for _ in range((48000 if thorough else 8000) // nshards):
        hay, positions = gen_art_file(rng)
        kind = "f" if rng.random() < 0.3 else "b"
        if kind == "f" and any(len(hay) >= q + 8 and int.from_bytes(hay[q + 4:q + 8], "little") > 10 ** 6 for q in range(len(hay))):
            kind = "b"  # a buffered file pre-allocates read(size); keep 2-4 GiB sizes on BytesIO only
        r = rng.random()
        if r < 0.35 or not positions:
            yield art_line(kind, hay, 0, None)
            continue
        p = rng.choice(positions)
        if r < 0.6:
            maxrange = max(0, p + rng.choice([-1, 0, 1, 4, 20]))
            yield art_line(kind, hay, rng.choice([0, 0, None]), maxrange, 0)
        elif r < 0.85:
            start = rng.choice([None, max(0, p - 1), p, p + 1, len(hay), len(hay) + 2])
            initpos = rng.choice([0, p, max(0, p - 1), p + 1]) if start is None else rng.choice([0, 7])
            yield art_line(kind, hay, start, rng.choice([None, None, p, p + 30]), initpos)
        else:
            yield art_line(kind, hay, -rng.randrange(1, 5), rng.choice([None, 3]), rng.choice([0, 2]))

"""C05 — packet encryption round-trips and is authenticated before decryption; packet framing.

Real library (dissect.cobaltstrike.c2) in-process vs the compiled Lean model `drv_c05`.

AES-CBC and HMAC-SHA256 are parameters of the model.  Every line that needs them carries an oracle
table `kind key iv data result` (kind H/E/D, result `!` = pycryptodome raises ValueError) computed
HERE with pycryptodome / hmac called directly (never through the library).  The Lean driver only
looks results up; a call with arguments that are not in the table gives `oracle-miss`.
While the real function runs, `c2.AES` and `c2.hmac` are replaced by recording proxies, so the
answer also contains the ordered list of primitive calls (`calls H:… D:…`), which is compared with
the call log of the model ("verify before decrypt", "AES is not invoked on rejection").
"""
from __future__ import annotations

import hashlib
import hmac as _hmac
import itertools

from Crypto.Cipher import AES as _AES

from dissect.cobaltstrike import c2, utils

from . import common as C

ID = "C05"
DRIVER = "drv_c05"
STREAMS = {
    "pad": {"relevant": True, "desc": "c2.pad(data)"},
    "padto": {"relevant": False, "desc": "c2.pad(data, block_size) for other block sizes"},
    "encd": {"relevant": True, "desc": "c2.encrypt_data(data, aes_key, iv) + primitive call log"},
    "decd": {"relevant": True, "desc": "c2.decrypt_data(data, aes_key, iv) + primitive call log"},
    "rfs": {"relevant": True, "desc": "EncryptedPacket.raise_for_signature(hmac_key)"},
    "enc": {"relevant": True, "desc": "c2.encrypt_packet(pt, aes_key, hmac_key, iv) + call log"},
    "dec": {"relevant": True, "desc": "c2.decrypt_packet(packet, aes_key, hmac_key, iv, verify) + call log; faults"},
    "rt": {"relevant": True, "desc": "decrypt_packet(encrypt_packet(pt)) + call log"},
    "p32be": {"relevant": False, "desc": "utils.p32be(n): frame size field incl. OverflowError at 2^32"},
    "dumps": {"relevant": True, "desc": "EncryptedPacket(ct, sig).dumps()"},
    "cfr": {"relevant": True, "desc": "ClientC2Data(b''.join(p.dumps())).iter_encrypted_packets()"},
    "sfr": {"relevant": True, "desc": "ServerC2Data(ct + sig).iter_encrypted_packets()"},
    "cframes": {"relevant": False, "desc": "ClientC2Data(raw bytes / None).iter_encrypted_packets(), malformed frames"},
    "sframes": {"relevant": False, "desc": "ServerC2Data(raw bytes / None).iter_encrypted_packets()"},
    # the definitions translated from the source text by tools/py2lean.py (Gen/PyC2.lean) on the same cases; they follow the source by
    # construction, so a difference is a defect of the translator / Model/PyRt.lean, not of the library
    "g-pad": {"relevant": False, "desc": "translated c2.pad vs the function"},
    "g-padto": {"relevant": False, "desc": "translated c2.pad(data, block_size) incl. block sizes <= 0"},
    "g-encd": {"relevant": False, "desc": "translated encrypt_data vs the function"},
    "g-decd": {"relevant": False, "desc": "translated decrypt_data vs the function"},
    "g-rfs": {"relevant": False, "desc": "translated EncryptedPacket.raise_for_signature vs the method"},
    "g-enc": {"relevant": False, "desc": "translated encrypt_packet vs the function"},
    "g-dec": {"relevant": False, "desc": "translated decrypt_packet vs the function"},
    "g-dumps": {"relevant": False, "desc": "translated EncryptedPacket.dumps vs the method"},
    "g-derive": {"relevant": False, "desc": "translated derive_aes_hmac_keys vs the function (SHA-256 computed by hashlib)"},
}
GEN = ["py_utils", "py_c2"]
EXTRA_PROP_FILES = ["Props/C05Gen.lean"]
TRUSTED = [
    "tools/harness/c05.py generators, adapters, oracle tables (pycryptodome AES-CBC and hmac/hashlib called directly) and the "
    "recording proxies put in place of c2.AES / c2.hmac; line protocol parsing and table look-up in lean/CsVerif/Driver/C05.lean",
    "AES-CBC and HMAC-SHA256 are parameters of the model (structure Crypto); theorems assume only CryptoLaws "
    "(decryption inverts encryption on admissible arguments, lengths, ValueError outside them, |HMAC| = 32), satisfiable by toyCrypto",
    "io.BytesIO.read (negative argument reads all), cstruct uint32 (EOFError on short data), int.to_bytes are modelled "
    "(Model/PyFile.lean, Model/C20.lean), not verified",
]
ASSUMPTIONS = [
    "keys, IVs, data are bytes objects or None; iv=None (pycryptodome would draw a random IV) is outside the model",
    "rejection of a modified ciphertext / different HMAC key is proved under the explicit hypothesis that the truncated HMACs differ "
    "(false e.g. for hmac_key + b'\\x00': HMAC zero-pads keys); the harness checks the decision against hmac computed directly",
    "dumps() with |ct|+|sig| >= 2^32 (OverflowError) is exercised through p32be only (no 4 GiB buffers)",
]
RULE = ("every plaintext length 0..48 + large; every single-bit flip and every truncation of ciphertext and signature of N valid packets "
        "(N=20 quick / 300 thorough), HMAC key bit flips / missing / empty / extended keys, verify on/off; framed streams of 1-6 packets, "
        "size-field x body-length grid, all prefixes of valid streams; distinct = hash of input line; non-trivial = not the empty input "
        "and (for dec/rt/enc) any line: each exercises the verify/pad/MAC branch")

BIG = 2 ** 32


# ----------------------------------------------------------------------------------------------
# independent primitives / reference computations (never call the library)
# ----------------------------------------------------------------------------------------------

def aes_enc(key, iv, data):
    try:
        return _AES.new(key, _AES.MODE_CBC, iv=iv).encrypt(data)
    except ValueError:
        return None


def aes_dec(key, iv, data):
    try:
        return _AES.new(key, _AES.MODE_CBC, iv=iv).decrypt(data)
    except ValueError:
        return None


def mac(key, msg):
    return _hmac.new(key, msg, hashlib.sha256).digest()


def own_pad(d: bytes, bs: int = 16) -> bytes:
    k = bs - (len(d) % bs)
    return d + bytes([0x41]) * k


def opt(b):
    return "none" if b is None else C.hx(b)


def unopt(t):
    return None if t == "none" else C.unhx(t)


def ent(kind, key, iv, data, res):
    return f"{kind} {C.hx(key)} {C.hx(iv)} {C.hx(data)} {'!' if res is None else C.hx(res)}"


# ---- line builders (main tokens + oracle table) ------------------------------------------------

def line_encd(d, ak, iv):
    t = []
    if ak is not None:
        t.append(ent("E", ak, iv, own_pad(d), aes_enc(ak, iv, own_pad(d))))
    return " ".join([f"encd {C.hx(d)} {opt(ak)} {C.hx(iv)}"] + t)


def line_decd(d, ak, iv):
    t = []
    if ak is not None:
        t.append(ent("D", ak, iv, d, aes_dec(ak, iv, d)))
    return " ".join([f"decd {C.hx(d)} {opt(ak)} {C.hx(iv)}"] + t)


def line_rfs(ct, sig, hk):
    return f"rfs {C.hx(ct)} {C.hx(sig)} {C.hx(hk)} " + ent("H", hk, b"", ct, mac(hk, ct))


def line_enc(pt, ak, hk, iv):
    t = []
    if ak is not None:
        ct = aes_enc(ak, iv, own_pad(pt))
        t.append(ent("E", ak, iv, own_pad(pt), ct))
        if ct is not None and hk is not None:
            t.append(ent("H", hk, b"", ct, mac(hk, ct)))
    return " ".join([f"enc {C.hx(pt)} {opt(ak)} {opt(hk)} {C.hx(iv)}"] + t)


def line_dec(ct, sig, ak, hk, iv, verify):
    t = []
    if hk is not None:
        t.append(ent("H", hk, b"", ct, mac(hk, ct)))
    if ak is not None:
        t.append(ent("D", ak, iv, ct, aes_dec(ak, iv, ct)))
    return " ".join([f"dec {C.hx(ct)} {C.hx(sig)} {opt(ak)} {opt(hk)} {C.hx(iv)} {C.tf(verify)}"] + t)


def line_rt(pt, ak, hk, iv, verify):
    t = []
    if ak is not None:
        ct = aes_enc(ak, iv, own_pad(pt))
        t.append(ent("E", ak, iv, own_pad(pt), ct))
        if ct is not None:
            if hk is not None:
                t.append(ent("H", hk, b"", ct, mac(hk, ct)))
            t.append(ent("D", ak, iv, ct, aes_dec(ak, iv, ct)))
    return " ".join([f"rt {C.hx(pt)} {opt(ak)} {opt(hk)} {C.hx(iv)} {C.tf(verify)}"] + t)


NMAIN = {"encd": 4, "decd": 4, "rfs": 4, "enc": 5, "dec": 7, "rt": 6}


def rebuild(stream, w):
    """Re-derive the oracle table of a (shrunk) line from its main tokens."""
    if stream == "encd":
        return line_encd(C.unhx(w[1]), unopt(w[2]), C.unhx(w[3]))
    if stream == "decd":
        return line_decd(C.unhx(w[1]), unopt(w[2]), C.unhx(w[3]))
    if stream == "rfs":
        return line_rfs(C.unhx(w[1]), C.unhx(w[2]), C.unhx(w[3]))
    if stream == "enc":
        return line_enc(C.unhx(w[1]), unopt(w[2]), unopt(w[3]), C.unhx(w[4]))
    if stream == "dec":
        return line_dec(C.unhx(w[1]), C.unhx(w[2]), unopt(w[3]), unopt(w[4]), C.unhx(w[5]), w[6] == "T")
    if stream == "rt":
        return line_rt(C.unhx(w[1]), unopt(w[2]), unopt(w[3]), C.unhx(w[4]), w[5] == "T")
    return " ".join(w)


# ----------------------------------------------------------------------------------------------
# generators
# ----------------------------------------------------------------------------------------------

def flip(b: bytes, bit: int) -> bytes:
    a = bytearray(b)
    a[bit // 8] ^= 1 << (bit % 8)
    return bytes(a)


def frame(ct: bytes, sig: bytes) -> bytes:
    return (len(ct) + len(sig)).to_bytes(4, "big") + ct + sig


G_STREAMS = {"pad", "padto", "encd", "decd", "rfs", "enc", "dec", "dumps"}


def gen(tier, rng, shard, nshards):
    """every case of the translatable streams is also run through the translated definition (`g-` streams)"""
    import hashlib
    for stream, line in gen0(tier, rng, shard, nshards):
        yield stream, line
        if stream in G_STREAMS and len(line) < 30000:
            if stream == "enc" and line.split()[3] == "none":
                continue        # hmac_key=None: TypeError inside hmac.new, outside the typed translation
            yield "g-" + stream, "g" + line
    thorough = tier == "thorough"
    for _ in range((600 if thorough else 120) // nshards):
        bs = rng.choice([0, -1, -16, 1, 2, 16, 17, 300])
        yield "g-padto", f"gpadto {bs} {C.hx(C.rbytes(rng, rng.choice([0, 1, 15, 16, 17, 40])))}"
        r = C.rbytes(rng, rng.choice([0, 1, 16, 16, 16, 32, 100]))
        yield "g-derive", f"gderive {C.hx(r)} {C.hx(hashlib.sha256(r).digest())}"


def gen0(tier, rng, shard, nshards):
    thorough = tier == "thorough"
    k = 0

    def mine():
        nonlocal k
        k += 1
        return (k % nshards) == shard

    PATTERNED = [b"0123456789abcdef", b"A" * 16, b"DEADBEEFCAFEBABE", b"0" * 16, bytes(16), b"\xff" * 16, b"deadbeef" * 2,
                 b" " * 16, b"0123456789ABCDEF", b"\n" * 16, b"a" * 15 + b"\x00"]

    def key16():
        # mostly random keys; now and then a key that "looks like" text / hex / padding (helpers that normalise keys)
        if rng.random() < 0.12:
            return rng.choice(PATTERNED)
        return C.rbytes(rng, 16)

    # ---- pad: every length 0..100, larger ones, other block sizes
    for n in list(range(0, 101)) + [127, 128, 129, 255, 256, 257, 1023, 1024, 4095, 4096, 65535, 65536, 65537]:
        if mine():
            yield "pad", f"pad {C.hx(C.rbytes(rng, n) if n < 5000 else bytes([rng.getrandbits(8)]) * n)}"
    for n in range(0, 34):  # data made of 'A's must not confuse anything
        if mine():
            yield "pad", f"pad {C.hx(b'A' * n)}"
    for bs in list(range(1, 34)) + [64, 255, 256]:
        for n in range(0, 41 if thorough else 35):
            if mine():
                yield "padto", f"padto {bs} {C.hx(C.rbytes(rng, n))}"

    # ---- encrypt_data / decrypt_data directly
    for n in range(0, 50):
        for r in range(3 if thorough else 1):
            if not mine():
                continue
            ak, iv = key16(), key16()
            yield "encd", line_encd(C.rbytes(rng, n), ak, iv)
            yield "decd", line_decd(C.rbytes(rng, n), ak, iv)  # mostly unaligned -> ValueError from AES
            yield "decd", line_decd(C.rbytes(rng, 16 * (n % 5)), ak, iv)
    for klen in (0, 1, 15, 16, 17, 23, 24, 25, 31, 32, 33, 48, 64):
        for ivlen in (0, 1, 8, 15, 16, 17, 32):
            if not mine():
                continue
            ak, iv = C.rbytes(rng, klen), C.rbytes(rng, ivlen)
            d = C.rbytes(rng, rng.choice([0, 5, 16, 31, 32]))
            yield "encd", line_encd(d, ak, iv)
            yield "decd", line_decd(C.rbytes(rng, rng.choice([0, 16, 32, 17])), ak, iv)
    for iv in (b"", key16()):
        if mine():
            yield "encd", line_encd(b"abc", None, iv)
            yield "decd", line_decd(bytes(16), None, iv)

    # ---- raise_for_signature directly (hmac_key b"" is a legal HMAC key here)
    for _ in range((6000 if thorough else 1200) // nshards):
        ct = C.rbytes(rng, rng.choice([0, 1, 16, 32, 33, 48]))
        hk = C.rbytes(rng, rng.choice([0, 1, 16, 16, 16, 32, 64, 65, 100]))
        good = mac(hk, ct)[:16]
        r = rng.random()
        if r < 0.35:
            sig = good
        elif r < 0.6:
            sig = flip(good, rng.randrange(128))
        elif r < 0.7:
            sig = good[: rng.randrange(16)]
        elif r < 0.8:
            sig = mac(hk, ct)[: rng.choice([17, 20, 32])]
        elif r < 0.9:
            sig = mac(hk, ct)[16:]
        else:
            sig = C.rbytes(rng, rng.choice([0, 3, 16]))
        yield "rfs", line_rfs(ct, sig, hk)

    # ---- encrypt_packet: every plaintext length 0..48 (each residue mod 16 four times over), large, odd keys
    reps = 8 if thorough else 2
    for n in range(0, 49):
        for r in range(reps):
            if not mine():
                continue
            pt = C.rbytes(rng, n) if r else b"A" * n
            ak, hk, iv = key16(), key16(), key16()
            yield "enc", line_enc(pt, ak, hk, iv)
            yield "rt", line_rt(pt, ak, hk, iv, True)
            yield "rt", line_rt(pt, ak, hk, iv, False)
    for n in [63, 64, 65, 255, 256, 1000, 4095, 4096, 4097, 65535, 65536] + ([100000, 262144] if thorough else [100000]):
        if not mine():
            continue
        pt = C.rbytes(rng, n) if n < 5000 else (C.rbytes(rng, 251) * (n // 251 + 1))[:n]
        ak, hk, iv = key16(), key16(), key16()
        yield "enc", line_enc(pt, ak, hk, iv)
        yield "rt", line_rt(pt, ak, hk, iv, True)
    default_iv = b"abcdefghijklmnop"
    for klen in (0, 1, 15, 16, 17, 24, 31, 32, 33):
        for ivlen in (0, 15, 16, 17, 32):
            for hk in (None, b"", b"k", None if klen % 2 else key16(), C.rbytes(rng, 64), C.rbytes(rng, 65)):
                if not mine():
                    continue
                pt = C.rbytes(rng, rng.choice([0, 1, 15, 16, 17, 40]))
                ak = C.rbytes(rng, klen)
                iv = C.rbytes(rng, ivlen) if ivlen != 16 or rng.random() < 0.5 else default_iv
                yield "enc", line_enc(pt, ak, hk, iv)
                yield "rt", line_rt(pt, ak, hk, iv, rng.random() < 0.7)
    for hk in (None, b"", key16()):
        for iv in (default_iv, b"short"):
            if mine():
                yield "enc", line_enc(b"no aes key", None, hk, iv)
                yield "rt", line_rt(b"no aes key", None, hk, iv, True)

    # ---- decrypt_packet under faults: N valid packets, every single-bit flip and every truncation
    npk = 300 if thorough else 20
    fixed_lens = [0, 1, 15, 16, 17, 31, 32, 33, 47, 48]
    for j in range(npk):
        if j % nshards != shard:
            continue
        n = fixed_lens[j] if j < len(fixed_lens) else rng.randrange(0, 49)
        pt = C.rbytes(rng, n)
        ak, hk, iv = key16(), key16(), key16()
        other = [key16() for _ in range(4)]
        if j % 7 == 3:
            ak = C.rbytes(rng, 32)
        if j % 7 == 5:
            ak = C.rbytes(rng, 24)
        ct = aes_enc(ak, iv, own_pad(pt))
        sig = mac(hk, ct)[:16]
        yield "dec", line_dec(ct, sig, ak, hk, iv, True)
        yield "dec", line_dec(ct, sig, ak, hk, iv, False)
        for bit in range(8 * len(ct)):
            yield "dec", line_dec(flip(ct, bit), sig, ak, hk, iv, True)
            if bit % 16 == j % 16:
                yield "dec", line_dec(flip(ct, bit), sig, ak, hk, iv, False)
        for cut in range(len(ct)):
            yield "dec", line_dec(ct[:cut], sig, ak, hk, iv, True)
            yield "dec", line_dec(ct[:cut], sig, ak, hk, iv, False)
        for extra in (b"\x00", b"A", other[0]):
            yield "dec", line_dec(ct + extra, sig, ak, hk, iv, True)
            yield "dec", line_dec(ct + extra, sig, ak, hk, iv, False)
        yield "dec", line_dec(ct[16:], sig, ak, hk, iv, True)
        for bit in range(128):
            yield "dec", line_dec(ct, flip(sig, bit), ak, hk, iv, True)
        for cut in range(16):
            yield "dec", line_dec(ct, sig[:cut], ak, hk, iv, True)
        for s2 in (sig + b"\x00", sig + sig, mac(hk, ct), mac(hk, ct)[16:], sig[1:], b"\x00" + sig[1:], other[1]):
            yield "dec", line_dec(ct, s2, ak, hk, iv, True)
            yield "dec", line_dec(ct, s2, ak, hk, iv, False)
        # HMAC key faults
        for bit in range(128):
            yield "dec", line_dec(ct, sig, ak, flip(hk, bit), iv, True)
        for hk2 in (None, b"", hk[:15], hk[1:], hk + b"\x00", hk + b"\x00\x00", hk + b"\x01", other[2], ak, bytes(16), b"\x00"):
            yield "dec", line_dec(ct, sig, ak, hk2, iv, True)
            yield "dec", line_dec(ct, sig, ak, hk2, iv, False)
            yield "dec", line_dec(flip(ct, 0), sig, ak, hk2, iv, True)
        # AES key / IV faults (accepted by the MAC, garbage or ValueError from AES afterwards)
        for ak2 in (None, ak[:15], ak + b"\x00", other[3], b""):
            yield "dec", line_dec(ct, sig, ak2, hk, iv, True)
            yield "dec", line_dec(ct, sig, ak2, hk, iv, False)
            yield "dec", line_dec(ct, flip(sig, 5), ak2, hk, iv, True)  # still rejected by the MAC first
        for iv2 in (iv[:15], iv + b"\x00", b"", flip(iv, 3), default_iv):
            yield "dec", line_dec(ct, sig, ak, hk, iv2, True)
            yield "dec", line_dec(ct, flip(sig, 127), ak, hk, iv2, True)
        # a packet signed under the empty key verifies with raise_for_signature but not with decrypt_packet
        yield "dec", line_dec(ct, mac(b"", ct)[:16], ak, b"", iv, True)
        yield "dec", line_dec(ct, mac(b"", ct)[:16], ak, None, iv, True)

    # ---- frame size field
    for n in [0, 1, 15, 16, 17, 255, 256, 65535, 65536, 2 ** 24 - 1, 2 ** 24, 2 ** 31, BIG - 17, BIG - 1, BIG, BIG + 1, BIG + 16, 2 ** 40, 2 ** 64]:
        if mine():
            yield "p32be", f"p32be {n}"
    for ctl in (0, 1, 15, 16, 17, 255, 256, 65519, 65520, 65521):
        for sl in (0, 1, 15, 16, 17, 32):
            if mine():
                yield "dumps", f"dumps {C.hx(C.rbytes(rng, ctl) if ctl < 300 else bytes([7]) * ctl)} {C.hx(C.rbytes(rng, sl))}"

    # ---- client framing: streams of 1..6 well-formed packets (ct any length, sig 16 bytes)
    lens = [0, 1, 2, 15, 16, 17, 32, 48, 64, 100, 239, 240, 241, 255, 256]
    for cnt in range(1, 7):
        for _ in range(((9000 if thorough else 1200) // 6) // nshards + 1):
            pk = []
            for _i in range(cnt):
                n = rng.choice(lens) if rng.random() < 0.9 else rng.randrange(0, 400)
                ct = C.rbytes(rng, n)
                if rng.random() < 0.15 and n >= 4:  # ciphertext that itself looks like frames
                    ct = (frame(C.rbytes(rng, 1), bytes(16)) * (n // 21 + 1))[:n]
                pk += [C.hx(ct), C.hx(C.rbytes(rng, 16) if rng.random() < 0.8 else bytes([0, 0, 0, rng.choice([0, 5, 16, 20])] * 4))]
            yield "cfr", "cfr " + " ".join(pk)
    for n in ([65519, 65520, 65521, 70000] + ([300000] if thorough else [])):
        if mine():
            yield "cfr", f"cfr {C.hx(bytes([rng.getrandbits(8)]) * n)} {C.hx(key16())} {C.hx(b'tail')} {C.hx(key16())}"
    # long callback streams (one generator frame per packet must not be needed): 1100 and, in the thorough tier, 5000 packets
    for cnt in ([1100, 5000] if thorough else [1100]):
        if mine():
            pk = []
            for _i in range(cnt):
                pk += [C.hx(C.rbytes(rng, rng.choice([0, 16, 16, 32]))), C.hx(C.rbytes(rng, 16))]
            yield "cfr", "cfr " + " ".join(pk)
    # signature lengths other than 16 (correspondence of the mis-framing, oracle not applicable)
    for _ in range((600 if thorough else 80) // nshards):
        pk = []
        for _i in range(rng.randrange(1, 4)):
            pk += [C.hx(C.rbytes(rng, rng.choice([0, 1, 16, 20, 40]))), C.hx(C.rbytes(rng, rng.choice([0, 1, 15, 17, 20, 16])))]
        yield "cfr", "cfr " + " ".join(pk)

    # ---- server framing
    for ctl in range(0, 41):
        for sl in (16, 16, 0, 1, 15, 17, 32):
            if mine():
                yield "sfr", f"sfr {C.hx(C.rbytes(rng, ctl))} {C.hx(C.rbytes(rng, sl))}"
    for n in list(range(0, 41)) + [100, 1000, 65536]:
        if mine():
            yield "sframes", f"sframes {C.hx(C.rbytes(rng, n))}"
    # server-side data that LOOKS size-framed (first dword = big/little-endian length of the rest, of everything, of the ciphertext, a
    # client frame around the whole) or ends in line-break / blank bytes: it is one packet all the same - the last 16 bytes the signature
    for n in (5, 8, 20, 21, 36, 52, 68, 100):
        for delta in (4, 0, 16, 20, 8):
            for order in ("big", "little"):
                if mine() and n - delta >= 0:
                    yield "sframes", f"sframes {C.hx((n - delta).to_bytes(4, order) + C.rbytes(rng, n - 4))}"
        for tail in (b"\r\n", b"\n", b"\r", b" ", b"\x00", b"\n\n", b"=="):
            if mine():
                yield "sframes", f"sframes {C.hx(C.rbytes(rng, n - len(tail)) + tail)}"
            if mine():
                yield "sframes", f"sframes {C.hx(tail + C.rbytes(rng, n - len(tail)))}"
    if mine():
        yield "sframes", "sframes none"
    if mine():
        yield "cframes", "cframes none"

    # ---- malformed client frames
    # (a) size field x body length grid; bodies made of header-like bytes so that later iterations are reached
    alpha = [0, 0, 0, 0, 1, 5, 15, 16, 17, 18, 20, 36, 255]
    for size in list(range(0, 41)) + [255, 256, 65536, BIG - 1, 2 ** 31]:
        for blen in range(0, 45):
            if not mine():
                continue
            body = bytes(rng.choice(alpha) for _ in range(blen))
            yield "cframes", f"cframes {C.hx(size.to_bytes(4, 'big') + body)}"
    # (b) every prefix of a valid stream, trailing bytes, corrupted size fields
    for rep in range(12 if thorough else 3):
        pk = [(C.rbytes(rng, rng.choice([0, 1, 16, 17, 33])), key16()) for _ in range(3)]
        data = b"".join(frame(ct, sig) for ct, sig in pk)
        if rep % nshards != shard:
            continue
        for cut in range(len(data) + 1):
            yield "cframes", f"cframes {C.hx(data[:cut])}"
        for extra in range(1, 7):
            yield "cframes", f"cframes {C.hx(data + bytes([1]) * extra)}"
            yield "cframes", f"cframes {C.hx(data + bytes(extra))}"
        first = len(pk[0][0]) + 16
        for s in list(range(0, 21)) + [first - 1, first + 1, first + 4, first + 20, len(data), len(data) - 4, len(data) + 1, 0xFFFFFFFF, 0x01000000 + first]:
            yield "cframes", f"cframes {C.hx(max(0, s).to_bytes(4, 'big') + data[4:])}"
    # (c) exhaustive short strings over a small alphabet (size bytes 0/1/16/17/255)
    maxlen = 6 if thorough else 5
    for n in range(0, maxlen + 1):
        for t in itertools.product((0, 1, 16, 17, 255), repeat=n):
            if mine():
                yield "cframes", f"cframes {C.hx(bytes(t))}"
    for _ in range((4000 if thorough else 400) // nshards):
        n = rng.randrange(0, 80)
        yield "cframes", f"cframes {C.hx(bytes(rng.choice(alpha) for _ in range(n)))}"


# ----------------------------------------------------------------------------------------------
# implementation adapter
# ----------------------------------------------------------------------------------------------

def exc_name(e: BaseException) -> str:
    for cls, name in ((EOFError, "EOFError"), (IndexError, "IndexError"), (KeyError, "KeyError"), (OverflowError, "OverflowError"),
                      (ValueError, "ValueError"), (OSError, "OSError"), (AttributeError, "AttributeError"), (TypeError, "TypeError")):
        if isinstance(e, cls):
            return name
    return type(e).__name__


class _CipherProxy:
    def __init__(self, real, rec):
        self._real, self._rec = real, rec

    def encrypt(self, data, *a, **k):
        self._rec[0], self._rec[3] = "E", bytes(data)
        return self._real.encrypt(data, *a, **k)

    def decrypt(self, data, *a, **k):
        self._rec[0], self._rec[3] = "D", bytes(data)
        return self._real.decrypt(data, *a, **k)

    def __getattr__(self, n):
        return getattr(self._real, n)


class _AESProxy:
    def __init__(self, calls):
        self._calls = calls

    def __getattr__(self, n):
        return getattr(_AES, n)

    def new(self, key, mode, *a, **kw):
        iv = kw.get("iv", kw.get("IV", a[0] if a else None))
        rec = ["?" if mode == _AES.MODE_CBC else "M", key, iv, None]
        self._calls.append(rec)
        return _CipherProxy(_AES.new(key, mode, *a, **kw), rec)


class _HmacProxy:
    def __init__(self, calls):
        self._calls = calls

    def __getattr__(self, n):
        return getattr(_hmac, n)

    def new(self, key, msg=None, digestmod=""):
        h = _hmac.new(key, msg, digestmod)  # TypeError for key=None: no MAC is computed, nothing logged
        self._calls.append(["H" if h.name == "hmac-sha256" else "H(" + h.name + ")", key, None, msg])
        return h


def _tok(b):
    return "none" if b is None else C.hx(b)


def traced(f, show, default):
    """Run f() with c2.AES / c2.hmac replaced by recording proxies.  `default` = (kind, data) used for an
    AES object whose construction raised (pycryptodome validates key/IV in `new`, before the data is seen)."""
    calls = []
    saved = (c2.AES, c2.hmac)
    c2.AES, c2.hmac = _AESProxy(calls), _HmacProxy(calls)
    try:
        try:
            r = "ok " + show(f())
        except Exception as e:  # noqa: BLE001
            if type(e).__name__ == "Timeout":
                raise
            r = "exc " + exc_name(e)
    finally:
        c2.AES, c2.hmac = saved
    out = []
    for kind, key, iv, data in calls:
        if kind == "?":
            kind, data = default
        if kind.startswith("H"):
            out.append(f" {kind}:{_tok(key)}:{_tok(data)}")
        else:
            out.append(f" {kind}:{_tok(key)}:{_tok(iv)}:{_tok(data)}")
    return r + " calls" + "".join(out)


def show_packets(ps):
    return str(len(ps)) + "".join(f" {C.hx(p.ciphertext)} {C.hx(p.signature)}" for p in ps)


def run_gen(it):
    ps = []
    try:
        for p in it:
            ps.append(p)
    except Exception as e:  # noqa: BLE001
        if type(e).__name__ == "Timeout":
            raise
        return "exc " + exc_name(e) + " after " + show_packets(ps)
    return show_packets(ps) + " end"


# The documented defaults of the packet functions (Cobalt Strike's fixed IV, no HMAC key, verification ON).  They are part of what
# a caller relies on: in half of the cases an argument that EQUALS its documented default is left out of the call.
DOC_DEFAULTS = {"iv": b"abcdefghijklmnop", "hmac_key": None, "verify": True}


def _defaults(line, **named):
    import zlib
    if zlib.crc32(line.encode()) % 2:
        return named
    return {k: v for k, v in named.items() if not (k in DOC_DEFAULTS and v == DOC_DEFAULTS[k] and type(v) is type(DOC_DEFAULTS[k]))}


def impl(stream, line):
    w = line.split()
    if stream == "g-padto":
        return "ok " + C.hx(c2.pad(C.unhx(w[2]), int(w[1])))
    if stream == "g-derive":
        a, b = c2.derive_aes_hmac_keys(C.unhx(w[1]))
        return f"ok {C.hx(a)} {C.hx(b)}"
    if stream.startswith("g-"):
        base = impl(stream[2:], line[1:])
        if stream in ("g-pad",):
            return "ok " + base
        return base.partition(" calls")[0]
    if stream == "pad":
        return C.hx(c2.pad(C.unhx(w[1])))
    if stream == "padto":
        return C.hx(c2.pad(C.unhx(w[2]), int(w[1])))
    if stream == "encd":
        d, ak, iv = C.unhx(w[1]), unopt(w[2]), C.unhx(w[3])
        return traced(lambda: c2.encrypt_data(d, ak, iv), C.hx, ("E", own_pad(d)))
    if stream == "decd":
        d, ak, iv = C.unhx(w[1]), unopt(w[2]), C.unhx(w[3])
        return traced(lambda: c2.decrypt_data(d, ak, iv), C.hx, ("D", d))
    if stream == "rfs":
        p = c2.EncryptedPacket(C.unhx(w[1]), C.unhx(w[2]))
        hk = C.unhx(w[3])
        return traced(lambda: p.raise_for_signature(hk), lambda r: "None" if r is None else repr(r), ("?", None))
    if stream == "enc":
        pt, ak, hk, iv = C.unhx(w[1]), unopt(w[2]), unopt(w[3]), C.unhx(w[4])
        kw = _defaults(line, iv=iv)
        return traced(lambda: c2.encrypt_packet(pt, ak, hk, **kw), lambda p: f"{C.hx(p.ciphertext)} {C.hx(p.signature)}", ("E", own_pad(pt)))
    if stream == "dec":
        p = c2.EncryptedPacket(C.unhx(w[1]), C.unhx(w[2]))
        ak, hk, iv, verify = unopt(w[3]), unopt(w[4]), C.unhx(w[5]), w[6] == "T"
        kw = _defaults(line, hmac_key=hk, iv=iv, verify=verify)
        return traced(lambda: c2.decrypt_packet(p, ak, **kw), C.hx, ("D", p.ciphertext))
    if stream == "rt":
        pt, ak, hk, iv, verify = C.unhx(w[1]), unopt(w[2]), unopt(w[3]), C.unhx(w[4]), w[5] == "T"
        kw = _defaults(line, hmac_key=hk, iv=iv, verify=verify)
        return traced(lambda: c2.decrypt_packet(c2.encrypt_packet(pt, ak, hk, **_defaults(line, iv=iv)), ak, **kw), C.hx, ("E", own_pad(pt)))
    if stream == "p32be":
        return "ok " + C.hx(utils.p32be(int(w[1])))
    if stream == "dumps":
        return "ok " + C.hx(c2.EncryptedPacket(C.unhx(w[1]), C.unhx(w[2])).dumps())
    if stream == "cframes":
        return run_gen(c2.ClientC2Data(output=unopt(w[1])).iter_encrypted_packets())
    if stream == "sframes":
        return show_packets(list(c2.ServerC2Data(output=unopt(w[1])).iter_encrypted_packets()))
    if stream == "cfr":
        pk = [c2.EncryptedPacket(C.unhx(w[i]), C.unhx(w[i + 1])) for i in range(1, len(w), 2)]
        data = b"".join(p.dumps() for p in pk)
        return run_gen(c2.ClientC2Data(output=data).iter_encrypted_packets())
    if stream == "sfr":
        return show_packets(list(c2.ServerC2Data(output=C.unhx(w[1]) + C.unhx(w[2])).iter_encrypted_packets()))
    raise RuntimeError("unknown stream " + stream)


# ----------------------------------------------------------------------------------------------
# independent oracle (plain Python: own padding, own MAC decision, own framing)
# ----------------------------------------------------------------------------------------------

def split_out(out):
    """'ok x.. calls a b' -> (result part, [calls])"""
    head, _, calls = out.partition(" calls")
    return head, calls.split()


def aes_ok(key, iv, data):
    return key is not None and len(key) in (16, 24, 32) and len(iv) == 16 and len(data) % 16 == 0


def own_client_frames(data):
    """Index arithmetic only (no file object): packets, terminal exception or None."""
    pk = []
    while data is not None and len(data) > 0:
        if len(data) < 4:
            return pk, "EOFError"
        size = (data[0] << 24) | (data[1] << 16) | (data[2] << 8) | data[3]
        body = data[4:]
        if size < 16:  # negative read(): everything
            pk.append((body, b""))
            data = b""
            continue
        n = size - 16
        pk.append((body[:n], body[n:n + 16]))
        data = body[n + 16:]
    return pk, None


def fmt_packets(pk):
    return str(len(pk)) + "".join(f" {C.hx(a)} {C.hx(b)}" for a, b in pk)


def oracle(stream, line, out):
    w = line.split()
    if stream.startswith("g-"):
        return None
    if stream in ("pad", "padto"):
        d = C.unhx(w[-1])
        bs = int(w[1]) if stream == "padto" else 16
        if out.startswith("exc"):
            return False
        o = C.unhx(out)
        k = len(o) - len(d)
        return o[: len(d)] == d and 1 <= k <= bs and k == bs - len(d) % bs and len(o) % bs == 0 and set(o[len(d):]) <= {0x41}
    if stream == "encd":
        d, ak, iv = C.unhx(w[1]), unopt(w[2]), C.unhx(w[3])
        head, calls = split_out(out)
        if not aes_ok(ak, iv, b""):
            return head == "exc ValueError"
        ct = C.unhx(head[3:]) if head.startswith("ok ") else None
        return ct is not None and aes_dec(ak, iv, ct) == own_pad(d) and len(calls) == 1 and calls[0].startswith("E:")
    if stream == "decd":
        d, ak, iv = C.unhx(w[1]), unopt(w[2]), C.unhx(w[3])
        head, calls = split_out(out)
        if not aes_ok(ak, iv, d):
            return head == "exc ValueError"
        return head == "ok " + C.hx(aes_dec(ak, iv, d))
    if stream == "rfs":
        ct, sig, hk = C.unhx(w[1]), C.unhx(w[2]), C.unhx(w[3])
        head, calls = split_out(out)
        return head == ("ok None" if mac(hk, ct)[:16] == sig else "exc ValueError")
    if stream == "enc":
        pt, ak, hk, iv = C.unhx(w[1]), unopt(w[2]), unopt(w[3]), C.unhx(w[4])
        head, calls = split_out(out)
        if not aes_ok(ak, iv, b""):
            return head == "exc ValueError"
        if hk is None:
            return head == "exc TypeError"
        if not head.startswith("ok "):
            return False
        ct, sig = (C.unhx(t) for t in head[3:].split())
        plain = aes_dec(ak, iv, ct)
        k = len(plain) - len(pt) if plain is not None else -1
        return (plain is not None and plain[: len(pt)] == pt and 1 <= k <= 16 and plain[len(pt):] == b"A" * k and len(ct) % 16 == 0
                and sig == mac(hk, ct)[:16] and len(sig) == 16
                and [c[0] for c in calls] == ["E", "H"])
    if stream == "dec":
        ct, sig, ak, hk, iv, verify = C.unhx(w[1]), C.unhx(w[2]), unopt(w[3]), unopt(w[4]), C.unhx(w[5]), w[6] == "T"
        head, calls = split_out(out)
        kinds = [c[0] for c in calls]
        if verify:
            if hk is None or len(hk) == 0:
                return head == "exc ValueError" and kinds == []
            if mac(hk, ct)[:16] != sig:
                # rejected: ValueError, no plaintext, AES never touched
                return head == "exc ValueError" and kinds == ["H"]
            if ak is None:
                return head == "exc ValueError" and kinds == ["H"]
            if kinds != ["H", "D"]:
                return False
        else:
            if ak is None:
                return head == "exc ValueError" and kinds == []
            if kinds != ["D"]:
                return False
        if not aes_ok(ak, iv, ct):
            return head == "exc ValueError"
        return head == "ok " + C.hx(aes_dec(ak, iv, ct))
    if stream == "rt":
        pt, ak, hk, iv, verify = C.unhx(w[1]), unopt(w[2]), unopt(w[3]), C.unhx(w[4]), w[5] == "T"
        head, calls = split_out(out)
        if not aes_ok(ak, iv, b""):
            return head == "exc ValueError"
        if hk is None:
            return head == "exc TypeError"
        if verify and len(hk) == 0:
            return head == "exc ValueError"
        return head == "ok " + C.hx(own_pad(pt)) and [c[0] for c in calls] == (["E", "H", "H", "D"] if verify else ["E", "H", "D"])
    if stream == "p32be":
        n = int(w[1])
        return out == ("ok " + C.hx(bytes([(n >> 24) & 255, (n >> 16) & 255, (n >> 8) & 255, n & 255])) if n < BIG else "exc OverflowError")
    if stream == "dumps":
        ct, sig = C.unhx(w[1]), C.unhx(w[2])
        n = len(ct) + len(sig)
        return out == "ok " + C.hx(bytes([(n >> 24) & 255, (n >> 16) & 255, (n >> 8) & 255, n & 255]) + ct + sig)
    if stream == "cfr":
        pk = [(C.unhx(w[i]), C.unhx(w[i + 1])) for i in range(1, len(w), 2)]
        if all(len(s) == 16 for _, s in pk):
            return out == fmt_packets(pk) + " end"
        return None
    if stream == "sfr":
        ct, sig = C.unhx(w[1]), C.unhx(w[2])
        if len(sig) == 16:
            return out == fmt_packets([(ct, sig)])
        return None
    if stream == "cframes":
        pk, exc = own_client_frames(unopt(w[1]))
        return out == (fmt_packets(pk) + " end" if exc is None else "exc " + exc + " after " + fmt_packets(pk))
    if stream == "sframes":
        d = unopt(w[1])
        if not d:
            return out == "0"
        if len(d) >= 16:
            return out == fmt_packets([(d[:-16], d[-16:])])
        return out == fmt_packets([(d, b"")])
    return None


def nontrivial(stream, line, out):
    w = line.split()
    if stream in ("pad", "padto"):
        return w[-1] != "x"
    if stream in ("cframes", "sframes"):
        return not out.startswith("0 end") and out != "0" and not out.endswith("after 0")
    if stream in ("cfr", "sfr", "dumps"):
        return not out.startswith("exc ")
    return True  # enc/dec/rt/encd/decd/rfs/p32be: every line takes a pad / MAC / verify / range branch


def shrink(stream, line):
    w = line.split(" ")
    n = NMAIN.get(stream)
    if n is None:
        yield from C.shrink_tokens(line)
        return
    for cand in C.shrink_tokens(" ".join(w[:n])):
        try:
            yield rebuild(stream, cand.split(" "))
        except Exception:  # noqa: BLE001
            continue

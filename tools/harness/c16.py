"""C16 — raw HTTP parsing: generators, adapters to the real `parse_raw_http`, independent oracle.

Lines
  p  <data>                         parse_raw_http(data)           (model vs implementation)
  pw <data> <version> <expected…>   same call; the tokens after <data> are ignored by the Lean driver and
                                    carry the *structure the wire form was rendered from* (plain-Python renderer
                                    below), i.e. what the property says the parser must return
  us <url> / qsl <qs> / int <b> / uq <b>   the modelled CPython built-ins called directly (model validation)
  gp <data> / gpw <data> …          the same call answered by the definition TRANSLATED from the source of parse_raw_http
                                    (Gen/PyC2U.lean, tools/py2leanu.py): every p / pw case is also a g-* case
"""
from __future__ import annotations

import itertools
import re
import urllib.parse

from dissect.cobaltstrike import c2

from . import common as C
from . import pyuval

ID = "C16"
DRIVER = "drv_c16"
GEN = ["c16_unicode"]
GEN += ["py_utils", "py_c2u"]
EXTRA_PROP_FILES = ["Props/C16Gen.lean"]
G_STREAMS = ("msg", "malformed", "status", "uri", "netloc", "param-nonascii")
STREAMS = {
    "msg": {"relevant": True, "desc": "structured requests/responses rendered by the harness (expected parts attached), mutated variants"},
    "malformed": {"relevant": True, "desc": "start lines with 0-5 tokens, tabs, bare CR/LF, empty input, HTTP/ prefix with != 3 parts"},
    "status": {"relevant": False, "desc": "status tokens: digits, signs, underscores, Unicode digits/spaces, invalid UTF-8, 4300-digit limit"},
    "uri": {"relevant": False, "desc": "exhaustive request targets <= 4 chars over a 15 letter alphabet + structured targets (through parse_raw_http)"},
    "netloc": {"relevant": False, "desc": "targets '//[host]…': IPv6 / IPvFuture / bracket checks of urlsplit (through parse_raw_http)"},
    "param-nonascii": {"relevant": True, "desc": "well-formed requests with percent-encoded parameter bytes >= 0x80 (regression of the defect repaired by 5b05344): expected = the decoded bytes"},
    "us": {"relevant": False, "desc": "urllib.parse.urlsplit(bytes) 5-tuple vs model"},
    "qsl": {"relevant": False, "desc": "parse_qsl(str, encoding='latin-1') re-encoded as latin-1 (the call of the repaired code) vs model"},
    "int": {"relevant": False, "desc": "int(bytes.decode()) vs model (incl. surrounding whitespace, unreachable through split())"},
    "uq": {"relevant": False, "desc": "urllib.parse.unquote_to_bytes vs model"},
    "g-msg": {"relevant": False, "desc": "parse_raw_http TRANSLATED from its source (Gen/PyC2U.lean; urlsplit / parse_qsl = the sub-models) vs the function, on every case of msg"},
    "g-malformed": {"relevant": False, "desc": "translated parse_raw_http vs the function on every case of malformed"},
    "g-status": {"relevant": False, "desc": "translated parse_raw_http vs the function on every case of status"},
    "g-uri": {"relevant": False, "desc": "translated parse_raw_http vs the function on every case of uri"},
    "g-netloc": {"relevant": False, "desc": "translated parse_raw_http vs the function on every case of netloc"},
    "g-param-nonascii": {"relevant": False, "desc": "translated parse_raw_http vs the function on every case of param-nonascii"},
    "pyu": {"relevant": False, "desc": "the operations of the translator's run-time library added for c2.py (PyU.lean: split / upper / lower / startswith, "
            "codecs, int(), repr, item assignment, insert, [::-1], isinstance, _replace, attribute access, NamedTuple instances as tuples) "
            "vs CPython on random operands of all kinds"},
}
TRUSTED = [
    "tools/harness/c16.py generators, plain-Python renderer and oracle; line protocol parsing in lean/CsVerif/Driver/C16.lean",
    "tools/gen/c16_unicode.py (str.isspace / unicodedata.decimal tables of the running interpreter)",
    "CPython 3.12.1 built-ins are modelled (Model/C16.lean), not verified: bytes.partition/split/rstrip/upper, UTF-8 and ASCII-ignore "
    "decoding, int(str), urllib.parse.urlsplit on bytes, parse_qsl/unquote on str with encoding latin-1, ipaddress.ip_address validity, dict; each is exercised "
    "by a dedicated stream (status/int, uri/netloc/us, qsl/uq)",
    "tools/py2leanu.py + lean/CsVerif/Model/PyU.lean (untyped source-to-Lean translation of parse_raw_http; Props/C16Gen.lean proves the "
    "translated definition equal to the hand-written model with urlsplit / parse_qsl instantiated by the sub-models; the g-* streams run "
    "the translated definition against the real function on every parse_raw_http case, the pyu stream runs the PyU operations added for "
    "c2.py against CPython on random operands)",
]
ASSUMPTIONS = [
    "urllib.parse / ipaddress behave as in CPython 3.12.1 (the interpreter in /venv); later CPython versions add netloc checks",
    "sys.get_int_max_str_digits() == 4300 (the default): longer status literals raise ValueError",
    "the Unicode tables are those of the running interpreter (regenerated on every run)",
]
RULE = ("structured messages + exhaustive small-alphabet targets/queries/status literals + seeded random; distinct = hash of the input line; "
        "non-trivial = the real code returned a message (no exception) that has a non-empty params/headers/body part or a non-default "
        "urlsplit branch, or (malformed/status streams) raised from a non-empty start line")

WS = frozenset(b" \t\n\r\x0b\x0c")
WSB = b" \t\n\r\x0b\x0c"
UNRESERVED = frozenset(b"ABCDEFGHIJKLMNOPQRSTUVWXYZabcdefghijklmnopqrstuvwxyz0123456789_.~-")


# --------------------------------------------------------------------------------------------
# canonical output / independent renderer
# --------------------------------------------------------------------------------------------

def show_pairs(ps) -> str:
    return " ".join([str(len(ps))] + [C.hx(k) + " " + C.hx(v) for k, v in ps])


def show_req(method, uri, params, headers, body) -> str:
    return f"req {C.hx(method)} {C.hx(uri)} {show_pairs(params)} {show_pairs(headers)} {C.hx(body)}"


def show_resp(status: int, reason, headers, body) -> str:
    return f"resp {status} {C.hx(reason)} {show_pairs(headers)} {C.hx(body)}"


def show_msg(m) -> str:
    if isinstance(m, c2.HttpRequest):
        return "ok " + show_req(m.method, m.uri, list(m.params.items()), list(m.headers.items()), m.body)
    return "ok " + show_resp(m.status, m.reason, list(m.headers.items()), m.body)


def pct(b: bytes) -> bytes:
    """percent-encode everything outside [A-Za-z0-9_.~-] (written out, no urllib)"""
    return b"".join(bytes([x]) if x in UNRESERVED else b"%%%02X" % x for x in b)


def render_headers(headers) -> bytes:
    return b"".join(b"\r\n" + k + b": " + v for k, v in headers)


def render_req(version, method, path, params, headers, body) -> bytes:
    target = path
    if params:
        target += b"?" + b"&".join(pct(k) + b"=" + pct(v) for k, v in params)
    return method + b" " + target + b" " + version + render_headers(headers) + b"\r\n\r\n" + body


def render_resp(version, digits, reason, headers, body) -> bytes:
    return version + b" " + digits + b" " + reason + render_headers(headers) + b"\r\n\r\n" + body


def dict_pairs(ps):
    """dict semantics written out: later value wins, first position kept"""
    out = []
    for k, v in ps:
        for i, (k2, _) in enumerate(out):
            if k2 == k:
                out[i] = (k, v)
                break
        else:
            out.append((k, v))
    return out


# --------------------------------------------------------------------------------------------
# generators
# --------------------------------------------------------------------------------------------

def has_ws(b: bytes) -> bool:
    return any(x in WS for x in b)


PATH_PLAIN = b"abcxyzABZ0189/._~-"
PATH_PUNCT = b";:@[]%!$&'()*+,=|{}^`\"<>\\"
PATH_CTRL = bytes([0, 1, 8, 0x0E, 0x1B, 0x1C, 0x1F, 0x7F])


def gen_path(rng, rich=True) -> bytes:
    n = rng.choice([0, 0, 1, 1, 2, 3, 5, 8, 12])
    out = bytearray(b"/")
    for _ in range(n):
        r = rng.random()
        if not rich or r < 0.55:
            out.append(rng.choice(PATH_PLAIN))
        elif r < 0.9:
            out.append(rng.choice(PATH_PUNCT))
        else:
            out.append(rng.choice(PATH_CTRL))
    if len(out) > 1 and out[1] == 0x2F:
        out[1] = rng.choice(b"a;:%@.")
    return bytes(out)


PARAM_BYTES = b"abzAZ09_.~-%+&= /?#;:\x00\x01\x7f\"'"


def gen_param_bytes(rng, minlen, hi=False) -> bytes:
    n = rng.choice([minlen, 1, 1, 2, 3, 4, 8, 17]) if minlen else rng.choice([0, 1, 1, 2, 3, 4, 8])
    n = max(n, minlen)
    out = bytearray()
    for _ in range(n):
        r = rng.random()
        if r < 0.6:
            out.append(rng.choice(PARAM_BYTES))
        elif r < 0.85 or not hi:
            out.append(rng.randrange(0, 0x80))
        else:
            out.append(rng.randrange(0x80, 0x100))
    return bytes(out)


def gen_params(rng, hi=False):
    n = rng.choice([0, 0, 1, 1, 2, 3, 5])
    ps, seen = [], set()
    for _ in range(n):
        k = gen_param_bytes(rng, 0, hi and rng.random() < 0.5)
        if k in seen:
            continue
        seen.add(k)
        ps.append((k, gen_param_bytes(rng, 1, hi)))
    if hi and ps and not any(x >= 0x80 for k, v in ps for x in k + v):
        k, v = ps[-1]
        ps[-1] = (k, v + bytes([rng.randrange(0x80, 0x100)]))
    return ps


HDR_KEYS = [b"Host", b"Cookie", b"User-Agent", b"Accept", b"X", b"Content-Length", b"a:b", b"k ", b" k", b"", b":", b"\xff\x00", b"a\nb", b"Set-Cookie"]


def gen_hbytes(rng, allow_cr=False) -> bytes:
    n = rng.choice([0, 1, 2, 3, 6, 12, 30])
    alpha = b"abcXYZ019 :;=/,\t\n\x00\xff\x80-_." + (b"\r" if allow_cr else b"")
    return bytes(rng.choice(alpha) for _ in range(n))


def gen_headers(rng, distinct=True):
    n = rng.choice([0, 0, 1, 2, 3, 5])
    hs, seen = [], set()
    for _ in range(n):
        k = rng.choice(HDR_KEYS) if rng.random() < 0.7 else gen_hbytes(rng)
        k = k.replace(b": ", b":_")
        if distinct and k in seen:
            continue
        seen.add(k)
        hs.append((k, gen_hbytes(rng)))
    return hs


def gen_body(rng) -> bytes:
    r = rng.random()
    if r < 0.2:
        return b""
    if r < 0.45:
        parts = [C.rbytes(rng, rng.randrange(0, 6)) for _ in range(rng.randrange(1, 4))]
        return rng.choice([b"\r\n\r\n", b"\r\n", b"\x00", b"\r\n\r\n\r\n", b"\r", b"\n"]).join(parts) + rng.choice([b"", b"\r\n\r\n", b"\x00\x00"])
    if r < 0.9:
        return C.rbytes(rng, rng.randrange(1, 40))
    return C.rbytes(rng, rng.choice([255, 256, 1000, 4096]))


METHODS = [b"GET", b"POST", b"PUT", b"get", b"M-SEARCH", b"X", b"HTTP", b"HTTPS", b"http", b"HTT/", b"HTTP\\", b"G\xc9T", b"\x00", b"TTP/", b"aHTTP/"]
VERSIONS_REQ = [b"HTTP/1.1", b"HTTP/1.0", b"http/2", b"x", b"\xff"]
VERSIONS_RESP = [b"HTTP/1.1", b"HTTP/1.0", b"http/1.1", b"hTtP/2", b"HTTP/", b"Http/\xff"]
REASONS = [b"OK", b"Found", b"ok", b"\xff\xfe", b"0", b"Not-Found", b"\x00", b"HTTP/1.1"]


def pw_line(data: bytes, version: bytes, expected: str) -> str:
    return f"pw {C.hx(data)} {C.hx(version)} {expected}"


def gen_wellformed_req(rng, hi=False):
    version = rng.choice(VERSIONS_REQ)
    method = rng.choice(METHODS)
    path = gen_path(rng)
    params = gen_params(rng, hi)
    headers = gen_headers(rng)
    body = gen_body(rng)
    return version, method, path, params, headers, body


def req_case(version, method, path, params, headers, body) -> str:
    data = render_req(version, method, path, params, headers, body)
    return pw_line(data, version, show_req(method, path, params, headers, body))


def resp_case(version, digits, reason, headers, body) -> str:
    data = render_resp(version, digits, reason, headers, body)
    return pw_line(data, version, show_resp(int(digits), reason, headers, body))


def gen_digits(rng) -> bytes:
    r = rng.random()
    if r < 0.5:
        return str(rng.choice([200, 404, 302, 500, 100, 0, 999, 1000, 65536, 2 ** 31, 2 ** 64, 10 ** 30])).encode()
    if r < 0.8:
        return bytes(rng.choice(b"0123456789") for _ in range(rng.choice([1, 2, 3, 3, 4, 7, 25])))
    if r < 0.9:
        return b"0" * rng.randrange(1, 5) + str(rng.randrange(0, 1000)).encode()
    return bytes(rng.choice(b"0123456789") for _ in range(rng.choice([4299, 4300, 1000])))


def mutate(rng, data: bytes) -> bytes:
    """byte-level mutation of a rendered message (result is only compared model vs implementation + body/malformed oracles)"""
    if not data:
        return data
    r = rng.random()
    i = rng.randrange(0, len(data))
    ins = rng.choice([b"\r\n", b"\r\n\r\n", b" ", b"\t", b": ", b":", b"\r", b"\n", b"?", b"#", b"&", b"=", b"%", b"+", b"//", b"\x00", b"\xff", b"HTTP/", b"[", b"]"])
    if r < 0.4:
        return data[:i] + ins + data[i:]
    if r < 0.6:
        return data[:i] + data[i + 1:]
    if r < 0.8:
        j = min(len(data), i + rng.randrange(1, 6))
        return data[:i] + data[j:]
    return data[:i] + ins + data[i + len(ins):]


def gen_ipv6ish(rng) -> bytes:
    def hextet():
        return bytes(rng.choice(b"0123456789abcdefABCDEF") for _ in range(rng.choice([1, 1, 2, 3, 4, 4, 5, 0])))
    r = rng.random()
    n = rng.choice([8, 8, 7, 9, 6, 3, 2, 1, 10])
    parts = [hextet() for _ in range(n)]
    if r < 0.5 and n >= 2:
        i = rng.randrange(0, n)
        parts[i:i + rng.randrange(1, 4)] = [b""]
        if rng.random() < 0.3:
            parts.insert(0, b"")
        if rng.random() < 0.3:
            parts.append(b"")
    s = b":".join(parts)
    if rng.random() < 0.3:
        octs = [rng.choice([b"0", b"1", b"10", b"255", b"256", b"01", b"", b"1a", b"999", b"1000", b"192"]) for _ in range(rng.choice([4, 4, 4, 3, 5]))]
        s = (s.rsplit(b":", 1)[0] if b":" in s else s) + b":" + b".".join(octs)
    if rng.random() < 0.2:
        s += b"%" + rng.choice([b"eth0", b"", b"1", b"a%b", b"25"])
    if rng.random() < 0.1:
        s = rng.choice([b"v1.x", b"v.x", b"v1.", b"vF.a:b", b"v1x", b"V1.x", b"vg.1", b"v", b"v1..", b"1.2.3.4", b"::1.2.3.4", b"::", b":::", b"1::", b"::1", b"1:2:3:4:5:6:7::", b"::2:3:4:5:6:7:8", b"1:2:3:4:5:6:7:8", b"1::3:4:5:6:7:8", b"1:2:3:4::5:6:7:8"])
    return s


def gen(tier, rng, shard, nshards):
    """every case that calls parse_raw_http is also run through the definition translated from its source"""
    for stream, line in gen0(tier, rng, shard, nshards):
        yield stream, line
        if stream in G_STREAMS and line.split(" ", 1)[0] in ("p", "pw"):
            yield "g-" + stream, "g" + line
    for _ in range((150000 if tier == "thorough" else 15000) // nshards):
        line = pyuval.case(rng)
        if line is not None:
            yield "pyu", line


def gen0(tier, rng, shard, nshards):
    thorough = tier == "thorough"
    k = 0

    def mine():
        nonlocal k
        k += 1
        return (k % nshards) == shard

    def get(tok: bytes) -> bytes:
        return b"GET " + tok + b" HTTP/1.1\r\n\r\n"

    # ---- fixed seeds: the repository's own samples and the repaired defects
    if shard == 0:
        fixed = [
            b"GET /a;b?x=1 HTTP/1.1\r\n\r\n", b"GET / HTTP/1.1\r\n\r\n", b"HTTP/1.1 200 OK\r\n\r\n", b"", b"\r\n\r\n", b"\r\n",
            b"HTTP/1.1 404 Not Found\r\n\r\n", b"GET /a HTTP/1.1", b"GET /a HTTP/1.1\r\n", b"GET /a HTTP/1.1\r\nA: b", b"GET /a HTTP/1.1\r\nA: b\r\n",
            b"GET /a HTTP/1.1\r\nA: b\r\nA: c\r\nB\r\n\r\nbody\r\n\r\nmore\x00", b"GET /a?x=%ff HTTP/1.1\r\n\r\n", b"GET /a?%ff= HTTP/1.1\r\n\r\n",
            b"POST /submit.php?id=1234 HTTP/1.1\r\nAccept: */*\r\nContent-Type: application/octet-stream\r\nContent-Length: 4\r\n\r\n\x00\x00\x00\x00",
        ]
        for d in fixed:
            yield "msg", "p " + C.hx(d)

    # ---- structured well-formed messages with the expected parts attached
    n_msg = (40000 if thorough else 5000) // nshards
    # header maps far larger than any limit a parser might impose (http.client stops at 100 header lines), bodies of 64 KiB+
    for n_h in ([99, 100, 101, 150, 1000] if thorough else [100, 101, 257]):
        k += 1
        if k % nshards != shard:
            continue
        hs = [(b"X-H%d" % i, gen_hbytes(rng)) for i in range(n_h)]
        v, m, p, ps, _, b = gen_wellformed_req(rng)
        if m.upper().startswith(b"HTTP/"):
            m = b"GET"
        yield "msg", req_case(v, m, p, ps, hs, b)
        yield "msg", resp_case(rng.choice(VERSIONS_RESP), gen_digits(rng), rng.choice(REASONS), hs, C.rbytes(rng, rng.choice([10, 70000])))
    for _ in range(n_msg):
        r = rng.random()
        if r < 0.55:
            v, m, p, ps, hs, b = gen_wellformed_req(rng, hi=rng.random() < 0.25)
            if m.upper().startswith(b"HTTP/"):
                m = b"GET"
            yield "msg", req_case(v, m, p, ps, hs, b)
            if rng.random() < 0.5:
                yield "msg", "p " + C.hx(mutate(rng, render_req(v, m, p, ps, hs, b)))
        elif r < 0.85:
            v, d, rs, hs, b = rng.choice(VERSIONS_RESP), gen_digits(rng), rng.choice(REASONS), gen_headers(rng), gen_body(rng)
            yield "msg", resp_case(v, d, rs, hs, b)
            if rng.random() < 0.5:
                yield "msg", "p " + C.hx(mutate(rng, render_resp(v, d, rs, hs, b)))
        else:
            # dict semantics: duplicate header keys, lines without ": ", duplicate / blank parameters (expected by dict_pairs)
            v, m, p, ps, hs, b = gen_wellformed_req(rng)
            if m.upper().startswith(b"HTTP/"):
                m = b"POST"
            hs = gen_headers(rng, distinct=False)
            hs = hs + [(kk, gen_hbytes(rng)) for kk, _ in hs[: rng.randrange(0, 3)]]
            rng.shuffle(hs)
            lines = []
            exp_h = []
            for kk, vv in hs:
                if rng.random() < 0.15 and kk and b": " not in kk:
                    lines.append(kk)
                    exp_h.append((kk, b""))
                else:
                    lines.append(kk + b": " + vv)
                    exp_h.append((kk, vv))
            ps2 = ps + [(kk, gen_param_bytes(rng, 1)) for kk, _ in ps[: rng.randrange(0, 3)]]
            ps2 += [(kk, b"") for kk, _ in ps[: rng.randrange(0, 2)]] + ([(gen_param_bytes(rng, 0), b"")] if rng.random() < 0.3 else [])
            rng.shuffle(ps2)
            target = p + (b"?" + b"&".join(pct(a) + b"=" + pct(c) for a, c in ps2) if ps2 else b"")
            data = m + b" " + target + b" " + v + b"".join(b"\r\n" + ln for ln in lines) + b"\r\n\r\n" + b
            yield "msg", pw_line(data, v, show_req(m, p, dict_pairs([(a, c) for a, c in ps2 if c]), dict_pairs(exp_h), b))

    # ---- parameter bytes >= 0x80, percent-encoded (the defect repaired by 5b05344 made these raise UnicodeEncodeError)
    if shard == 0:
        for ps in ([(b"x", b"\xff")], [(b"\xff", b"a")], [(b"id", b"\xff\x00A\x80")], [(b"a", b"\xc3\xa9"), (b"\x80", b"\x80")]):
            yield "param-nonascii", req_case(b"HTTP/1.1", b"GET", b"/", ps, [], b"")
    for _ in range((4000 if thorough else 600) // nshards):
        v, m, p, ps, hs, b = gen_wellformed_req(rng, hi=True)
        if m.upper().startswith(b"HTTP/"):
            m = b"GET"
        yield "param-nonascii", req_case(v, m, p, ps, hs, b)

    # ---- malformed start lines
    toks = [b"GET", b"/a", b"HTTP/1.1", b"200", b"OK", b"x", b"HTTP/", b"http/1.0", b"\xff", b"/a?b=c", b"Not", b"Found"]
    seps = [b" ", b"\t", b"  ", b"\r", b"\n", b"\x0b", b"\x0c", b" \t ", b"\r \n"]
    for nt in range(0, 6):
        for _ in range(((600 if thorough else 120) // nshards) + 1):
            ts = [rng.choice(toks) for _ in range(nt)]
            line = rng.choice([b"", b"", b" ", b"\t", b"\n"]) + b"".join(t + rng.choice(seps) for t in ts)
            if rng.random() < 0.5:
                line = line.rstrip(WSB) if rng.random() < 0.7 else line
            tail = rng.choice([b"", b"\r\n\r\n", b"\r\nA: b\r\n\r\nbody", b"\r\n", b"\r\n\r\n\r\n\r\n"])
            yield "malformed", "p " + C.hx(line + tail)
    if shard == 0:
        for d in [b"", b" ", b"\r", b"\n", b"\r\n", b"\r\n\r\n", b"\r\n\r\nGET / HTTP/1.1", b"HTTP/", b"HTTP/1.1", b"HTTP/1.1 200", b"HTTP/1.1 200 OK extra",
                  b"http/1.1 200", b"GET", b"GET /", b"GET / HTTP/1.1 x", b"GET\t/\tHTTP/1.1", b"GET\r/\rHTTP/1.1", b"GET\n/\nHTTP/1.1\r\n\r\n", b"\x00", b"\x00 \x00 \x00",
                  b" GET / HTTP/1.1", b" HTTP/1.1 200 OK", b"HTTP/1.1\r200\rOK", b"HTTP/1.1 200 OK \r\n\r\n", b"HTTP/1.1 200 OK\x0b\r\n\r\n", b"HTTP/1.1  200  OK"]:
            yield "malformed", "p " + C.hx(d)

    # ---- status tokens through parse_raw_http
    def status(tok: bytes) -> str:
        return "p " + C.hx(b"HTTP/1.1 " + tok + b" OK\r\n\r\n")

    for n in range(1, 6 if thorough else 5):
        for t in itertools.product(b"10_+-", repeat=n):
            if mine():
                yield "status", status(bytes(t))
    import unicodedata
    specials = [c for c in range(0x110000) if chr(c).isspace() or unicodedata.decimal(chr(c), None) is not None]
    near = sorted({c + d for c in specials for d in (-1, 0, 1, 10)} & set(range(0x110000)) - set(range(0xD800, 0xE000)))
    for c in near:
        if c in WS:
            continue
        if mine():
            u = chr(c).encode("utf-8")
            yield "status", status(u)
            yield "status", status(rng.choice([b"7", b"+", b"-1", b"1_"]) + u)
            yield "status", status(u + rng.choice([b"7", b"_7", b"\xc2\xa0", b"?"]))
    cps = range(0x110000) if thorough else [rng.randrange(0x110000) for _ in range(6000)]
    for c in cps:
        if 0xD800 <= c < 0xE000 or c in WS or not mine():
            continue
        yield "status", status(chr(c).encode("utf-8") + b"3")
    # invalid / boundary UTF-8
    leads = [0x7F, 0x80, 0xBF, 0xC0, 0xC1, 0xC2, 0xDF, 0xE0, 0xE1, 0xEC, 0xED, 0xEE, 0xEF, 0xF0, 0xF1, 0xF3, 0xF4, 0xF5, 0xFF]
    conts = [0x00, 0x7F, 0x80, 0x8F, 0x90, 0x9F, 0xA0, 0xBF, 0xC0, 0xFF, 0x30]
    for a in (range(0x80, 0x100) if thorough else leads):
        for b in (range(0x100) if thorough else conts):
            if b in WS or not mine():
                continue
            yield "status", status(bytes([a, b]))
            yield "status", status(bytes([a, b, rng.choice(conts[2:])]))
            yield "status", status(bytes([a, b, 0x80, rng.choice([0x80, 0xBF, 0x31, 0xC0])]))
    for a in leads:
        for b in conts:
            for c in conts:
                if b in WS or c in WS or not mine():
                    continue
                yield "status", status(bytes([a, b, c]))
                yield "status", status(bytes([a, b, c, rng.choice(conts)]))
                yield "status", status(b"1" + bytes([a, b, c]) + b"2")
    if shard == 0:
        for nd in (4299, 4300, 4301, 4302, 5000):
            for pre in (b"", b"-", b"+"):
                yield "status", status(pre + b"1" * nd)
                yield "status", status(pre + b"0" * nd)
                yield "status", status(pre + b"_".join([b"9"] * nd))
                yield "status", status(pre + "١".encode() * nd)
    for _ in range((20000 if thorough else 2500) // nshards):
        n = rng.choice([1, 2, 3, 4, 6])
        alpha = ["1", "0", "9", "_", "+", "-", "\xa0", "\u0661", "\u2003", "\x1c", "\x00", "x", "\uff15", "\U0001d7d8", "\x7f", "\x85", "e", ".", "\u00b2", "\u2160"]
        yield "status", status("".join(rng.choice(alpha) for _ in range(n)).encode("utf-8"))

    # ---- int() directly (whitespace around the literal is unreachable through split())
    for n in range(1, 6 if thorough else 5):
        for t in itertools.product(b"1_+- \t", repeat=n):
            if mine():
                yield "int", "int " + C.hx(bytes(t))
    for _ in range((8000 if thorough else 1000) // nshards):
        n = rng.choice([1, 2, 3, 4, 6, 9])
        alpha = ["1", "0", "9", "_", "+", "-", " ", "\t", "\n", "\r", "\x0b", "\x0c", "\xa0", "\u0661", "\u2003", "\x1c", "\x1f", "\x00", "x", "\u3000", "\x85", "?"]
        yield "int", "int " + C.hx("".join(rng.choice(alpha) for _ in range(n)).encode("utf-8"))

    # ---- request targets: exhaustive small alphabet (through parse_raw_http and urlsplit directly)
    alpha = b"/a?#;:%=&+[]@41"
    for n in range(0, 5):
        for t in itertools.product(alpha, repeat=n):
            if not mine():
                continue
            tok = bytes(t)
            if tok:
                yield "uri", "p " + C.hx(get(tok))
            if n <= 3 or thorough:
                yield "us", "us " + C.hx(tok)
    # longer structured targets
    pieces = [b"/", b"//", b"a", b"ab", b"?", b"#", b";", b":", b"%41", b"%", b"=", b"&", b"+", b"[", b"]", b"@", b"x=1", b"k=%20v", b"http", b"HTTP", b"h1+-.", b"1h",
              b"\xff", b"\xc3\xa9", b"\x00", b"\x01", b"\x1f", b"\x7f", b"[::1]", b"[v1.a]", b"[1.2.3.4]", b"host", b"host:80", b"..", b"a=", b"=b", b"a=b=c", b"&&", b"%zz", b"%4", b"%fF", b"%80", b"%7f"]
    for _ in range((60000 if thorough else 8000) // nshards):
        tok = b"".join(rng.choice(pieces) for _ in range(rng.randrange(1, 7)))
        tok = bytes(x for x in tok if x not in WS)
        if tok:
            yield "uri", "p " + C.hx(get(tok))
        tok2 = b"".join(rng.choice(pieces + [b" ", b"\t", b"\r", b"\n", b"\x0b", b"\x00"]) for _ in range(rng.randrange(0, 7)))
        yield "us", "us " + C.hx(bytes(x for x in tok2 if x < 0x80))

    # ---- netloc / bracketed hosts
    hostalpha = b":1f.%vg"
    for n in range(0, 6 if thorough else 5):
        for t in itertools.product(hostalpha, repeat=n):
            if mine():
                yield "netloc", "p " + C.hx(get(b"//[" + bytes(t) + b"]/p?q=1"))
    for _ in range((40000 if thorough else 5000) // nshards):
        h = gen_ipv6ish(rng)
        pre = rng.choice([b"//", b"//", b"//", b"http://", b"x://u@", b"//a", b"/", b"///", b"//["])
        post = rng.choice([b"", b"/", b"/p", b"?q=1", b"#f", b":80/p", b"]", b"[", b"/]", b"?]"])
        lb = rng.choice([b"[", b"[", b"[", b"[", b"", b"[["])
        rb = rng.choice([b"]", b"]", b"]", b"]", b"", b"]]"])
        tok = pre + lb + h + rb + post
        tok = bytes(x for x in tok if x not in WS)
        yield "netloc", "p " + C.hx(get(tok))

    # ---- parse_qsl / unquote directly
    qalpha = b"a=&+%41fFg"
    for n in range(0, 6 if thorough else 5):
        for t in itertools.product(sorted(set(qalpha)), repeat=n):
            if mine():
                yield "qsl", "qsl " + C.hx(bytes(t))
    for n in range(0, 5 if thorough else 4):
        for t in itertools.product(b"%4aAgG+ 0fF", repeat=n):
            if mine():
                yield "uq", "uq " + C.hx(bytes(t))
    for _ in range((20000 if thorough else 3000) // nshards):
        q = b"".join(rng.choice([b"a", b"=", b"&", b"+", b"%", b"%4", b"%41", b"%7F", b"%80", b"%ff", b"%C3%A9", b"%zz", b"%%", b"b=c", b"k=", b"=v", b";", b"\x00", b"%00", b"%2B", b"%26"]) for _ in range(rng.randrange(0, 9)))
        q = bytes(x for x in q if x < 0x80)
        yield "qsl", "qsl " + C.hx(q)
        yield "uq", "uq " + C.hx(q)


# --------------------------------------------------------------------------------------------
# implementation adapter
# --------------------------------------------------------------------------------------------

def impl(stream, line):
    if stream.startswith("g-"):
        return impl(stream[2:], line[1:])       # the same real function
    if stream == "pyu":
        return pyuval.run(line)
    w = line.split(" ")
    op = w[0]
    if op in ("p", "pw"):
        import zlib as _zlib
        if _zlib.crc32(line.encode()) % 2:
            # the message returned by an earlier parse of the SAME bytes belongs to its caller: writing into its maps (the library's
            # own transform() does, for a request it is handed) must not show in a later parse
            try:
                m0 = c2.parse_raw_http(C.unhx(w[1]))
                for d in (getattr(m0, "params", None), getattr(m0, "headers", None)):
                    if isinstance(d, dict):
                        d[b"\x00written-by-the-caller"] = b"x"
                        for k in list(d)[:1]:
                            d[k] = b"changed"
            except Exception:  # noqa: BLE001
                pass
        return show_msg(c2.parse_raw_http(C.unhx(w[1])))
    if op == "us":
        r = urllib.parse.urlsplit(C.unhx(w[1]))
        return "ok " + " ".join(C.hx(x) for x in r)
    if op == "qsl":
        ps = urllib.parse.parse_qsl(C.unhx(w[1]).decode("ascii"), encoding="latin-1")
        return "ok " + show_pairs([(k.encode("latin-1"), v.encode("latin-1")) for k, v in ps])
    if op == "int":
        return "ok " + str(int(C.unhx(w[1]).decode()))
    if op == "uq":
        return C.hx(urllib.parse.unquote_to_bytes(C.unhx(w[1])))
    raise RuntimeError("unknown op " + op)


# --------------------------------------------------------------------------------------------
# oracle (independent of parse_raw_http): body / malformed / expected parts
# --------------------------------------------------------------------------------------------

_TOK = re.compile(rb"[^ \t\n\r\x0b\x0c]+")


def first_line_of(data: bytes) -> bytes:
    i = data.find(b"\r\n\r\n")
    head = data if i < 0 else data[:i]
    j = head.find(b"\r\n")
    return head if j < 0 else head[:j]


def oracle(stream, line, out):
    if stream.startswith("g-") or stream == "pyu":
        return None
    w = line.split(" ")
    if w[0] not in ("p", "pw"):
        return None
    data = C.unhx(w[1])
    if out.startswith("exc ") and out != "exc ValueError":
        return False  # only ValueError may come out
    ntok = len(_TOK.findall(first_line_of(data)))
    if ntok != 3:
        return out == "exc ValueError"
    if w[0] == "pw":
        return out == "ok " + " ".join(w[3:])
    if out.startswith("ok "):
        i = data.find(b"\r\n\r\n")
        body = b"" if i < 0 else data[i + 4:]
        return out.split(" ")[-1] == C.hx(body)
    return None


def nontrivial(stream, line, out):
    if stream == "pyu":
        return not out.startswith("exc ")
    if stream.startswith("g-"):
        return nontrivial(stream[2:], line[1:], out)
    if stream in ("malformed",):
        return out.startswith("exc ") and len(line) > 3
    if stream in ("status", "int"):
        return True
    if out.startswith("exc "):
        return stream == "netloc"
    w = out.split(" ")
    if w[0] == "ok" and len(w) > 1 and w[1] in ("req", "resp"):
        return any(t not in ("x", "0") for t in w[4:])
    return True


# --------------------------------------------------------------------------------------------
# shrinking
# --------------------------------------------------------------------------------------------

def _parse_pairs(w, i):
    n = int(w[i])
    ps = [(C.unhx(w[i + 1 + 2 * j]), C.unhx(w[i + 2 + 2 * j])) for j in range(n)]
    return ps, i + 1 + 2 * n


def _shorter(b: bytes):
    if len(b) > 1:
        yield b[: len(b) // 2]
        yield b[1:]
        yield b[:-1]
    elif len(b) == 1:
        yield b""


def shrink(stream, line):
    if stream == "pyu":
        return
    if stream.startswith("g-"):
        for cand in shrink(stream[2:], line[1:]):
            yield "g" + cand
        return
    w = line.split(" ")
    if w[0] != "pw":
        yield from C.shrink_tokens(line)
        return
    version = C.unhx(w[2])
    if w[3] == "req":
        method, path = C.unhx(w[4]), C.unhx(w[5])
        params, i = _parse_pairs(w, 6)
        headers, i = _parse_pairs(w, i)
        body = C.unhx(w[i])
        for b in _shorter(body):
            yield req_case(version, method, path, params, headers, b)
        for j in range(len(headers)):
            yield req_case(version, method, path, params, headers[:j] + headers[j + 1:], body)
        for j in range(len(params)):
            yield req_case(version, method, path, params[:j] + params[j + 1:], headers, body)
        for j, (kk, vv) in enumerate(params):
            for k2 in _shorter(kk):
                if all(k2 != o for o, _ in params):
                    yield req_case(version, method, path, params[:j] + [(k2, vv)] + params[j + 1:], headers, body)
            for v2 in _shorter(vv):
                if v2:
                    yield req_case(version, method, path, params[:j] + [(kk, v2)] + params[j + 1:], headers, body)
        for j, (kk, vv) in enumerate(headers):
            for v2 in _shorter(vv):
                yield req_case(version, method, path, params, headers[:j] + [(kk, v2)] + headers[j + 1:], body)
        for p2 in _shorter(path[1:]):
            if not p2.startswith(b"/"):
                yield req_case(version, method, b"/" + p2, params, headers, body)
        if method != b"GET":
            yield req_case(version, b"GET", path, params, headers, body)
        if version != b"HTTP/1.1":
            yield req_case(b"HTTP/1.1", method, path, params, headers, body)
    elif w[3] == "resp":
        data = C.unhx(w[1])
        digits = data.split(b" ")[1]
        reason = C.unhx(w[5])
        headers, i = _parse_pairs(w, 6)
        body = C.unhx(w[i])
        for b in _shorter(body):
            yield resp_case(version, digits, reason, headers, b)
        for j in range(len(headers)):
            yield resp_case(version, digits, reason, headers[:j] + headers[j + 1:], body)
        for d in _shorter(digits):
            if d:
                yield resp_case(version, d, reason, headers, body)

"""C01 — Beacon configuration extraction: independent payload builder, generators, adapters to the real library.

Lines
  ext    <b|F<pos>|f> <B> <allkeys T|F> <keys> <data> <expect>   b = BeaconConfig.from_bytes, F<pos> = from_file(io.BytesIO standing at pos),
                                                                f = from_path(temp file)
  spec   <b> <B> <allkeys> <keys> <data> <expect>           same call as `ext b`; the Lean side evaluates the declarative `extractSpec`
  blocks <b|f> <B> <xordecode T|F> <allkeys T|F> <keys> <data>   iter_beacon_config_blocks run to completion
  left   <b|f> <B> <keys> <data>                            the sorted residual key list of the all-keys retry (spied on `make_byte_list`)

  <B>      value of io.DEFAULT_BUFFER_SIZE during the call (patched inside `impl`, restored in `finally`)
  <keys>   `none` | `K` + comma separated hex keys (`-` = b""), `K` alone = []
  <expect> ground truth of the *builder* (ignored by the Lean driver): `-` = no claim, else the admissible answers joined by `|`,
           blanks replaced by `_`.  The oracle compares the real library's answer with it.
Answer:  ok <xorkey> <xorencoded T|F> <len>.<ck of config_block> <n> (<index>:<type>:<length>:<B|D>:<value>)*
            [guard <payload_xor_key> <beacon_config_offset> <guard_config_offset> <checksum>]   |  exc <E>
         (the `guard …` suffix when `bconfig.guardrails` is set: Guardrails recovery)
The Lean side of `ext` runs `C01.fromFileReal`: detector, both search phases, computed residual key order, Guardrails fallback —
the function the end-to-end theorems of Props/C01.lean are stated about.
"""
from __future__ import annotations

import io
import os
import struct
import tempfile

from dissect.cobaltstrike import beacon
from dissect.cobaltstrike.beacon import BeaconConfig

from . import common as C

ID = "C01"
DRIVER = "drv_c01"
GEN = ["extract", "beacon", "py_utils", "py_scan", "py_xor", "py_extractu"]
EXTRA_PROP_FILES = ["Props/C01Gen.lean"]
STREAMS = {
    "g-ext": {"relevant": False, "desc": "BeaconConfig.from_file TRANSLATED from its source (Gen/PyExtract.lean; first-yield forms of the generators; "
                                        "detector / key order / Guardrails scan supplied by the model, constructor by the translated __init__) vs the "
                                        "real from_bytes / from_file / from_path on every ext / extpi / spec case: xorkey, xorencoded, config_block, "
                                        "number of settings, Guardrails record or exception"},
    "g-left": {"relevant": False, "desc": "the key-order statements of the all-keys retry (make_byte_list, 4-gram Counter, most_common, p8, "
                                         "sort by .index) TRANSLATED from the source vs the real function on every case of the `left` stream"},
    "g-first": {"relevant": False, "desc": "iter_beacon_config_blocks TRANSLATED from its source in first-yield form (Gen/PyExtract.lean; detector and "
                                          "residual key order supplied by the model) vs next(iter_beacon_config_blocks(...), None) on every "
                                          "ext / extpi / spec / blocks case"},
    "g-find": {"relevant": False, "desc": "find_beacon_config_bytes (and iter_find_needle inside it) TRANSLATED from its source in first-yield form vs "
                                         "next(find_beacon_config_bytes(fh, key), None) and fh.tell(), fh = the file or the XorEncodedFile view of it"},
    "pyu": {"relevant": False, "desc": "the new run-time operation of Model/PyU_T01.lean that is not a dispatch (bytes.hex) against CPython"},
    "ext": {"relevant": True, "desc": "BeaconConfig.from_bytes / from_file / from_path vs C01.fromFileReal (detector, search, retry, Guardrails fallback): "
                                      "xorkey, xorencoded, config_block, settings_tuple, Guardrails record or exception"},
    "extpi": {"relevant": False, "desc": "all-keys mode with candidates under several residual keys: the winner depends on the exact "
                                         "residual key order (4-gram counter), which the property text leaves open"},
    "spec": {"relevant": True, "desc": "the same call compared with the declarative specification extractSpec (right-hand side of extract_first)"},
    "blocks": {"relevant": False, "desc": "iter_beacon_config_blocks run to completion (found flag, phase order, retry)"},
    "left": {"relevant": False, "desc": "order of the residual keys in all-keys mode (4-gram counter, most_common, stable sort)"},
}
TRUSTED = [
    "tools/harness/c01.py (payload builder = ground truth, generators, adapters); line protocol parsing in lean/CsVerif/Driver/C01.lean",
    "tools/gen/extract.py (DEFAULT_XOR_KEYS from the module; PATCH_SIZE / CONFIG_HEADER from find_beacon_config_bytes.__code__)",
    "the parameterised theorems take the answer of XorEncodedFile.from_file (`det`), the residual key order and the Guardrails outcome as "
    "parameters; the end-to-end theorems and the driver use C01.fromFileReal, which computes them (C01.detectRun = C09.fromFileReal, "
    "C01.leftKeys, C17.fromFileFallback); the Guardrails scan of a detected stage runs on the decoded bytes as an ordinary file "
    "(C09 history_refines_all_seeks; exercised here by Guardrails areas inside XorEncoded stages); PE artifacts attached by from_file are "
    "not compared (C18)",
    "collections.Counter / most_common / list.sort(key=) / itertools.zip_longest are modelled (C01.leftKeys), exercised by the `left` stream; "
    "the theorems hold for every residual key order",
    "translation tie (Props/C01Gen.lean): tools/py2leanu.py (+ its T01 arms), tools/gen/py_extractu.py (the first-yield rewriting, the "
    "specialisation of iter_beacon_config_blocks to xordecode=True, the statement slice of the key-order statements, the desugarings of "
    "from_file), lean/CsVerif/Model/PyU_T01.lean (dynamic dispatch of read / seek / tell, handles, make_byte_list pinned to its source "
    "text); external in the translated definitions: XorEncodedFile.from_file (contract XffSpec), the key-order statements (contract LeftSpec; "
    "they are translated too and run in the g-* streams, their equivalence with C01.leftKeys is not proved), BeaconConfig(config_block) "
    "(CfgSpec, satisfied by the translated __init__ of C02), pe.find_compile_stamps / find_architecture, iter_guardrail_configs_with_beacon; "
    "the g-* streams run the translated definitions with the model's detector / Guardrails scan and the translated key order and "
    "constructor against the real functions",
]
ASSUMPTIONS = [
    "file objects are io.BytesIO or regular files opened 'rb'; XOR keys are bytes objects; io.DEFAULT_BUFFER_SIZE >= 1",
    "a successful XorEncoded detection at nonce offset c implies c + 8 <= file size (hypothesis `DetOk` of the parameterised theorems; "
    "proved for the detector the model runs, detOk_of_detectRun, and not a hypothesis of the end-to-end theorems)",
    "generators consumed only up to the first yield behave as the prefix of the fully consumed run (from_file does not resume the generator) "
    "— for the hand-written model this is now a theorem (C01Gen.first_yield_find / first_yield_keys); the translated definitions are the "
    "first-yield forms themselves and need no such assumption",
]
RULE = ("builder grid: settings block x key x container (raw, PE-like, XorEncoded stage, Guardrails-protected area) x offset (0, 1, around k*B, cut by EOF) x filler x "
        "decoys x key list x entry point x buffer size; distinct = hash of (stream, line); non-trivial = a configuration was returned "
        "from a non-default situation (non-first key, XorEncoded view, all-keys retry, offset not 0) or a decoy had to be ignored")

HEADER = bytes.fromhex("00010001000200")
DEFAULT_KEYS = [b"\x69", b"\x2e", b"\x00"]
PATCH = 4096
# the ff ff ff marker scan of XorEncodedFile.from_file looks at the blocks that start at offsets <= 1024: keep that
# region free of accidental markers for every buffer size used here (every marker hit costs a 1024-step MZ search)
SAFE = 2100


# --------------------------------------------------------------------------------------------------
# independent reference code (does not call the library)
# --------------------------------------------------------------------------------------------------

def bxor(data: bytes, key: bytes) -> bytes:
    if sum(key) == 0:
        return bytes(data)
    n = len(key)
    return bytes(b ^ key[i % n] for i, b in enumerate(data))


def ck(b: bytes) -> int:
    a = 7
    for x in b:
        a = (a * 31 + x) % 4294967296
    return a


def show_blk(b: bytes) -> str:
    return f"{len(b)}.{ck(b)}"


def show_val(v: bytes) -> str:
    return C.hx(v) if len(v) <= 16 else show_blk(v)


def ref_decode(data: bytes):
    """[(index, type, length, value, deprecated)] of a configuration block (reference TLV decoder)."""
    out, pos, n = [], 0, len(data)
    while True:
        if data[pos:pos + 2] == b"\x00\x00":
            break
        if n - pos < 6:
            break
        idx, typ, ln = struct.unpack(">HHH", data[pos:pos + 6])
        if n - pos - 6 < ln:
            break
        val = data[pos + 6:pos + 6 + ln]
        pos += 6 + ln
        dep = False
        if idx == 9 and ln == 128 and val[127] != 0:
            j = pos
            while j < n and data[j] != 0:
                j += 1
            val += data[pos:j]
            pos = j
        elif idx == 36 and typ == 1:
            dep = True
        out.append((idx, typ, ln, val, dep))
    return out


def render(xorkey: bytes, xorenc: bool, block: bytes, items) -> str:
    body = [f"{i}:{t}:{ln}:{'D' if d else 'B'}:{show_val(v)}" for i, t, ln, v, d in items]
    return " ".join(["ok", C.hx(xorkey), C.tf(xorenc), show_blk(block), str(len(items))] + body)


def first_candidate(views, keys):
    """least (view, key, offset): views = [(xorencoded, bytes)] in search order"""
    for flag, v in views:
        for k in keys:
            i = v.find(bxor(HEADER, k))
            if i >= 0:
                return flag, v, k, i
    return None


def answer_for(flag, v, k, i) -> str:
    block = bxor(v[i:i + PATCH], k)
    return render(k, flag, block, ref_decode(block))


def expected(views, keys, allkeys: bool) -> str:
    """the admissible answers according to the property text (no library code involved)"""
    keys = list(keys) if keys else list(DEFAULT_KEYS)
    c = first_candidate(views, keys)
    if c:
        return answer_for(*c)
    if allkeys:
        left = [bytes([x]) for x in range(256) if bytes([x]) not in keys] or list(DEFAULT_KEYS)
        for flag, v in views:
            hit = []
            for k in left:
                i = v.find(bxor(HEADER, k))
                if i >= 0 and (k, i) not in hit:
                    hit.append((k, i))
            if hit:
                return "|".join(answer_for(flag, v, k, i) for k, i in hit)
    return "exc ValueError"


def enc_expect(s: str) -> str:
    return s.replace(" ", "_")


def dec_expect(t: str):
    return None if t == "-" else [a.replace("_", " ") for a in t.split("|")]


# --------------------------------------------------------------------------------------------------
# builder
# --------------------------------------------------------------------------------------------------

def mk_settings(rng, n=None, total=None):
    """settings list starting with the protocol setting; [(index, type, value)]"""
    out = [(1, 1, struct.pack(">H", rng.choice([0, 1, 2, 4, 8, 16])))]
    n = rng.choice([0, 1, 2, 5, 12, 30]) if n is None else n
    budget = (total if total is not None else 3000) - 8
    for _ in range(n):
        typ = rng.choice([1, 2, 3])
        idx = rng.choice([2, 3, 4, 5, 7, 8, 10, 12, 13, 26, 27, 29, 36, 37, 40, 43, 50, 51, 54, 58, 70, 74, 200])
        if typ == 1:
            val = C.rbytes(rng, 2)
        elif typ == 2:
            val = C.rbytes(rng, 4)
        else:
            val = C.rbytes(rng, rng.choice([0, 1, 3, 16, 64, 128, 256]))
        if 6 + len(val) > budget:
            break
        budget -= 6 + len(val)
        out.append((idx, typ, val))
    return out


def enc_settings(ss) -> bytes:
    return b"".join(struct.pack(">HHH", i, t, len(v)) + v for i, t, v in ss)


def cfg_block(rng, size=PATCH, n=None, tail="zero") -> bytes:
    """a plain configuration block of exactly `size` bytes: settings, 00 00 terminator, padding"""
    ss = mk_settings(rng, n, total=size - 2)
    body = enc_settings(ss) + b"\x00\x00"
    assert len(body) <= size, (len(body), size)
    pad = size - len(body)
    body += bytes(pad) if tail == "zero" else C.rbytes(rng, pad)
    return body


def needles(keys):
    return [bxor(HEADER, k) for k in keys]


ALL_SINGLE = [bytes([x]) for x in range(256)]


def scrub(buf: bytearray, avoid_keys, rng, lo=0, hi=None):
    """remove accidental occurrences of the header under `avoid_keys` (and ff ff ff in the first 1100 bytes) from buf[lo:hi]"""
    hi = len(buf) if hi is None else hi
    for nd in needles(avoid_keys):
        p = bytes(buf).find(nd, lo)
        while p != -1 and p < hi:
            buf[p + 3] ^= 0x55
            p = bytes(buf).find(nd, lo)
    return buf


def no_marker(buf: bytearray, upto=None):
    """no ff ff ff in the first `upto` bytes (keeps XorEncoded detection cheap and predictable)"""
    upto = SAFE if upto is None else upto
    p = bytes(buf[:upto + 3]).find(b"\xff\xff\xff")
    while p != -1:
        buf[p + 1] = 0x7F
        p = bytes(buf[:upto + 3]).find(b"\xff\xff\xff")
    return buf


def mk_filler(rng, n, kind, decoy_keys=()):
    if kind == "zero":
        b = bytearray(n)
    elif kind == "ff":
        b = bytearray(b"\xff" * n)
        b[:min(n, SAFE)] = bytes(rng.choice(b"\x90\xcc\x41") for _ in range(min(n, SAFE)))
    elif kind == "random":
        b = bytearray(rng.randbytes(n))
    elif kind == "runs":     # aligned runs of equal bytes: drives the 4-gram counter of the all-keys mode
        b = bytearray()
        while len(b) < n:
            b += bytes([rng.choice([0x11, 0x22, 0x33, 0xAB, 0xCD, 0x00, 0x77])]) * (4 * rng.choice([1, 2, 3, 8, 40]))
            b += rng.randbytes(rng.choice([0, 1, 2, 3, 4, 5]))
        b = b[:n]
    elif kind == "decoy":    # header prefixes (7 bytes minus one) and headers under other keys sprinkled over random bytes
        b = bytearray(rng.randbytes(n))
        for _ in range(max(1, n // 200)):
            k = rng.choice(list(decoy_keys) or [b"\x69"])
            nd = bxor(HEADER, k)
            cut = rng.choice([nd[:6], nd[1:], nd[:3] + b"\x55" + nd[4:], nd[:6] + bytes([nd[6] ^ 1])])
            if n > 16:
                p = rng.randrange(0, n - 8)
                b[p:p + len(cut)] = cut
    else:
        raise AssertionError(kind)
    return b


def pe_image(rng, size, arch=None, lf=None) -> bytearray:
    """minimal PE-like image: DOS header, e_lfanew, PE signature, file header (machine), optional header magic, sections"""
    lf = lf if lf is not None else rng.choice([64, 128, 0x80, 0xF8])
    machine = arch or rng.choice([0x8664, 0x14C])
    buf = bytearray(rng.choice(b"\x00\x90\x11\x22") for _ in range(max(size, lf + 512)))
    buf[0:2] = b"MZ"
    buf[2:60] = bytes(rng.choice(b"\x90\x41\x42\xcc") for _ in range(58))
    buf[60:64] = struct.pack("<i", lf)
    buf[lf:lf + 4] = b"PE\0\0"
    nsec = 2
    opt = 240 if machine == 0x8664 else 224
    buf[lf + 4:lf + 24] = struct.pack("<HHIIIHH", machine, nsec, rng.getrandbits(32), 0, 0, opt, 0x2102)
    buf[lf + 24:lf + 26] = struct.pack("<H", 0x20B if machine == 0x8664 else 0x10B)
    return buf[:max(size, lf + 512)]


def roll_encode(plain: bytes, nonce: bytes) -> bytes:
    enc = bytearray()
    for i, b in enumerate(plain):
        enc.append(b ^ (nonce[i] if i < 4 else enc[i - 4]))
    return bytes(enc)


def xor_stage(rng, plain: bytes, stublen: int, marker: bool, good_size: bool, stub: bytes = None):
    """stub ++ nonce ++ (size ^ nonce) ++ rolling-xor(plain)"""
    nonce = C.rbytes(rng, 4)
    if stub is None:
        stub = bytes(no_marker(bytearray(rng.randbytes(stublen)), stublen))
        if marker and stublen >= 3:
            stub = stub[:-3] + b"\xff\xff\xff"
            if stublen >= 4 and stub[-4] == 0xFF:
                stub = stub[:-4] + b"\x90" + stub[-3:]
    enc = roll_encode(plain, nonce)
    sz = len(enc) if good_size else (len(enc) + rng.choice([1, 7, 1000]))
    size = bytes(a ^ b for a, b in zip(struct.pack("<I", sz & 0xFFFFFFFF), nonce))
    return stub + nonce + size + enc


def plant(buf: bytearray, off: int, blob: bytes, grow=True):
    """write blob at off (the buffer grows when needed; `grow=False` cuts the blob at the end of the buffer)"""
    if grow and off + len(blob) > len(buf):
        buf += bytes(off + len(blob) - len(buf))
    end = min(len(buf), off + len(blob))
    buf[off:end] = blob[:end - off]
    return buf


def fmt_keys(keys) -> str:
    if keys is None:
        return "none"
    return "K" + ",".join((k.hex() or "-") for k in keys)


def parse_keys(t: str):
    if t == "none":
        return None
    body = t[1:]
    if not body:
        return []
    return [b"" if x == "-" else bytes.fromhex(x) for x in body.split(",")]


def ext_line(kind, B, ak, keys, data: bytes, exp, op="ext") -> str:
    return f"{op} {kind} {B} {C.tf(ak)} {fmt_keys(keys)} {C.hx(data)} {enc_expect(exp) if exp else '-'}"


def tried_keys(keys, ak):
    ks = list(keys) if keys else list(DEFAULT_KEYS)
    if ak:
        ks += [k for k in ALL_SINGLE if k not in ks]
    return ks


def safe_tail(key: bytes, off: int, tail: str) -> str:
    """zero padding under a key containing 0xff is a run of ff ff ff markers: inside the region the XorEncoded detector scans
    every one of them costs a 1024-step MZ search (tens of seconds per payload in the real library), so pad randomly there"""
    return "rand" if (0xFF in key and off < SAFE + 8) else tail


def build_case(rng, *, key: bytes, keys, ak: bool, container: str, off: int, total: int, filler: str, B: int,
               blocksize=PATCH, cut=False, decoys=(), tail="zero", nset=None, stub_decoy=None, stublen=None, prepend=0, lf=None):
    """One payload.  Returns (data, views) where views is the ground truth search order [(xorencoded, bytes)].

    container: raw | pe | xs (XorEncoded stage, size dword correct) | xm (marker only) | xsm (both) | xbad (neither: not detected)
    off = offset of the block inside the (decoded) view; total = size of the view; cut = block cut by the end of the view.
    decoys: [(key, offset, size)] further full blocks; every header under a tried key that is not planted is scrubbed."""
    tk = tried_keys(keys, ak)
    decoy_keys = [k for k in (DEFAULT_KEYS + [key]) if k not in tk] or [bytes([(key[0] if key else 0) ^ 0x5A])]
    if container in ("raw",):
        view = mk_filler(rng, total, filler, decoy_keys)
    else:
        view = pe_image(rng, total, lf=lf)
        hdr = 700 if lf is None else lf + 300
        if filler != "pe":
            body = mk_filler(rng, max(0, len(view) - hdr), filler, decoy_keys)
            view[hdr:] = body
        if prepend:
            # stage prepend inside the (decoded) view: bytes that cannot start a DOS header candidate (every e_lfanew dword negative)
            view = bytearray(rng.choice(b"\x90\xcc\xf0\xfe") for _ in range(prepend)) + view
    if container == "raw" and filler in ("random", "decoy", "runs"):
        no_marker(view)
    scrub(view, tk, rng)
    blk = bxor(cfg_block(rng, blocksize, nset, safe_tail(key, off, tail)), key)
    if cut:
        off = max(0, len(view) - rng.choice([7, 8, 9, 13, 100, blocksize - 1]))
        plant(view, off, blk, grow=False)
    else:
        plant(view, off, blk)
    for dk, doff, dsize in decoys:
        if container != "raw":
            doff = max(doff, 720)      # keep the image header intact (the XorEncoded detection needs it)
        plant(view, doff, bxor(cfg_block(rng, dsize, 1, safe_tail(dk, doff, "zero")), dk))
    view = bytes(view)
    if container in ("raw", "pe"):
        return view, [(False, view)]
    if stublen is None:
        stublen = rng.choice([0, 1, 5, 64, 300, 1000]) if container != "xm" else rng.choice([3, 4, 64, 300, 1000])
    stub = None
    if stub_decoy is not None:
        # a full raw candidate inside the stub (outside the decoded view): must lose against the view
        stub = bytes(no_marker(bytearray(rng.randbytes(16)))) + bxor(cfg_block(rng, 64, 1, "zero"), stub_decoy) + b"\x90" * 8
    raw = xor_stage(rng, view, stublen, marker=container in ("xm", "xsm"), good_size=container in ("xs", "xsm"), stub=stub)
    if container == "xbad":
        return raw, [(False, raw)]
    return raw, [(True, view), (False, raw)]



# --------------------------------------------------------------------------------------------------
# Guardrails-protected areas (independent builder: inverse of the recovery code, no library call)
# --------------------------------------------------------------------------------------------------

GBS, GGS = 6144, 2048


def gcks(data: bytes) -> int:
    """payload checksum: bytes weighted 1,2,3 cycling (far below the modulus 99999999 for 6144 bytes)"""
    s = sum(data[0::3]) + 2 * sum(data[1::3]) + 3 * sum(data[2::3])
    assert s < 99999999
    return s


def guard_area(rng, key: bytes, delta=0, nset=None):
    """(cfg, area, stored): 6144-byte configuration masked with `key` then 0x2e, followed by the 2048-byte guard configuration
    (GUARD_COMPUTER hash, GUARD_PAYLOAD_CHECKSUM = checksum(cfg) + 1 + delta) masked with 0x8a and the reversed masked area"""
    cfg = cfg_block(rng, GBS, nset if nset is not None else rng.choice([1, 2, 5, 12]), "zero")
    stored = gcks(cfg) + 1 + delta
    gs = struct.pack(">HHH", 6, 1, 2) + C.rbytes(rng, 2) + struct.pack(">HHHI", 9, 2, 4, stored) + b"\x00\x00"
    gc = (gs + C.rbytes(rng, GGS))[:GGS]
    mb = bxor(bxor(cfg, key), b"\x2e")
    mg = bytes(a ^ b for a, b in zip(bxor(gc, b"\x8a"), mb[::-1]))
    return cfg, mb + mg, stored


def guard_key(rng) -> bytes:
    """environmental key: 2..16 distinct non-zero bytes (aperiodic, no runs)"""
    return bytes(rng.sample(range(1, 256), rng.choice([2, 3, 5, 8, 15, 16])))


def guard_answer(cfg: bytes, key: bytes, bco: int, stored: int) -> str:
    return render(b"\x2e", False, cfg, ref_decode(cfg)) + f" guard {C.hx(key)} {bco} {bco + GBS} {stored}"


def build_guard_case(rng, *, container: str, keys, ak: bool, delta=0, plain_block=None):
    """(data, expected answer).  container raw | xs (Guardrails area inside the decoded content of a XorEncoded stage).
    plain_block = key of an ordinary configuration block planted as well (it wins: the fallback is not reached)."""
    tk = tried_keys(keys, ak)
    for _attempt in range(50):
        key = guard_key(rng)
        cfg, area, stored = guard_area(rng, key, delta)
        head = pe_image(rng, 700) if container == "xs" else bytearray()
        pre = mk_filler(rng, rng.choice([0, 1, 37, 700, 2500]), rng.choice(["zero", "random", "runs"]))
        post = mk_filler(rng, rng.choice([0, 5, 300]), rng.choice(["zero", "random"]))
        if container == "raw":
            no_marker(pre)
        scrub(pre, tk, rng)
        scrub(post, tk, rng)
        view = bytearray(head) + pre
        bco = len(view)
        view += area + post
        exp = guard_answer(cfg, key, bco, stored) if delta == 0 else "exc ValueError"
        if plain_block is not None:
            off = len(view)
            blk = bxor(cfg_block(rng, 128, 2, "zero"), plain_block)
            view += blk + bytes(9)
        view = bytes(view)
        if container == "raw":
            data, views = view, [(False, view)]
            if b"\xff\xff\xff" in data[:SAFE + 3]:
                continue
        else:
            data = xor_stage(rng, view, rng.choice([0, 5, 64, 300]), marker=False, good_size=True)
            views = [(True, view), (False, data)]
        c = first_candidate(views, tk)
        if plain_block is None:
            if c is not None:
                continue     # an accidental header under a tried key inside the masked area: not this case
            return data, exp
        if c is None or c[3] != off:
            continue
        return data, answer_for(*c)
    raise AssertionError("could not build a clean Guardrails case")


# --------------------------------------------------------------------------------------------------
# generators
# --------------------------------------------------------------------------------------------------

FILLERS = ["zero", "ff", "random", "decoy", "runs"]


def offsets_around(B, thorough):
    o = [0, 1, 2, B - 8, B - 7, B - 6, B - 5, B - 4, B - 3, B - 2, B - 1, B, B + 1, 2 * B - 7, 2 * B - 3, 2 * B - 1, 2 * B, 2 * B + 1]
    if thorough:
        o += [3, 6, 7, B - 9, B + 2, B + 6, B + 7, 2 * B - 6, 2 * B - 5, 2 * B - 4, 2 * B - 2, 3 * B - 7, 3 * B - 1, 3 * B]
    return sorted({x for x in o if x >= 0})


def _first_key(keys_tok: str, exp_tok: str) -> str:
    """a key worth scanning for: the one the builder expects to win, else the first tried key"""
    if exp_tok.startswith("ok_x"):
        return exp_tok.split("_")[1][1:] or "-"
    ks = parse_keys(keys_tok)
    k = (ks or DEFAULT_KEYS)[0]
    return k.hex() or "-"


def gen(tier, rng, shard, nshards):
    """every case that runs the extraction is also run through the definitions translated from the source (first-yield forms)"""
    n = 0
    for stream, line in gen0(tier, rng, shard, nshards):
        yield stream, line
        w = line.split(" ")
        if stream in ("ext", "extpi", "spec"):
            yield "g-ext", " ".join(["g-ext"] + w[1:6])
            n += 1
            if n % 4 == 0:
                yield "g-first", " ".join(["g-first"] + w[1:6])
            if n % 3 == 0:
                key = _first_key(w[4], w[6])
                yield "g-find", f"g-find {w[1]} {w[2]} {'T' if n % 4 == 0 else 'F'} {key} {w[5]}"
        elif stream == "left":
            yield "g-left", "g-" + line
        elif stream == "blocks" and w[3] == "T":
            yield "g-first", " ".join(["g-first", w[1], w[2], w[4], w[5], w[6]])
    for _ in range((4000 if tier == "thorough" else 400) // nshards):
        r = rng.random()
        if r < 0.8:
            yield "pyu", "pyu hex " + C.hx(C.rbytes(rng, rng.choice([0, 1, 2, 7, 33])))
        else:
            yield "pyu", "pyu hexn " + rng.choice(["none", "int", "str", "list", "bool"])


def gen0(tier, rng, shard, nshards):
    thorough = tier == "thorough"
    k = 0

    def mine():
        nonlocal k
        k += 1
        return (k % nshards) == shard

    def emit(kind, B, ak, keys, data, views, op="ext"):
        exp = expected(views, keys, ak)
        # several residual keys have a candidate: which one wins depends on the byte-frequency order, which the property text
        # does not fix -> correspondence-only stream (the oracle still demands one of the admissible answers)
        stream = "extpi" if (op == "ext" and "|" in exp) else op
        return stream, ext_line(kind, B, ak, keys, data, exp, op)

    def entry():
        r = rng.random()
        if r < 0.3:
            return "b"
        if r < 0.6:
            return "f"
        # from_file on a BytesIO that does not stand at the start (the scans must rewind)
        return "F" + rng.choice(["", "", "1", "7", "4096", "100000"])

    for _round in range(5 if thorough else 2):
        # ---- 1. offsets around read-buffer boundaries, raw container, real buffer size and patched small ones
        for B in ([8192, 64, 509] if not thorough else [8192, 64, 509, 7, 4096, 1000]):
            for off in offsets_around(B, thorough):
                for rep in range(2 if thorough else 1):
                    if not mine():
                        continue
                    key = bytes([rng.choice([0x69, 0x2E, 0x00, rng.randrange(256)])])
                    if key in DEFAULT_KEYS:
                        keys, ak = rng.choice([None, None, []]), rng.random() < 0.2
                    else:
                        keys, ak = rng.choice([([key], False), (None, True), ([b"\x01", key], False)])
                    small = B < 4096
                    bs = rng.choice([PATCH, 200, 64]) if small else PATCH
                    total = off + bs + rng.choice([0, 1, 50, 300]) if rng.random() < 0.8 else off + bs
                    if ak and keys is None and total > 9000:
                        bs = PATCH
                    data, views = build_case(rng, key=key, keys=keys, ak=ak, container="raw", off=off, total=total,
                                             filler=rng.choice(FILLERS), B=B, blocksize=bs, tail=rng.choice(["zero", "zero", "rand"]))
                    yield emit(entry(), B, ak, keys, data, views)

        # ---- 2. every key 0..255: custom list, and all-keys mode (small payloads keep the 256 scans cheap)
        for kb in range(256):
            for mode in (0, 1, 2):
                if not mine():
                    continue
                key = bytes([kb])
                if mode == 0:
                    keys, ak = [key], False
                elif mode == 1:
                    keys, ak = None, True
                else:
                    keys, ak = [bytes([kb ^ 0xFF]), key, bytes([(kb + 1) % 256])], False
                B = rng.choice([8192, 8192, 128, 33])
                bs = rng.choice([PATCH, 300, 96])
                off = rng.choice([0, 1, 5, 100, B - 3 if B < 200 else 17, 2 * B + 1 if B < 200 else 701])
                container = rng.choice(["raw", "raw", "pe", "xs", "xsm"]) if (thorough or kb % 4 == mode) else "raw"
                if container != "raw":
                    off = max(off, 720)
                    if ak:
                        bs = rng.choice([300, 96])
                data, views = build_case(rng, key=key, keys=keys, ak=ak, container=container, off=off,
                                         total=off + bs + rng.choice([0, 9, 200]), filler=rng.choice(FILLERS), B=B, blocksize=bs)
                yield emit(entry(), B, ak, keys, data, views)

        # ---- 3. containers: PE-like image and XorEncoded stages (size relation / marker / both / undetectable)
        nrep = 10 if thorough else 3
        for container in ["pe", "xs", "xm", "xsm", "xbad"]:
            for rep in range(nrep):
                for B, off in [(8192, 8192 - 3), (8192, 800), (256, 1024 - 5), (256, 1021), (64, 1280)]:
                    if not mine():
                        continue
                    key = bytes([rng.choice([0x69, 0x2E, 0x00, rng.randrange(256)])])
                    if key in DEFAULT_KEYS:
                        keys, ak = None, False
                    else:
                        keys, ak = rng.choice([([key], False), ([b"\x69", key], False)])
                    bs = PATCH if B == 8192 else rng.choice([PATCH, 500])
                    cut = rep % 4 == 3
                    data, views = build_case(rng, key=key, keys=keys, ak=ak, container=container, off=off,
                                             total=off + bs + rng.choice([0, 3, 100]), filler=rng.choice(FILLERS), B=B, blocksize=bs, cut=cut)
                    yield emit(entry(), B, ak, keys, data, views)

        # ---- 4. priority: several candidates (key priority beats file order; file order within a key; view beats raw)
        pairs = [(b"\x69", b"\x2e"), (b"\x2e", b"\x69"), (b"\x00", b"\x69"), (b"\x2e", b"\x00"), (b"\x69", b"\x69"), (b"\x00", b"\x00")]
        for rep in range(12 if thorough else 3):
            for k1, k2 in pairs:
                for B in (8192, 100):
                    if not mine():
                        continue
                    # k1 planted EARLIER in the file than k2; default list order decides
                    o1 = rng.choice([0, 3, B - 5, 50])
                    o2 = o1 + rng.choice([7, 64, 300, 4096, 4097, B + 1])
                    bs = 64
                    container = rng.choice(["raw", "raw", "pe", "xs"])
                    if container != "raw":
                        o1 += 720
                        o2 += 720
                    data, views = build_case(rng, key=k1, keys=None, ak=False, container=container, off=o1, total=o2 + 200,
                                             filler=rng.choice(["zero", "random", "decoy"]), B=B, blocksize=bs, decoys=[(k2, o2, 64)])
                    yield emit(entry(), B, False, None, data, views)
                    # custom list in reversed priority on the same payload
                    keys = rng.choice([[k2, k1], [k1, k2], [k2, k2, k1], [b"\x55", k2, k1]])
                    yield "ext", ext_line(entry(), B, False, keys, data, expected(views, keys, False))
        for rep in range(20 if thorough else 6):
            if not mine():
                continue
            # candidate under the FIRST default key in the raw stub, candidate under the LAST one in the decoded view: the view wins
            kv, kr = rng.choice([(b"\x00", b"\x69"), (b"\x2e", b"\x69"), (b"\x69", b"\x69")])
            data, views = build_case(rng, key=kv, keys=None, ak=False, container=rng.choice(["xs", "xsm"]), off=rng.choice([720, 900, 1500]),
                                     total=2200, filler=rng.choice(["zero", "random"]), B=rng.choice([8192, 128]), blocksize=128, stub_decoy=kr)
            yield emit(entry(), 8192, False, None, data, views)

        # ---- 5. key lists: repeated keys, multi-byte keys, the empty bytes object, empty list
        lists = [
            (b"\x69\x69", [b"\x69\x69"]), (b"\x01\x02", [b"\x01\x02"]), (b"\x01\x02\x03", [b"\x00", b"\x01\x02\x03"]),
            (b"", [b""]), (b"\x00", [b""]), (b"", [b"\x00"]), (b"\x00\x00", [b"\x41", b"\x00\x00"]),
            (b"\x2e", [b"\x2e", b"\x2e", b"\x2e"]), (b"\x2e", []), (b"\xaf", [b"\xcc", b"\xaf"]), (b"\xcc", [b"\xcc", b"\xaf"]),
            (b"\x10\x20\x30\x40\x50\x60\x70\x80\x90", [b"\x10\x20\x30\x40\x50\x60\x70\x80\x90"]),
        ]
        for rep in range(6 if thorough else 2):
            for key, keys in lists:
                if not mine():
                    continue
                B = rng.choice([8192, 61])
                off = rng.choice([0, 1, B - 4 if B < 100 else 333])
                ak = rng.random() < 0.25
                data, views = build_case(rng, key=key, keys=keys, ak=ak, container=rng.choice(["raw", "raw", "pe"]), off=off,
                                         total=off + 900, filler=rng.choice(["zero", "random", "decoy"]), B=B, blocksize=rng.choice([64, 700]))
                yield emit(entry(), B, ak, keys, data, views)

        # ---- 6. negative stream: no candidate under the tried keys -> ValueError; with all-keys the planted key is found
        for rep in range(60 if thorough else 16):
            if not mine():
                continue
            key = bytes([rng.choice([x for x in range(256) if x not in (0x69, 0x2E, 0x00)])])
            B = rng.choice([8192, 200])
            container = rng.choice(["raw", "raw", "pe", "xs", "xbad"])
            off = rng.choice([0, 5, B - 2 if B < 300 else 900]) + (720 if container != "raw" else 0)
            bs = rng.choice([PATCH, 128]) if container == "raw" else 128
            for keys, ak in [(None, False), (None, True), ([b"\x69", bytes([key[0] ^ 1])], False)]:
                data, views = build_case(rng, key=key, keys=keys, ak=True, container=container, off=off, total=off + bs + 40,
                                         filler=rng.choice(FILLERS), B=B, blocksize=bs)
                yield emit(entry(), B, ak, keys, data, views)
        for rep in range(30 if thorough else 8):
            if not mine():
                continue
            # nothing planted at all (pure filler / empty / tiny inputs)
            n = rng.choice([0, 1, 6, 7, 8, 100, 5000])
            kind = rng.choice(FILLERS)
            view = mk_filler(rng, n, kind, DEFAULT_KEYS)
            ak = rng.random() < 0.4
            scrub(view, tried_keys(None, ak), rng)
            data = bytes(view)
            yield emit(entry(), rng.choice([8192, 16]), ak, None, data, [(False, data)])

        # ---- 7. all-keys mode with candidates under SEVERAL non-default keys: the winner depends on the byte counter (exact π compared)
        for rep in range(80 if thorough else 20):
            if not mine():
                continue
            ks = rng.sample(range(1, 256), 3)
            ks = [bytes([x]) for x in ks if x not in (0x69, 0x2E)]
            B = rng.choice([8192, 64, 40])
            container = rng.choice(["raw", "raw", "raw", "pe", "xs"])
            base = 720 if container != "raw" else 0
            offs = rng.sample([base + 8, base + 300, base + 700, base + 1100], len(ks))
            sizes = [rng.choice([64, 200, 260]) for _ in ks]
            data, views = build_case(rng, key=ks[0], keys=None, ak=True, container=container, off=offs[0], total=base + 1500,
                                     filler=rng.choice(["runs", "runs", "zero", "random"]), B=B, blocksize=sizes[0],
                                     decoys=[(kk, oo, ss) for kk, oo, ss in zip(ks[1:], offs[1:], sizes[1:])])
            yield emit(entry(), B, True, None, data, views)

        # ---- 7b. caller-supplied key list that omits default keys, all-keys requested: "all 256" includes the omitted defaults
        for rep in range(24 if thorough else 8):
            for key in DEFAULT_KEYS + [bytes([rng.randrange(1, 256)])]:
                if not mine():
                    continue
                others = [k for k in DEFAULT_KEYS if k != key]
                keys = rng.choice([[bytes([rng.choice([0x41, 0x13, 0xAF])])], [others[0]], others[:2], [b"\x41", others[-1]]])
                keys = [k for k in keys if k != key]
                B = rng.choice([8192, 200])
                container = rng.choice(["raw", "raw", "pe", "xs"])
                off = rng.choice([0, 5, 900]) + (720 if container != "raw" else 0)
                bs = rng.choice([PATCH, 128]) if container == "raw" else 128
                for ak in (True, False):
                    data, views = build_case(rng, key=key, keys=keys, ak=True, container=container, off=off, total=off + bs + 40,
                                             filler=rng.choice(["zero", "random", "runs"]), B=B, blocksize=bs)
                    yield emit(entry(), B, ak, keys, data, views)

        # ---- 7c. XorEncoded stages whose loader stub ends right below the detector's 1024-byte window (size relation only /
        #          marker only / both) and just beyond it (not detectable: the raw view is searched)
        for container in ["xs", "xm", "xsm"]:
            for sl in ([1009, 1015, 1016, 1017, 1018, 1019, 1020, 1021, 1022, 1023, 1024, 1025, 1031] if thorough
                       else [1016, 1017, 1019, 1020, 1022, 1023, 1024, 1027]):
                if not mine():
                    continue
                key = rng.choice(DEFAULT_KEYS)
                B = rng.choice([8192, 8192, 256])
                off = rng.choice([720, 800, 1500])
                if sl >= 1024 or (container == "xm" and False):
                    # out of the window: the detector's answer is its own business (C09); keep these as correspondence cases
                    pass
                data, views = build_case(rng, key=key, keys=None, ak=False, container=container, off=off, total=off + 128 + 60,
                                         filler=rng.choice(["zero", "random"]), B=B, blocksize=128, stublen=sl)
                if sl >= 1022 and container != "xs":
                    continue   # the marker itself would straddle the window: detector-defined, not this property's subject
                if sl > 1023:
                    views = [(False, data)]
                yield emit(entry(), B, False, None, data, views)

        # ---- 7d. a DETECTED XorEncoded stage whose decoded view holds no block under the tried keys, while the raw file does
        #          (inside the loader stub, or as an overlay appended behind the stage): found in the raw view, xorencoded = False
        for rep in range(16 if thorough else 5):
            for where in ("stub", "overlay"):
                if not mine():
                    continue
                kr = rng.choice(DEFAULT_KEYS)
                hidden = bytes([rng.choice([0x77, 0xAF, 0x13])])       # the view's own block is under a key nobody tries
                B = rng.choice([8192, 8192, 256])
                off = rng.choice([720, 900, 1500])
                if where == "stub":
                    data, views = build_case(rng, key=hidden, keys=None, ak=False, container=rng.choice(["xs", "xsm", "xm"]), off=off,
                                             total=off + 128 + 60, filler=rng.choice(["zero", "random"]), B=B, blocksize=128, stub_decoy=kr)
                else:
                    for _attempt in range(20):
                        data, views = build_case(rng, key=hidden, keys=None, ak=False, container="xm", off=off, total=off + 128 + 60,
                                                 filler=rng.choice(["zero", "random"]), B=B, blocksize=128, stublen=rng.choice([3, 64, 300]))
                        overlay = bytes(mk_filler(rng, rng.choice([0, 1, 123]), "random")) + bxor(cfg_block(rng, rng.choice([64, 200]), 2, "zero"), kr) \
                            + bytes(mk_filler(rng, rng.choice([0, 31]), "random"))
                        # the decoded view continues over the overlay (every dword decoded with the preceding encoded dword)
                        noff = len(data) - len(views[0][1]) - 8
                        full = data + overlay
                        enc = full[noff + 8:]
                        dec = bytes(b ^ (full[noff + i] if i < 4 else enc[i - 4]) for i, b in enumerate(enc))
                        assert dec[:len(views[0][1])] == views[0][1]
                        vv = [(True, dec), (False, full)]
                        c = first_candidate(vv, tried_keys(None, False))
                        if c is not None and c[0] is False:
                            data, views = full, vv
                            break
                    else:
                        continue
                yield emit(entry(), B, False, None, data, views)

        # ---- 7e. XorEncoded stages whose decoded view carries a stage prepend in front of the image and a large e_lfanew: the MZ
        #          check of the detector must find the image anywhere below 1024 (DOS header, then the file header e_lfanew further)
        for pre, lf in ([(0, 1000), (8, 512), (300, 256), (809, 256), (1000, 64), (1023, 1000), (900, 1000), (1015, 128)] if thorough
                        else [(809, 256), (1000, 64), (1023, 1000), (300, 512)]):
            if not mine():
                continue
            key = rng.choice(DEFAULT_KEYS)
            off = pre + lf + 400
            data, views = build_case(rng, key=key, keys=None, ak=False, container=rng.choice(["xs", "xsm"]), off=off, total=lf + 400 + 128 + 40,
                                     filler=rng.choice(["zero", "random"]), B=rng.choice([8192, 256]), blocksize=128, prepend=pre, lf=lf,
                                     stublen=rng.choice([0, 5, 64]))
            yield emit(entry(), 8192, False, None, data, views)

        # ---- 7f. block at decoded offset 0..7 of a XorEncoded stage (reads starting inside the first dword splice the initial nonce with
        #          the first encoded dword), the image following behind it
        for k0 in ([0, 1, 2, 3, 4, 5, 7] if thorough else [1, 2, 3, 5]):
            if not mine():
                continue
            key = rng.choice(DEFAULT_KEYS)
            for _attempt in range(20):
                blk = bxor(cfg_block(rng, rng.choice([64, 128]), 2, "zero"), key)
                view = bytes(rng.choice(b"\x90\xcc\xf0") for _ in range(k0)) + blk + bytes(pe_image(rng, 900))
                data = xor_stage(rng, view, rng.choice([0, 5, 64]), marker=rng.random() < 0.5, good_size=True)
                vv = [(True, view), (False, data)]
                c = first_candidate(vv, tried_keys(None, False))
                if c is not None and c[0] is True and c[3] == k0 and c[2] == key:
                    yield emit(entry(), rng.choice([8192, 64]), False, None, data, vv)
                    break

    # ---- 8. random mix
    for _ in range((600 if thorough else 60) // nshards):
        key = bytes([rng.randrange(256)])
        mode = rng.random()
        if key in DEFAULT_KEYS or mode < 0.15:
            keys, ak = None, rng.random() < 0.3
        elif mode < 0.6:
            keys, ak = [bytes([rng.randrange(256)]), key], False
        else:
            keys, ak = None, True
        B = rng.choice([8192, 8192, 4096, 512, 100, 13])
        container = rng.choice(["raw", "raw", "pe", "xs", "xm", "xsm", "xbad"])
        bs = rng.choice([PATCH, 1000, 100])
        off = rng.choice([0, 1, rng.randrange(0, 3 * min(B, 3000)), B - rng.randrange(0, 9), 2 * B - rng.randrange(0, 9)])
        if container != "raw":
            off = max(off, 720)
            if off > 6000:
                off = 720 + off % 3000
            if ak:
                bs = 100
        cut = rng.random() < 0.15
        ndec = rng.choice([0, 0, 1, 2])
        decoys = [(bytes([rng.choice([0x69, 0x2E, 0x00, 0x13])]), rng.randrange(0, off + bs + 500), 64) for _ in range(ndec)]
        data, views = build_case(rng, key=key, keys=keys, ak=ak, container=container, off=off, total=off + bs + rng.randrange(0, 600),
                                 filler=rng.choice(FILLERS), B=B, blocksize=bs, cut=cut, decoys=decoys, tail=rng.choice(["zero", "rand"]))
        yield emit(entry(), B, ak, keys, data, views)

    # ---- 9. spec stream: small payloads, Lean evaluates the declarative specification
    for rep in range(900 if thorough else 160):
        if not mine():
            continue
        key = bytes([rng.choice([0x69, 0x2E, 0x00, rng.randrange(256)])])
        keys, ak = (None, False) if key in DEFAULT_KEYS else rng.choice([([key], False), ([b"\x2e", key], False)])
        container = rng.choice(["raw", "raw", "xs"])
        off = rng.choice([0, 1, 50]) + (720 if container != "raw" else 0)
        ndec = rng.choice([0, 1])
        decoys = [(rng.choice(DEFAULT_KEYS), rng.randrange(0, off + 100), 32)] if ndec else []
        data, views = build_case(rng, key=key, keys=keys, ak=ak, container=container, off=off, total=off + 150,
                                 filler=rng.choice(["zero", "random", "decoy"]), B=8192, blocksize=rng.choice([64, 120]), decoys=decoys,
                                 cut=rng.random() < 0.2)
        yield emit("b", 8192, ak, keys, data, views, op="spec")

    # ---- 10. iter_beacon_config_blocks run to completion
    for rep in range(500 if thorough else 100):
        if not mine():
            continue
        B = rng.choice([8192, 8192, 300, 64])
        container = rng.choice(["raw", "raw", "pe", "xs", "xbad"])
        base = 720 if container != "raw" else 0
        nblk = rng.choice([1, 2, 3, 4])
        span = rng.choice([600, 5000, 9000, 13000]) if container == "raw" else 2500
        offs = sorted(rng.sample(range(base, base + span, 7), nblk))
        ks = [bytes([rng.choice([0x69, 0x2E, 0x00, 0x69, 0x41])]) for _ in offs]
        xd, ak = rng.choice([(True, False), (True, False), (False, False), (True, True)])
        keys = rng.choice([None, None, [b"\x2e", b"\x69"], [b"\x41"], [b"\x69", b"\x69"]])
        bs = rng.choice([64, 64, 300, PATCH]) if container == "raw" else 64
        data, views = build_case(rng, key=ks[0], keys=keys, ak=ak, container=container, off=offs[0], total=base + span + 300,
                                 filler=rng.choice(["zero", "random", "runs"]), B=B, blocksize=bs,
                                 decoys=[(kk, oo, 64) for kk, oo in zip(ks[1:], offs[1:])],
                                 stub_decoy=rng.choice([None, None, b"\x69"]) if container == "xs" else None)
        yield "blocks", f"blocks {rng.choice('bf')} {B} {C.tf(xd)} {C.tf(ak)} {fmt_keys(keys)} {C.hx(data)}"

    for rep in range(240 if thorough else 48):
        if not mine():
            continue
        B = rng.choice([8192, 128])
        if rep % 2 == 0:
            # candidates in the decoded view AND in the raw stub: the raw ones must not be yielded (`found` after phase 1)
            kv, kr = rng.choice([(b"\x69", b"\x69"), (b"\x2e", b"\x69"), (b"\x00", b"\x2e"), (b"\x69", b"\x00")])
            data, views = build_case(rng, key=kv, keys=None, ak=False, container="xs", off=rng.choice([720, 1000]), total=1800,
                                     filler=rng.choice(["zero", "random"]), B=B, blocksize=64, stub_decoy=kr,
                                     decoys=[(kv, 1300, 64)] if rng.random() < 0.5 else [])
            yield "blocks", f"blocks {rng.choice('bf')} {B} T {C.tf(rng.random() < 0.5)} none {C.hx(data)}"
        else:
            # candidates under a default key and under residual keys, all-keys mode: the retry must not run (`found` after phase 2)
            kd = rng.choice(DEFAULT_KEYS)
            kl = bytes([rng.choice([0x41, 0xAF, 0x01])])
            o1, o2 = rng.sample([0, 200, 400, 5000], 2)
            data, views = build_case(rng, key=kd, keys=None, ak=False, container="raw", off=o1, total=5200,
                                     filler=rng.choice(["zero", "random", "runs"]), B=B, blocksize=64, decoys=[(kl, o2, 64)])
            yield "blocks", f"blocks {rng.choice('bf')} {B} T T none {C.hx(data)}"
            yield "blocks", f"blocks {rng.choice('bf')} {B} T T K{kl.hex()} {C.hx(data)}"

    # ---- 11. residual key order
    for rep in range(500 if thorough else 100):
        if not mine():
            continue
        B = rng.choice([8192, 64, 10, 7, 4])
        container = rng.choice(["raw", "raw", "raw", "xs", "xbad", "pe"])
        n = rng.choice([0, 3, 4, 5, 50, 1000, 3000]) if container == "raw" else rng.choice([800, 1500])
        view = mk_filler(rng, n, rng.choice(["runs", "runs", "zero", "random", "ff"]))
        if container == "raw":
            data = bytes(view)
        elif container == "pe":
            img = pe_image(rng, 700)
            data = bytes(img) + bytes(view)
        else:
            img = pe_image(rng, 700)
            data = xor_stage(rng, bytes(img) + bytes(view), rng.choice([0, 3, 50]), marker=False, good_size=container == "xs")
        keys = rng.choice([None, None, [b"\x11"], [b"\x22", b"\xab", b"\x00\x00"], [bytes([x]) for x in range(0, 256, 2)], ALL_SINGLE])
        yield "left", f"left {rng.choice('bf')} {B} {fmt_keys(keys)} {C.hx(data)}"

    # ---- 12. Guardrails-protected payloads: the fallback of from_file (recovered configuration, environmental key, offsets), inside a
    #          XorEncoded stage (scan on the view), beaten by an ordinary block, corrupted checksum -> ValueError, all-keys retry first
    for rep in range(6 if thorough else 1):
        for container, keys, ak, delta, pb in [("raw", None, False, 0, None), ("xs", None, False, 0, None),
                                               ("raw", [b"\x41", b"\x00"], False, 0, None), ("raw", None, True, 0, None),
                                               ("raw", None, False, rng.choice([1, -1, 7]), None), ("xs", None, False, 3, None),
                                               ("raw", None, False, 0, rng.choice(DEFAULT_KEYS)), ("xs", None, False, 0, b"\x2e")]:
            if not mine():
                continue
            if ak and not thorough and rep > 0:
                continue
            data, exp = build_guard_case(rng, container=container, keys=keys, ak=ak, delta=delta, plain_block=pb)
            yield "ext", ext_line(entry(), rng.choice([8192, 8192, 16384]), ak, keys, data, exp)


# --------------------------------------------------------------------------------------------------
# adapters to the real library
# --------------------------------------------------------------------------------------------------

class _Buf:
    def __init__(self, n):
        self.n = n

    def __enter__(self):
        self.old = io.DEFAULT_BUFFER_SIZE
        io.DEFAULT_BUFFER_SIZE = self.n

    def __exit__(self, *a):
        io.DEFAULT_BUFFER_SIZE = self.old


def _render_impl(bc) -> str:
    items = []
    for s in bc.settings_tuple:
        idx = s.index
        items.append((int(idx.value), int(s.type.value), int(s.length), bytes(s.value), isinstance(idx, beacon.DeprecatedBeaconSetting)))
    if not isinstance(bc.xorkey, bytes) or not isinstance(bc.xorencoded, bool):
        raise TypeError("xorkey / xorencoded have unexpected types")
    return render(bc.xorkey, bc.xorencoded, bytes(bc.config_block), items)


def _tmpfile(data: bytes) -> str:
    os.makedirs("/tmp/C01", exist_ok=True)
    fd, path = tempfile.mkstemp(prefix="c01_", dir="/tmp/C01")
    with os.fdopen(fd, "wb") as fh:
        fh.write(data)
    return path


class _SpyList(list):
    captured = None

    def sort(self, *a, **kw):
        super().sort(*a, **kw)
        _SpyList.captured = list(self)


# documented defaults of the extraction entry points: the default key list, no all-keys retry
DOC_DEFAULTS = {"xor_keys": None, "all_xor_keys": False}


def impl(stream, line):
    w = line.split(" ")
    if stream in ("ext", "extpi", "spec"):
        kind, B, ak, keys, data = w[1], int(w[2]), w[3] == "T", parse_keys(w[4]), C.unhx(w[5])
        with _Buf(B):
            if kind == "b":
                bc = BeaconConfig.from_bytes(data, **C.drop_defaults(line, DOC_DEFAULTS, xor_keys=keys, all_xor_keys=ak))
            elif kind[0] == "F":
                fobj = io.BytesIO(data)
                fobj.seek(int(kind[1:] or "0"))
                bc = BeaconConfig.from_file(fobj, **C.drop_defaults(line, DOC_DEFAULTS, xor_keys=keys, all_xor_keys=ak))
            else:
                path = _tmpfile(data)
                try:
                    bc = BeaconConfig.from_path(path, **C.drop_defaults(line, DOC_DEFAULTS, xor_keys=keys, all_xor_keys=ak))
                finally:
                    os.unlink(path)
        if bc.guardrails is not None:
            m = bc.guardrails
            pk = "none" if m.payload_xor_key is None else C.hx(bytes(m.payload_xor_key))
            return _render_impl(bc) + f" guard {pk} {int(m.beacon_config_offset)} {int(m.guard_config_offset)} {int(m.checksum)}"
        return _render_impl(bc)
    if stream == "pyu":
        if w[1] == "hex":
            return "ok " + C.unhx(w[2]).hex()
        obj = {"none": None, "int": 5, "str": "ab", "list": [1], "bool": True}[w[2]]
        return "ok " + obj.hex()
    if stream == "g-left":
        return impl("left", line[2:])
    if stream == "g-ext":
        out = impl("ext", " ".join(["ext"] + w[1:] + ["-"]))
        t = out.split(" ")
        n = int(t[4])
        return " ".join(t[:5] + t[5 + n:])
    if stream in ("g-first", "g-find"):
        kind, B = w[1], int(w[2])
        data = C.unhx(w[5])
        path = None
        if kind == "f":
            path = _tmpfile(data)
            fobj = open(path, "rb")
        else:
            fobj = io.BytesIO(data)
            if kind[0] == "F":
                fobj.seek(int(kind[1:] or "0"))
        try:
            with _Buf(B):
                if stream == "g-first":
                    ak, keys = w[3] == "T", parse_keys(w[4])
                    g = beacon.iter_beacon_config_blocks(fobj, **C.drop_defaults(line, DOC_DEFAULTS, xor_keys=keys, all_xor_keys=ak))
                    first = next(g, None)
                    g.close()
                    if first is None:
                        return "none"
                    blk, info = first
                    return f"ok {C.hx(info['xorkey'])}:{C.tf(info['xorencoded'])}:{show_blk(blk)}"
                key = b"" if w[4] == "-" else bytes.fromhex(w[4])
                fh = fobj
                if w[3] == "T":
                    from dissect.cobaltstrike.xordecode import XorEncodedFile
                    try:
                        fh = XorEncodedFile.from_file(fobj)
                    except ValueError:
                        return "noview"
                g = beacon.find_beacon_config_bytes(fh, key)
                first = next(g, None)
                g.close()
                return ("none" if first is None else "ok " + show_blk(first)) + f" {fh.tell()}"
        finally:
            fobj.close()
            if path:
                os.unlink(path)
    if stream == "blocks":
        kind, B, xd, ak, keys, data = w[1], int(w[2]), w[3] == "T", w[4] == "T", parse_keys(w[5]), C.unhx(w[6])
        path = None
        if kind == "b":
            fobj = io.BytesIO(data)
        else:
            path = _tmpfile(data)
            fobj = open(path, "rb")
        out, end = [], "end"
        try:
            with _Buf(B):
                try:
                    for blk, info in beacon.iter_beacon_config_blocks(fobj, xor_keys=keys, xordecode=xd, all_xor_keys=ak):
                        out.append(f"{C.hx(info['xorkey'])}:{C.tf(info['xorencoded'])}:{show_blk(blk)}")
                except Exception as e:  # noqa: BLE001
                    import check
                    end = "exc " + check.canon_exc(e)
        finally:
            fobj.close()
            if path:
                os.unlink(path)
        return " ".join([str(len(out))] + out + [end])
    if stream == "left":
        kind, B, keys, data = w[1], int(w[2]), parse_keys(w[3]), C.unhx(w[4])
        path = None
        if kind == "b":
            fobj = io.BytesIO(data)
        else:
            path = _tmpfile(data)
            fobj = open(path, "rb")
        real = beacon.make_byte_list
        _SpyList.captured = None
        beacon.make_byte_list = lambda exclude=None: _SpyList(real(exclude=exclude))
        try:
            with _Buf(B):
                # keys under which nothing can be found first, so that the retry (and its sort) is reached
                for _ in beacon.iter_beacon_config_blocks(fobj, xor_keys=keys, all_xor_keys=True):
                    pass
        finally:
            beacon.make_byte_list = real
            fobj.close()
            if path:
                os.unlink(path)
        if _SpyList.captured is None:
            return "not-reached"
        return C.hx(b"".join(_SpyList.captured))
    raise AssertionError(stream)


# --------------------------------------------------------------------------------------------------
# oracle / bookkeeping
# --------------------------------------------------------------------------------------------------

def oracle(stream, line, out):
    if stream not in ("ext", "extpi", "spec"):
        return None
    alts = dec_expect(line.split(" ")[6])
    if alts is None:
        return None
    return out in alts


def nontrivial(stream, line, out):
    if stream in ("g-first", "g-find", "g-ext"):
        return out.startswith("ok ")
    if stream == "g-left":
        return out not in ("not-reached",)
    if stream == "pyu":
        return out.startswith("ok ")
    if stream in ("ext", "extpi", "spec"):
        if not out.startswith("ok "):
            return False
        w = line.split(" ")
        t = out.split(" ")
        return t[1] != "x69" or t[2] == "T" or w[3] == "T" or w[2] != "8192"
    if stream == "blocks":
        return not out.startswith("0 ")
    return out not in ("not-reached",)


def shrink(stream, line):
    if stream == "pyu":
        return
    if stream in ("ext", "extpi", "spec"):
        # keep the expectation token out of the shrinking (it is the builder's claim for the original payload)
        w = line.split(" ")
        base = " ".join(w[:6])
        for cand in C.shrink_tokens(base):
            yield cand + " -"
    else:
        yield from C.shrink_tokens(line)

"""`pyu` and `g-arg` streams of C13.

pyu    the operations that lean/CsVerif/Model/PyU_T13.lean adds to the run-time library of the untyped translator (`x is True` /
       `x is False`, `d.items()`, `v[k].append(e)` on a `collections.defaultdict(list)`), each run against CPython on random operands.
g-arg  the definition translated from `C2Profile.from_beacon_config` (builder API instantiated in Model/C13Gen.lean) on configuration
       objects whose pretty values have OTHER kinds than the ones beacon.py produces (a scalar where a list is expected, `None`, `bool`,
       `bytes` for `str`, non-latin-1 text, wrong tuple lengths, unknown step names …), against the real class method.

Value notation: tools/harness/pyuval.py / lean/CsVerif/Model/PyUShow.lean, plus `I7301[data;L[children]]` = `lark.Tree(data, children)`
and `I0[type;value]` = `lark.Token(type, value)` (cid 0 = `Gen.PyC2Prof.Token`).
"""
from __future__ import annotations

import collections
import types

from lark import Token, Tree

from dissect.cobaltstrike.c2profile import C2Profile

from . import pyuval as P


def pshow(v) -> str:
    if type(v) is Token:
        return f"I0[{pshow(v.type)};{pshow(v.value)}]"
    if type(v) is Tree:
        return f"I7301[{pshow(v.data)};{pshow(v.children)}]"
    if type(v) is list:
        return "L[" + ";".join(pshow(x) for x in v) + "]"
    if type(v) is tuple:
        return "U[" + ";".join(pshow(x) for x in v) + "]"
    if type(v) is dict:
        return "D[" + ";".join(pshow(x) for x in v.keys()) + "|" + ";".join(pshow(x) for x in v.values()) + "]"
    if type(v) in P.CLASSES:
        raise RuntimeError("pshow: a class of another unit")
    return P.pshow(v)


pparse = P.pparse        # operands never contain instances


# ---------------------------------------------------------------------------------------------------------------------
# pyu: the operations of PyU_T13.lean
# ---------------------------------------------------------------------------------------------------------------------
def _ddappend(d, k, x):
    """`v[k].append(x)` for `v = collections.defaultdict(list)` holding the items of `d`; the dict afterwards"""
    v = collections.defaultdict(list)
    v.update(d)
    v[k].append(x)
    return dict(v)


def _dditem(d, k):
    """the lookup `v[k]` alone (what is left when the argument of `append` raises): the dict afterwards"""
    v = collections.defaultdict(list)
    v.update(d)
    v[k]
    return dict(v)


OPS = {
    "isbool": lambda x, b: x is b,
    "items": lambda d: list(d.items()),
    "ddappend": _ddappend,
    "dditem": _dditem,
}


def _has(v, pred) -> bool:
    if pred(v):
        return True
    if isinstance(v, (list, tuple)):
        return any(_has(x, pred) for x in v)
    if isinstance(v, dict):
        return any(_has(x, pred) for x in list(v.keys()) + list(v.values()))
    return False


def _value(rng, depth=0):
    """a random operand without instances of the classes of other units"""
    while True:
        v = P.value(rng, depth)
        if not _has(v, lambda x: type(x) in P.CLASSES):
            return v


def _ddict(rng):
    d = {}
    for _ in range(rng.choice([0, 1, 2, 3])):
        k = rng.choice([None, "metadata", "output", "id", 1, True, 0, b"k", (1, "a"), "x"])
        d[k] = rng.choice([[], [_value(rng, 2)], [1, "a"], [("append", b"x")], 5, None, "abc", (1,), b"zz", {}]) if rng.random() < 0.3 \
            else [_value(rng, 2) for _ in range(rng.choice([0, 1, 2]))]
    return d


def case(rng) -> str:
    op = rng.choice(["isbool", "isbool", "items", "ddappend", "ddappend", "dditem"])
    if op == "isbool":
        x = rng.choice([True, False, 1, 0, None, "True", b"", [], (), 2, -1, "", [True], (False,), {}]) if rng.random() < 0.7 else _value(rng)
        args = [x, rng.random() < 0.5]
    elif op == "items":
        args = [_ddict(rng) if rng.random() < 0.6 else _value(rng)]
    else:
        k = rng.choice([None, "metadata", "output", "id", 1, True, 0, 1.5 if False else 2, b"k", (1, "a"), "x", [1], {}, ([],), (1, [2])])
        args = [_ddict(rng), k] + ([_value(rng, 1)] if op == "ddappend" else [])
    return "pyu " + op + " " + " ".join(pshow(a) for a in args)


def run(line: str) -> str:
    w = line.split()
    r = OPS[w[1]](*[pparse(t) for t in w[2:]])
    return "ok " + pshow(r)


# ---------------------------------------------------------------------------------------------------------------------
# g-arg: from_beacon_config on configuration objects with values of other kinds
# ---------------------------------------------------------------------------------------------------------------------
SCALAR = [3, 5, 29, 30, 26, 27, 38, 9, 10, 58, 57, 41, 45, 60, 61, 62, 63, 64, 65, 66, 19, 20, 6, 48, 16, 76, 77, 43, 44, 52]
PASSES = [4, 14, 28, 39, 54, 50, 35, 55, 40, 53, 1, 2, 7, 200]
STEP_NAMES = ["BASE64", "base64", "Base64Url", "NETBIOS", "netbiosu", "MASK", "PRINT", "print", "URI_APPEND", "uri-append", "HEADER", "parameter",
              "APPEND", "prepend", "FOO", "ab", "", "x-y", "_header"]
TEXTS = ["", "a", "GET", "x\\y", 'q"', "caf\xe9", "Łx", "a b", "\n", "\ud800"]
BYTESES = [b"", b"a", b"A: b", b"q=1", b"\x00\xff", b'"\\', b"x"]


def _scalar(rng):
    return rng.choice([None, True, False, 0, 1, 4, 32, 64, 65, 2 ** 40, -3] + TEXTS + BYTESES)


def _latin(rng):
    return rng.choice([t for t in TEXTS if all(ord(c) < 256 for c in t)])


def _step(rng):
    r = rng.random()
    if r < 0.12:
        return ("BUILD", rng.choice(["metadata", "output", "id", "", None, b"raw", 7, "UNKNOWN BUILD ARG", (1, 2), [1]]))
    if r < 0.3:
        return (rng.choice(["_HEADER", "_HOSTHEADER", "_PARAMETER"]), rng.choice(BYTESES + [None, 5, "str: x", [b"a"]]))
    if r < 0.36:
        return (rng.choice([None, 5, True, ("a",)]), rng.choice([True, b"x"]))          # a name without `.lower()` (or an unhashable-free oddity)
    if r < 0.42:
        return rng.choice([(), ("a",), ("a", True, 1), "ab", "abc", 5, None, b"ab"])       # wrong tuple lengths / not a tuple
    return (rng.choice(STEP_NAMES), rng.choice([True, True] + BYTESES + [_latin(rng)]))


def _rstep(rng):
    r = rng.random()
    if r < 0.1:
        return rng.choice([(), ("a",), ("a", True, 1), "ab", "abc", 5, None])
    return (rng.choice(STEP_NAMES + ["append", "prepend"]), rng.choice([True, True, False, 0, 3, -2, 10] + BYTESES + [_latin(rng)]))


def _listish(rng, item, empty_ok=True):
    r = rng.random()
    if r < 0.08:
        return rng.choice([None, 5, True, "ab", "a b", b"ab", {}, {"k": 1}, ()])
    n = rng.choice([0, 1, 1, 2, 3, 5] if empty_ok else [1, 2, 3])
    xs = [item(rng) for _ in range(n)]
    return tuple(xs) if rng.random() < 0.1 else xs


def _exec_item(rng):
    return rng.choice(["CreateThread", "SetThreadContext", "CreateRemoteThread", "NtQueueApcThread", "NtQueueApcThread-s", "NtQueueApcThread_s",
                       "RtlCreateUserThread", "createthread", "Unknown", "", " ", "CreateThread \"a!b\"", "CreateRemoteThread \"k\\x!y+0x1\"",
                       "CreateThread x", "CreateThread ", "Foo \"a!b\"", "CreateThread \"caf\xe9!€\"", "CreateThread \"\ud800\"", "CreateThread  \"a\"",
                       None, 5, b"CreateThread", ("a",), True])


def _inj_item(rng):
    r = rng.random()
    if r < 0.1:
        return rng.choice([(), ("prepend",), ("a", b"x", 1), "ab", 5, None])
    return (rng.choice(["prepend", "append", "PREPEND", "other", None, 5, b"prepend"]), rng.choice(BYTESES + [None, 0, 7, True, "", "txt", "Ł"]))


def _gate_item(rng):
    return rng.choice(["All", "Comms", "VirtualAlloc", "exitthread", "Core", "", "x-y", None, 5, b"All"])


def garg_case(rng) -> str:
    d = {}
    for _ in range(rng.choice([1, 1, 2, 3, 4])):
        r = rng.random()
        if r < 0.4:
            d[rng.choice(SCALAR)] = _scalar(rng)
        elif r < 0.46:
            d[rng.choice(PASSES + [None, "3", b"\x03", (3,)])] = _scalar(rng)
        elif r < 0.52:
            d[8] = _scalar(rng)
        elif r < 0.62:
            d[11] = _listish(rng, _rstep)
        elif r < 0.78:
            d[rng.choice([12, 13])] = _listish(rng, _step)
        elif r < 0.86:
            d[rng.choice([46, 47])] = _listish(rng, _inj_item)
        elif r < 0.94:
            d[51] = _listish(rng, _exec_item)
        else:
            d[78] = _listish(rng, _gate_item)
    if rng.random() < 0.85:
        uris = [rng.choice(["/a", "/b c", "", "x\\", "\xe9", None, None]) for _ in range(rng.choice([0, 1, 2, 3]))]
    else:
        uris = rng.choice([None, 5, "ab", ("/a", None), ["/a", 5], ["/a", b"/b"], ["Ł"], {"/k": 1}, [["/a"]]])
    return "gargs " + pshow(d) + " " + pshow(uris)


def garg_run(line: str) -> str:
    w = line.split(" ")
    sbi, uris = pparse(w[1]), pparse(w[2])
    config = types.SimpleNamespace(settings_by_index=types.MappingProxyType(sbi), uris=uris)
    return "ok " + pshow(C2Profile.from_beacon_config(config).tree.children)

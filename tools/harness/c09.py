"""C09 — XorEncoded file view: op-history generators, adapters to the real library, independent oracle.

Streams `g-*`: `iter_nonce_offsets` and `XorEncodedFile.__init__ / read_nonce / tell / seek / read` are also TRANSLATED from their
source on every run (plug-in gen/py_xor.py → Gen/PyXor.lean, untyped translator) and proved equal to the hand-written model
(Props/C09Gen.lean); every hist* / nonce / ino case is also executed through the translated definitions (`g-<stream>`), `g-arg` runs
them on arguments of any kind.  (The run-time operations they use — file objects, range, max — are validated by the `pyu` stream of C15.)"""
from __future__ import annotations

import collections
import io
import logging
import os
import re
import struct
import tempfile

from dissect.cobaltstrike import pe, utils, xordecode
from dissect.cobaltstrike.xordecode import XorEncodedFile

from . import common as C
from . import pyuval, pyuval_t15

ID = "C09"
DRIVER = "drv_c09"
GEN = ["py_utils", "py_scan", "py_xor"]
EXTRA_PROP_FILES = ["Props/C09Gen.lean"]
STREAMS = {
    "hist": {"relevant": True, "desc": "history of seek/read/tell on XorEncodedFile: seeks mostly in [0, len(plain)], some to negative targets "
             "(ValueError / clamp to 0) or with an invalid whence; read bytes, tell and exceptions compared with io.BytesIO(plain)"},
    "histret": {"relevant": False, "desc": "same histories, additionally the value returned by seek (raw offset; not claimed by the property)"},
    "histeof": {"relevant": True, "desc": "histories whose seeks may land up to 12 bytes past the end, some below 0; read bytes, tell, exceptions compared"},
    "histwild": {"relevant": False, "desc": "histories with arbitrary seeks (far below 0, far past EOF) on views opened with a possibly wrong / "
                 "out-of-file nonce offset: model fidelity only"},
    "nonce": {"relevant": False, "desc": "read_nonce() at an arbitrary raw position (internal function)"},
    "ino": {"relevant": True, "desc": "list(iter_nonce_offsets(fh, real_size, maxrange))"},
    "counter": {"relevant": False, "desc": "collections.Counter(xs).most_common() order (modelled CPython built-in)"},
    "mz": {"relevant": True, "desc": "pe.find_mz_offset on a XorEncodedFile view vs the modelled check"},
    "detect": {"relevant": True, "desc": "XorEncodedFile.from_file: needle hits and MZ verdicts passed as parameters"},
    "detectm": {"relevant": True, "desc": "from_file with the MZ check modelled in Lean (needle hits passed)"},
    "detectfull": {"relevant": True, "desc": "from_file entirely modelled (C09.fromFileReal: real block scanner = C15 model, every buffer size)"},
    "detectlog": {"relevant": False, "desc": "from_file entirely modelled, plus its DEBUG log: eof_shellcode offsets, nonce offsets, "
                  "candidates tried in order with their counts (internal observables; oracle = real_hits_characterised / detect_sound_real)"},
    "histneg": {"relevant": True, "desc": "histories built around seeks whose logical target is negative (just below 0, inside what used to be "
                "the stub/header, before raw offset 0) on all three file kinds; seek return values (shifted), tell, reads and exceptions "
                "compared with io.BytesIO(plain) (history_refines_all_seeks / trace_refines_all_seeks; fix 13416c7)"},
    "g-hist": {"relevant": False, "desc": "XorEncodedFile.__init__ / seek / read / tell TRANSLATED from their source (Gen/PyXor.lean) vs the methods, on every case of hist"},
    "g-histret": {"relevant": False, "desc": "translated methods vs the real ones on every case of histret (incl. the value returned by seek)"},
    "g-histeof": {"relevant": False, "desc": "translated methods vs the real ones on every case of histeof"},
    "g-histwild": {"relevant": False, "desc": "translated methods vs the real ones on every case of histwild"},
    "g-histneg": {"relevant": False, "desc": "translated methods vs the real ones on every case of histneg"},
    "g-nonce": {"relevant": False, "desc": "translated read_nonce vs the method on every case of nonce"},
    "g-ino": {"relevant": False, "desc": "iter_nonce_offsets TRANSLATED from its source vs the function on every case of ino"},
    "g-arg": {"relevant": False, "desc": "the translated definitions vs the real ones on arguments of ANY kind (None / str / bytes / bool where an int "
              "or a file is expected): cases only the translation can express"},
}
G_STREAMS = ("hist", "histret", "histeof", "histwild", "histneg", "nonce", "ino")
TRUSTED = [
    "tools/harness/c09.py generators, adapters and the BytesIO replay oracle; line protocol parsing in lean/CsVerif/Driver/C09.lean",
    "Model/PyFile.lean (io.BytesIO / buffered and unbuffered OS files) and C20.xor are modelled, validated by the hist*/nonce streams on "
    "both file kinds; collections.Counter.most_common is modelled (stream counter); dissect.cstruct struct reads are modelled as "
    "read(sizeof)+EOFError (stream mz); iter_find_needle is the C15 model (C15.iterFindNeedle, proved exact/sound/complete there), "
    "instantiated in C09.fromFileReal (streams detectfull/detectlog, buffer sizes 1..8192)",
    "tools/py2leanu.py and lean/CsVerif/Model/PyU.lean + PyU_T15.lean (the untyped translator and its run-time library: file objects, an "
    "instance that owns its file threaded through the methods, try/except OSError, generators as the list of their yields): trusted; "
    "Props/C09Gen.lean proves the definitions translated from the source of iter_nonce_offsets and of XorEncodedFile.__init__ / read_nonce / "
    "tell / seek / read equal to the hand-written model; the g-* streams run the translated definitions against the real code on every "
    "hist* / nonce / ino case and on arguments of any kind; the run-time operations are validated by the pyu stream of C15",
]
ASSUMPTIONS = [
    "raw layout stub ++ nonce(4) ++ size(4) ++ enc; the refinement theorem covers histories whose seeks land at logical positions >= 0, "
    "any seek (any integer offset, whence 0/1/2/other) and any read; seek targets stay below the file-offset limits that Model/PyFile.lean "
    "does not model (raw target < 2**63 on BytesIO, < the filesystem's maximum file offset — 2**44 here — on OS files)",
    "nonce_offset is a natural number; read(n) is called with an int or None",
]
RULE = ("exhaustive (len<=9) x (seek p, read n, tell, read m, tell) + seeded random histories (incl. negative seek targets, invalid whence) on BytesIO / buffered / unbuffered temp files; "
        "distinct = hash of input line; non-trivial = at least one read returned bytes (hist*), a candidate was found (ino/detect*), "
        "an MZ offset was returned (mz)")

MARKER = b"\xff\xff\xff"
NS = [0, 1, 2, 3, 4, 5, 7, 8, -1, -5, None]

# --------------------------------------------------------------------------------------
# independent reference code (does not call the library)
# --------------------------------------------------------------------------------------


def roll_encode(plain: bytes, nonce: bytes) -> bytes:
    enc = bytearray()
    for i, b in enumerate(plain):
        enc.append(b ^ (nonce[i] if i < 4 else enc[i - 4]))
    return bytes(enc)


def roll_decode(enc: bytes, nonce: bytes) -> bytes:
    return bytes(b ^ (nonce[i] if i < 4 else enc[i - 4]) for i, b in enumerate(enc))


def py_mz(view: bytes, maxrange: int = 1024):
    for o in range(maxrange):
        hdr = view[o:o + 64]
        if len(hdr) < 64:
            continue
        e = int.from_bytes(hdr[60:64], "little", signed=True)
        if 0 < e < maxrange:
            ih = view[o + 4 + e:o + 4 + e + 20]
            if len(ih) < 20:
                continue
            if int.from_bytes(ih[:2], "little") in (0x8664, 0x14C):
                return o
    return None


def py_nonce_offsets(raw: bytes, real_size, maxrange: int):
    if real_size is None:
        real_size = len(raw)
    out = []
    for i in range(maxrange):
        if i + 8 > len(raw):
            break
        n, s = raw[i:i + 4], raw[i + 4:i + 8]
        dec = struct.unpack("<I", bytes(a ^ b for a, b in zip(n, s)))[0]
        if dec + i + 8 == real_size:
            out.append(i)
    return out


def occurrences(raw: bytes, needle: bytes):
    return [i for i in range(len(raw) - len(needle) + 1) if raw[i:i + len(needle)] == needle]


def py_marker_hits(raw: bytes, maxrange: int, bs: int = 8192):
    """offsets of ff ff ff the needle scan must report (Props/C09.lean real_hits_characterised): all occurrences without a limit;
    with a limit those starting at or before it when the buffer holds the limited range (bs >= maxrange + 3); for smaller
    buffers the occurrences ending at or before the limit are certain, those starting up to 2*maxrange depend on the block
    boundaries (None = outside the oracle's domain when there is one), later ones are never reported."""
    occ = occurrences(raw, MARKER)
    if not maxrange:
        return occ
    if bs >= maxrange + 3:
        return [h for h in occ if h <= maxrange]
    if any(maxrange - 3 < h <= 2 * maxrange for h in occ):
        return None
    return [h for h in occ if h + 3 <= maxrange]


def py_most_common(xs):
    order, cnt = [], {}
    for x in xs:
        if x not in cnt:
            order.append(x)
            cnt[x] = 0
        cnt[x] += 1
    # stable sort, count descending
    return sorted(order, key=lambda k: -cnt[k])


def py_detect(raw: bytes, maxrange: int, bs: int = 8192):
    """expected from_file result: nonce offset, 'ValueError', or None when a candidate is outside the oracle's domain."""
    hits = py_marker_hits(raw, maxrange, bs)
    if hits is None:
        return None
    cands = py_most_common([h + 3 for h in hits] + py_nonce_offsets(raw, None, maxrange))
    for c in cands:
        if c + 8 > len(raw):
            return None
        if py_mz(roll_decode(raw[c + 8:], raw[c:c + 4])) is not None:
            return c
    return "ValueError"


# --------------------------------------------------------------------------------------
# generators
# --------------------------------------------------------------------------------------


def fmt_ops(ops) -> str:
    out = []
    for op in ops:
        if op[0] == "s":
            out.append(f"s{op[2]}:{op[1]}")
        elif op[0] == "r":
            out.append("rn" if op[1] is None else f"r{op[1]}")
        else:
            out.append("t")
    return ",".join(out)


def parse_ops(tok: str):
    ops = []
    for t in tok.split(","):
        if t == "t":
            ops.append(("t",))
        elif t[0] == "r":
            ops.append(("r", None if t == "rn" else int(t[1:])))
        else:
            w, o = t[1:].split(":")
            ops.append(("s", int(o), int(w)))
    return ops


def mk_raw(rng, plain: bytes, stublen: int, marker: bool = False, good_size: bool = True):
    nonce = C.rbytes(rng, 4)
    if rng.random() < 0.08:
        nonce = bytes(4)
    if rng.random() < 0.05:
        nonce = bytes([0, 0, rng.randrange(256), 0])
    stub = C.rbytes(rng, stublen)
    if marker and stublen >= 3:
        stub = stub[:-3] + MARKER
    enc = roll_encode(plain, nonce)
    sz = len(enc) if good_size else rng.randrange(0, 1 << 32)
    size = bytes(a ^ b for a, b in zip(struct.pack("<I", sz & 0xFFFFFFFF), nonce))
    return stub + nonce + size + enc, len(stub)


def rand_history(rng, plen: int, nops: int, mode: str):
    """mode: 'in' (seeks in [0,len]), 'eof' (seeks in [0,len+12]), 'wild'."""
    ops, p = [], 0
    for _ in range(nops):
        r = rng.random()
        if r < 0.38:
            hi = plen if mode == "in" else plen + 12
            lo = 0
            if mode == "wild":
                lo, hi = -rng.choice([1, 4, 8, 12, 40, 2000]), plen + rng.choice([0, 3, 12, 50])
            t = rng.randrange(lo, hi + 1)
            if mode == "eof" and rng.random() < 0.5:
                t = rng.randrange(plen, hi + 1)
            if mode != "wild" and rng.random() < 0.25:
                t = rng.choice([0, min(3, plen), min(4, plen), min(5, plen), plen, max(plen - 1, 0), max(plen - 3, 0)])
            if mode != "wild" and rng.random() < 0.14:
                t = -rng.choice([1, 1, 2, 3, 4, 5, 7, 8, 9, 12, 13, 20, 72, 1031, 5000])     # below the start of the decoded bytes
            wh = rng.choice([0, 0, 1, 2])
            off = t if wh == 0 else (t - p if wh == 1 else t - plen)
            if mode != "wild" and rng.random() < 0.02:
                wh = rng.choice([3, 4, 7])                                                  # invalid whence: ValueError, nothing moves
            ops.append(("s", off, wh))
            if wh > 2 or (wh == 0 and t < 0):
                pass                                                                        # raises, position unchanged
            else:
                p = max(t, 0)
        elif r < 0.85:
            n = rng.choice(NS + [plen + 3, plen, rng.randrange(0, plen + 2)])
            if plen > 64 and rng.random() < 0.5:
                n = rng.choice([rng.randrange(1, plen), 8192, 4096, 13, 64, 1023])
            ops.append(("r", n))
            if p < plen:
                p = plen if (n is None or n < 0) else min(plen, p + n)
        else:
            ops.append(("t",))
    return ops


def pe_image(rng, total: int = None, lfanew: int = None, machine: int = None, prefix: int = 0) -> bytes:
    lf = lfanew if lfanew is not None else rng.choice([64, 128, 200, 0x80, 0xF8, 1000])
    m = machine if machine is not None else rng.choice([0x8664, 0x14C])
    hdr = b"MZ" + C.rbytes(rng, 58) + struct.pack("<i", lf)
    body = bytearray(hdr + C.rbytes(rng, max(lf, 0) + 64))
    if lf >= 0:
        body[lf:lf + 4] = b"PE\0\0"
    if 4 + lf >= 0:
        # find_mz_offset reads the file header at +4+e_lfanew; planted also for e_lfanew <= 0 / >= maxrange so that
        # only the bounds check on e_lfanew can reject those images
        body[4 + lf:4 + lf + 2] = struct.pack("<H", m)
        if lf <= 60 < 4 + lf + 2:
            body[60:64] = struct.pack("<i", lf)
    img = C.rbytes(rng, prefix) + bytes(body)
    if total is not None:
        img = img[:total] if total < len(img) else img + C.rbytes(rng, total - len(img))
    return img


def gen_detect_raw(rng):
    """returns raw, true nonce offset or None, maxrange"""
    r = rng.random()
    maxrange = rng.choice([1024] * 8 + [64, 16, 2000, 0])
    if r < 0.10:
        # not XorEncoded at all
        k = rng.random()
        if k < 0.3:
            raw = C.rbytes(rng, rng.choice([0, 1, 7, 8, 9, 40, 300, 1500]))
        elif k < 0.6:
            raw = pe_image(rng)                                # a plain PE
        else:
            raw = bytes(rng.choice([0, 0xFF, 0x41, rng.randrange(256)]) for _ in range(rng.choice([12, 64, 200])))
        return raw, None, maxrange
    stublen = rng.choice([0, 1, 2, 3, 4, 5, 17, 100, 500, 1020, 1021, 1023, 1024, 1025, 1030] + [rng.randrange(0, 1024)] * 12)
    if maxrange in (64, 16):
        stublen = rng.choice([0, 3, maxrange - 4, maxrange - 3, maxrange - 1, maxrange, maxrange + 1, rng.randrange(0, maxrange + 4)])
    marker = rng.random() < 0.6
    good = rng.random() < 0.8
    k = rng.random()
    if k < 0.58:
        img = pe_image(rng)
    elif k < 0.68:
        img = pe_image(rng, prefix=rng.choice([1, 2, 5, 100, 1023, 1024]))
    elif k < 0.82:
        img = pe_image(rng, lfanew=rng.choice([0, 0, -4, -1, 1024, 1024, 1023, 1023, 1, 1025, 5000]))
    elif k < 0.88:
        img = pe_image(rng, machine=rng.choice([0x200, 0, 0x8665, 0x14D, 0x6486]))
    elif k < 0.95:
        full = pe_image(rng, lfanew=64)
        img = full[:rng.choice([10, 63, 64, 68, 69, 70, 87, 88, 89])]
    else:
        img = C.rbytes(rng, rng.choice([0, 3, 64, 200]))
    raw, off = mk_raw(rng, img, stublen, marker, good)
    raw = bytearray(raw)
    # spurious candidates
    room = stublen - (3 if marker else 0) - 3
    if room >= 0 and rng.random() < 0.35:
        for _ in range(rng.choice([1, 1, 2, 5])):
            j = rng.randrange(0, room + 1)
            raw[j:j + 3] = MARKER
            if rng.random() < 0.2 and j + 5 <= room + 3:
                raw[j:j + 5] = b"\xff" * 5                  # a run: hits at consecutive offsets
    if stublen >= 16 and rng.random() < 0.3:
        j = rng.randrange(0, stublen - 11)
        n = C.rbytes(rng, 4)
        raw[j:j + 4] = n
        raw[j + 4:j + 8] = bytes(a ^ b for a, b in zip(struct.pack("<I", len(raw) - j - 8), n))
    if rng.random() < 0.08:
        raw += C.rbytes(rng, rng.choice([1, 4, 9]))          # trailing bytes: size relation no longer holds
    return bytes(raw), off, maxrange


def garg_case(rng):
    """arguments of any kind for the translated definitions"""
    r = rng.random()
    if r < 0.35:
        f = pyuval_t15.rfile(rng) if rng.random() < 0.9 else rng.choice([None, 5, b"ab"])
        if isinstance(f, pyuval_t15.FileSpec) and rng.random() < 0.5:
            raw, _ = mk_raw(rng, C.rbytes(rng, rng.choice([0, 3, 8])), rng.choice([0, 1, 2]), good_size=rng.random() < 0.7)
            f = pyuval_t15.FileSpec(raw, rng.choice([0, 0, 3]), f.kind)
        rs = rng.choice([None, None, None, 0, 8, 12, 16, 20, -1, True, "8", b"", [8]])
        mr = rng.choice([0, 1, 2, 3, 8, 1024, True, False, -1, None, "4", b"", [1]])
        return "gargi " + " ".join(pyuval_t15.show(x) for x in (f, rs, mr))
    plen = rng.choice([0, 1, 3, 4, 5, 9])
    raw, off = mk_raw(rng, C.rbytes(rng, plen), rng.choice([0, 1, 5]), good_size=False)
    kind = rng.choice(["B", "B", "F"])
    pos = rng.choice([0, 2, off + 8, off + 8 + min(2, plen), off + 8 + plen, len(raw) + 2])
    head = f"gargm {kind} {off} {C.hx(raw)} {pos}"
    if r < 0.45:
        return head + " new " + pyuval.pshow(rng.choice([0, off, 1, True, False, -1, -2, len(raw) + 3, None, "1", b"", [0]]))
    if r < 0.75:
        o = rng.choice([0, 1, 3, plen, plen + 2, -1, -3, -50, True, False, None, "1", b"", [1]])
        wh = rng.choice([0, 0, 1, 2, 2, True, False, 3, 7, -1, None, "0"])
        return head + " seek " + pyuval.pshow(o) + " " + pyuval.pshow(wh)
    n = rng.choice([None, -1, -7, 0, 1, 2, 3, 4, 5, 100, True, False, "3", b"", [2]])
    return head + " read " + pyuval.pshow(n)


def gen(tier, rng, shard, nshards):
    """every case that calls iter_nonce_offsets / the view's methods is also run through the definitions translated from the source"""
    for stream, line in gen0(tier, rng, shard, nshards):
        yield stream, line
        if stream in G_STREAMS:
            yield "g-" + stream, "g" + line
    for _ in range((60000 if tier == "thorough" else 6000) // nshards):
        yield "g-arg", garg_case(rng)


def gen0(tier, rng, shard, nshards):
    thorough = tier == "thorough"
    k = 0

    def mine():
        nonlocal k
        k += 1
        return (k % nshards) == shard

    kinds = ["B", "B", "F", "U"]

    # ---- exhaustive: len 0..9 (thorough 0..13, every file kind), seek SET p, read n, tell, read m, tell
    ns = [0, 1, 2, 3, 4, 5, 7, -1, None]
    for plen in range(0, 14 if thorough else 10):
        for p in range(plen + 1):
            for n in ns + [plen + 3]:
                for m in ns + [plen + 3]:
                    for kind in (["B", "F", "U"] if thorough else [None]):
                        if not mine():
                            continue
                        plain = C.rbytes(rng, plen)
                        raw, off = mk_raw(rng, plain, rng.choice([0, 0, 1, 5, 33]), good_size=rng.random() < 0.3)
                        ops = [("s", p, 0), ("r", n), ("t",), ("r", m), ("t",)]
                        yield "hist", f"hist {kind or rng.choice(kinds)} {off} {C.hx(raw)} {fmt_ops(ops)}"

    # ---- fixed probes of the corners of read_nonce (raw position < 4: BytesIO clamps, OS files raise OSError)
    for kind in ["B", "F", "U"]:
        for off in (0, 1):
            if not mine():
                continue
            raw, _ = mk_raw(rng, C.rbytes(rng, 9), off, good_size=False)
            yield "histwild", f"histwild {kind} {off} {C.hx(raw)} s0:-6,r4,t,s0:-8,r3,t,s0:-5,rn,t,s0:-7,r1,r1,t,s1:-100,t,r2,t"
            for pos in range(0, len(raw) + 6):
                yield "nonce", f"nonce {kind} {off} {C.hx(raw)} {pos}"

    # ---- random histories on short plaintexts (all residues mod 4)
    for _ in range((240000 if thorough else 20000) // nshards):
        plen = rng.randrange(0, 41)
        plain = C.rbytes(rng, plen)
        stublen = rng.choice([0, 1, 2, 3, 4, 7, 8, 64, 1023, rng.randrange(0, 1024), rng.randrange(0, 32)])
        raw, off = mk_raw(rng, plain, stublen, good_size=rng.random() < 0.3)   # the view never looks at the size dword
        kind = rng.choice(kinds)
        r = rng.random()
        if r < 0.62:
            ops = rand_history(rng, plen, rng.randrange(1, 31), "in")
            yield "hist", f"hist {kind} {off} {C.hx(raw)} {fmt_ops(ops)}"
            if rng.random() < 0.25:
                yield "histret", f"histret {kind} {off} {C.hx(raw)} {fmt_ops(ops)}"
        elif r < 0.74:
            ops = rand_history(rng, plen, rng.randrange(1, 31), "eof")
            yield "histeof", f"histeof {kind} {off} {C.hx(raw)} {fmt_ops(ops)}"
        elif r < 0.9:
            ops = rand_history(rng, plen, rng.randrange(1, 31), "wild")
            # the object may also be constructed with a wrong / out-of-file nonce offset
            o2 = off if rng.random() < 0.7 else rng.choice([0, off + 1, max(off - 1, 0), len(raw), len(raw) - 2, len(raw) + 5])
            yield "histwild", f"histwild {kind} {max(o2, 0)} {C.hx(raw)} {fmt_ops(ops)}"
        else:
            pos = rng.choice([0, 1, 3, 4, 5, off, off + 3, off + 4, off + 7, off + 8, off + 9, off + 10, off + 11, off + 12, off + 13,
                              len(raw) - 1, len(raw), len(raw) + 1, len(raw) + 3, len(raw) + 4, len(raw) + 9, rng.randrange(0, len(raw) + 6)])
            yield "nonce", f"nonce {kind} {off} {C.hx(raw)} {max(pos, 0)}"

    # ---- long plaintexts (8-20 KB): streaming reads as the CLI does, plus random access
    for _ in range((2000 if thorough else 96) // nshards):
        plen = rng.randrange(8192, 20481)
        plain = C.rbytes(rng, plen)
        raw, off = mk_raw(rng, plain, rng.randrange(0, 1024), good_size=rng.random() < 0.3)
        kind = rng.choice(kinds)
        if rng.random() < 0.3:
            step = rng.choice([8192, 4096, 8191, 5000])
            ops = [("r", step)] * (plen // step + 2) + [("t",)]
        else:
            ops = rand_history(rng, plen, rng.randrange(1, 12), "in")
        yield "hist", f"hist {kind} {off} {C.hx(raw)} {fmt_ops(ops)}"

    # ---- iter_nonce_offsets
    for _ in range((12000 if thorough else 1200) // nshards):
        raw, off, maxrange = gen_detect_raw(rng)
        if len(raw) > 6000:
            raw = raw[:6000]
        rs = rng.choice(["none"] * 5 + [str(len(raw)), str(len(raw) + 1), str(len(raw) - (off or 0)), "8", "0", "-1"])
        yield "ino", f"ino {rng.choice(kinds)} {rs} {maxrange} {C.hx(raw)}"

    # ---- Counter order
    for _ in range((10000 if thorough else 800) // nshards):
        n = rng.randrange(0, 12)
        xs = [rng.randrange(0, rng.choice([3, 5, 40])) for _ in range(n)]
        yield "counter", f"counter {C.ints(xs)}"

    # ---- find_mz_offset on views / detection
    for _ in range((10000 if thorough else 640) // nshards):
        raw, off, maxrange = gen_detect_raw(rng)
        kind = rng.choice(["B", "B", "B", "F"])
        if rng.random() < 0.3:
            c = off if (off is not None and rng.random() < 0.7) else rng.randrange(0, max(len(raw), 1))
            yield "mz", f"mz {kind} {c} {C.hx(raw)}"
            continue
        if rng.random() < 0.1 and off is not None:
            # stage larger than one I/O block
            img = pe_image(rng, total=rng.randrange(9000, 12000))
            raw, off = mk_raw(rng, img, off, rng.random() < 0.5, rng.random() < 0.8)
        hits = real_hits(raw, maxrange)
        cands = sorted({h + 3 for h in real_hits(raw, maxrange)} | set(py_nonce_offsets(raw, None, maxrange)))
        tag = "none" if off is None else str(off)
        if len(cands) <= 12:
            passing = [c for c in cands if real_mz_ok(raw, c)]
            yield "detect", f"detect {kind} {maxrange} {C.hx(raw)} {C.ints(hits)} {C.ints(passing)} {tag}"
        if len(cands) <= 6:
            yield "detectm", f"detectm {kind} {maxrange} {C.hx(raw)} {C.ints(hits)} {tag}"
            yield "detectfull", f"detectfull {kind} {maxrange} {C.hx(raw)} {rng.choice(BUFSIZES)} {tag}"
            yield "detectlog", f"detectlog {kind} {maxrange} {C.hx(raw)} {rng.choice(BUFSIZES)} {tag}"

    # ---- the limit of the marker scan is compared with block-relative indices: markers around `maxrange` and up to
    #      2*maxrange, small maxrange, every buffer size (the answer legitimately depends on the buffer size there)
    for _ in range((6000 if thorough else 400) // nshards):
        maxrange = rng.choice([16, 16, 24, 64, 100, 0])
        m = maxrange or 40
        stublen = rng.choice([m - 3, m - 1, m, m + 1, m + 2, m + 3, m + 4, 2 * m, 2 * m + 3, 2 * m + 4, rng.randrange(3, 2 * m + 8)])
        img = pe_image(rng) if rng.random() < 0.85 else C.rbytes(rng, 40)
        raw, off = mk_raw(rng, img, max(stublen, 3), True, rng.random() < 0.5)
        raw = bytearray(raw)
        for _ in range(rng.choice([0, 0, 1, 2])):
            j = rng.randrange(0, max(off - 2, 1))
            raw[j:j + 3] = MARKER
        bs = rng.choice([1, 2, 3, 4, 5, 7, m - 1, m, m + 1, m + 2, m + 3, m + 4, 2 * m, 8192])
        kind = rng.choice(["B", "B", "F"])
        yield "detectlog", f"detectlog {kind} {maxrange} {C.hx(bytes(raw))} {max(bs, 1)} {off}"
        if rng.random() < 0.5:
            yield "detectfull", f"detectfull {kind} {maxrange} {C.hx(bytes(raw))} {max(bs, 1)} {off}"

    # ---- seeks to negative logical positions: (kind) x (whence) x (target inside the header / before raw 0) x (state before)
    k2 = 0
    for kind in ["B", "F", "U"]:
        for stublen in (0, 5):
            for plen in (0, 3, 9):
                base = stublen + 8
                for wh in (0, 1, 2):
                    for t in (-1, -4, -5, -8, -base, -base - 1, -base - 100):
                        for p0 in (0, min(2, plen), plen, plen + 3):
                            k2 += 1
                            if not thorough and k2 % 2:
                                continue
                            if not mine():
                                continue
                            raw, off = mk_raw(rng, C.rbytes(rng, plen), stublen, good_size=False)
                            ops = [("s", p0, 0)] + neg_seek_probe(rng, plen, p0, t, wh)
                            yield "histneg", f"histneg {kind} {off} {C.hx(raw)} {fmt_ops(ops)}"
    for _ in range((20000 if thorough else 1500) // nshards):
        plen = rng.randrange(0, 30)
        stublen = rng.choice([0, 1, 2, 3, 4, 7, 8, 33, rng.randrange(0, 64)])
        base = stublen + 8
        raw, off = mk_raw(rng, C.rbytes(rng, plen), stublen, good_size=False)
        ops, p = [], 0
        for _ in range(rng.randrange(1, 5)):
            if rng.random() < 0.5:
                ops += rand_history(rng, plen, rng.randrange(1, 4), "in")
                p = None
            if p is None:
                p = rng.randrange(0, plen + 2)
                ops.append(("s", p, 0))
            t = rng.choice([-1, -2, -3, -4, -5, -7, -8, -9, -base, -base + 1, -base - 1, -base - rng.randrange(2, 3000),
                            -rng.randrange(1, base + 1)])
            ops += neg_seek_probe(rng, plen, p, t, rng.choice([0, 1, 2]))
            p = None
        yield "histneg", f"histneg {rng.choice(['B', 'F', 'U'])} {off} {C.hx(raw)} {fmt_ops(ops)}"


BUFSIZES = [io.DEFAULT_BUFFER_SIZE, 8192, 4096, 1027, 1026, 1024, 64, 7, 4, 3, 2, 1]


def neg_seek_probe(rng, plen: int, p: int, t: int, wh: int):
    """from logical position p: seek to logical target t (< 0) by `whence`, look around, come back"""
    off = t if wh == 0 else (t - p if wh == 1 else t - plen)
    n1 = rng.choice([0, 1, 2, 3, 4, 5, 7, 8, 9, 13, -1, None])
    n2 = rng.choice([0, 1, 3, 4, 5, -1, None, plen + 20])
    back = rng.randrange(0, plen + 2)
    return [("s", off, wh), ("t",), ("r", n1), ("t",), ("s", -1, 1), ("t",), ("r", n2), ("t",),
            ("s", back, 0), ("r", rng.choice([1, 4, 5, None])), ("t",)]


def real_hits(raw: bytes, maxrange: int):
    return list(utils.iter_find_needle(io.BytesIO(raw), MARKER, start_offset=0, max_offset=maxrange))


def real_mz_ok(raw: bytes, c: int) -> bool:
    return pe.find_mz_offset(XorEncodedFile(io.BytesIO(raw), nonce_offset=c)) is not None


# --------------------------------------------------------------------------------------
# implementation adapter
# --------------------------------------------------------------------------------------

_TMP = None


def open_kind(kind: str, raw: bytes):
    global _TMP
    if kind == "B":
        return io.BytesIO(raw)
    if _TMP is None or _TMP[0] != os.getpid():
        fd, path = tempfile.mkstemp(prefix="c09_", suffix=".bin")
        os.close(fd)
        _TMP = (os.getpid(), path)
        import atexit

        atexit.register(lambda p=path: os.path.exists(p) and os.unlink(p))
    with open(_TMP[1], "wb") as f:
        f.write(raw)
    return open(_TMP[1], "rb") if kind == "F" else open(_TMP[1], "rb", buffering=0)


def run_history(xf, ops, with_ret: bool):
    from check import canon_exc  # the runner's exception naming

    out = []
    for op in ops:
        try:
            if op[0] == "s":
                r = xf.seek(op[1], op[2])
                out.append(f"s{r}" if with_ret else "s")
            elif op[0] == "r":
                out.append("b" + xf.read(op[1]).hex())
            else:
                out.append(f"p{xf.tell()}")
        except Exception as e:  # noqa: BLE001
            out.append("e" + canon_exc(e))
    return " ".join(out)


def _raw_tell(fh):
    return str(fh.tell()) if hasattr(fh, "tell") else "-"


def _garg(line):
    """`gargi` / `gargm`: the real code on arguments of any kind"""
    w = line.split()
    if w[0] == "gargi":
        args = [pyuval_t15.parse(t) for t in w[1:]]
        with pyuval_t15.Opened(args) as a:
            out = list(xordecode.iter_nonce_offsets(*a))
            return "ok " + pyuval.pshow(out) + " " + _raw_tell(a[0])
    fh = open_kind(w[1], C.unhx(w[3]))
    try:
        if w[5] == "new":
            xf = XorEncodedFile(fh, pyuval_t15.parse(w[6]))
            return "ok " + pyuval.pshow((xf.nonce_offset, xf.initial_nonce, xf.nonced_filesize)) + " " + str(fh.tell())
        xf = XorEncodedFile(fh, nonce_offset=int(w[2]))
        fh.seek(int(w[4]))
        args = [pyuval_t15.parse(t) for t in w[6:]]
        r = xf.seek(*args) if w[5] == "seek" else xf.read(*args)
        return "ok " + pyuval.pshow(r) + " " + str(fh.tell())
    finally:
        fh.close()


def impl(stream, line):
    if stream == "g-arg":
        return _garg(line)
    if stream.startswith("g-"):
        return impl(stream[2:], line[1:])        # the same real code
    w = line.split()
    if stream in ("hist", "histret", "histeof", "histwild", "histneg"):
        fh = open_kind(w[1], C.unhx(w[3]))
        try:
            xf = XorEncodedFile(fh, nonce_offset=int(w[2]))
            return run_history(xf, parse_ops(w[4]), stream in ("histret", "histwild", "histneg"))
        finally:
            fh.close()
    if stream == "nonce":
        fh = open_kind(w[1], C.unhx(w[3]))
        try:
            xf = XorEncodedFile(fh, nonce_offset=int(w[2]))
            fh.seek(int(w[4]))
            n = xf.read_nonce()
            return f"{C.hx(n)} {fh.tell()}"
        finally:
            fh.close()
    if stream == "ino":
        fh = open_kind(w[1], C.unhx(w[4]))
        try:
            rs = None if w[2] == "none" else int(w[2])
            l = list(xordecode.iter_nonce_offsets(fh, **C.drop_defaults(line, {"real_size": None, "maxrange": 1024}, real_size=rs, maxrange=int(w[3]))))
            return f"ok {C.ints(l)} {fh.tell()}"
        finally:
            fh.close()
    if stream == "counter":
        mc = collections.Counter(C.unints(w[1])).most_common()
        return f"{C.ints(k for k, _ in mc)} {C.ints(c for _, c in mc)}"
    if stream == "mz":
        fh = open_kind(w[1], C.unhx(w[3]))
        try:
            r = pe.find_mz_offset(XorEncodedFile(fh, nonce_offset=int(w[2])))
            return "ok none" if r is None else f"ok {r}"
        finally:
            fh.close()
    if stream in ("detect", "detectm", "detectfull"):
        fh = open_kind(w[1], C.unhx(w[3]))
        saved = io.DEFAULT_BUFFER_SIZE
        try:
            if stream == "detectfull":
                io.DEFAULT_BUFFER_SIZE = int(w[4])
            # detection is a function of the file CONTENT: the handle may stand anywhere when from_file is called (after an earlier
            # read, after a first from_file on the same handle) - position chosen from the case line, so a replay repeats it
            import zlib as _zlib
            _n = len(C.unhx(w[3]))
            fh.seek([0, 0, 3, 7, _n // 2, max(_n - 1, 0), _n, 1024, 1030][_zlib.crc32(line.encode()) % 9])
            xf = XorEncodedFile.from_file(fh, **C.drop_defaults(line, {"maxrange": 1024}, maxrange=int(w[2])))
            head = f"ok {xf.nonce_offset} {fh.tell()} {xf.tell()}"
            return head + " " + C.hx(xf.read(12))
        finally:
            io.DEFAULT_BUFFER_SIZE = saved
            fh.close()
    if stream == "detectlog":
        from check import canon_exc

        fh = open_kind(w[1], C.unhx(w[3]))
        saved = io.DEFAULT_BUFFER_SIZE
        cap = _LogCapture()
        lg = xordecode.logger
        old_level, old_prop = lg.level, lg.propagate
        lg.addHandler(cap)
        lg.setLevel(logging.DEBUG)
        lg.propagate = False
        try:
            io.DEFAULT_BUFFER_SIZE = int(w[4])
            try:
                xf = XorEncodedFile.from_file(fh, maxrange=int(w[2]))
                head = f"ok {xf.nonce_offset} {fh.tell()} {xf.tell()}"
                head += " " + C.hx(xf.read(12))
            except ValueError as e:
                head = "exc " + canon_exc(e)
            return f"{head} {C.ints(cap.eofs)} {C.ints(cap.nonces)} {C.ints(cap.tried)} {C.ints(cap.counts)}"
        finally:
            io.DEFAULT_BUFFER_SIZE = saved
            lg.removeHandler(cap)
            lg.setLevel(old_level)
            lg.propagate = old_prop
            fh.close()
    raise RuntimeError("unknown stream " + stream)


class _LogCapture(logging.Handler):
    """collects what XorEncodedFile.from_file logs: the two candidate lists and the candidates it tries, in order"""

    _list = re.compile(r"^Found (nonce|eof_shellcode) offset candidates: \[(.*)\]$")
    _try = re.compile(r"^Found common nonce offset: (-?\d+) \((\d+)\)$")

    def __init__(self):
        super().__init__(logging.DEBUG)
        self.eofs, self.nonces, self.tried, self.counts = [], [], [], []

    def emit(self, record):
        msg = record.getMessage()
        m = self._list.match(msg)
        if m:
            vals = [int(v) for v in m.group(2).split(",") if v.strip()]
            if m.group(1) == "nonce":
                self.nonces = vals
            else:
                self.eofs = vals
            return
        m = self._try.match(msg)
        if m:
            self.tried.append(int(m.group(1)))
            self.counts.append(int(m.group(2)))


# --------------------------------------------------------------------------------------
# oracle: replay the history on io.BytesIO(plain)
# --------------------------------------------------------------------------------------


def replay_plain(plain: bytes, ops, base=None):
    """outputs of the same history on io.BytesIO(plain) — the property's reference object; a raising operation is recorded
    as e<Exc> and the history goes on; with `base` the value returned by seek is reported shifted by nonce_offset + 8"""
    from check import canon_exc

    f = io.BytesIO(plain)
    outs = []
    for op in ops:
        try:
            if op[0] == "s":
                r = f.seek(op[1], op[2])
                outs.append("s" if base is None else f"s{r + base}")
            elif op[0] == "r":
                n = op[1]
                outs.append("b" + f.read(-1 if n is None else n).hex())
            else:
                outs.append(f"p{f.tell()}")
        except Exception as e:  # noqa: BLE001
            outs.append("e" + canon_exc(e))
    return outs


def history_verdict(line, with_ret: bool):
    w = line.split()
    off, raw, ops = int(w[2]), C.unhx(w[3]), parse_ops(w[4])
    plain = roll_decode(raw[off + 8:], raw[off:off + 4])
    return replay_plain(plain, ops, off + 8 if with_ret else None)


def oracle(stream, line, out):
    if stream.startswith("g-"):
        return None
    w = line.split()
    if stream in ("hist", "histeof"):
        return out.split(" ") == history_verdict(line, False)
    if stream == "histneg":
        return out.split(" ") == history_verdict(line, True)
    if stream == "histret":
        return None
    if stream == "ino":
        if out.startswith("exc"):
            return False
        raw = C.unhx(w[4])
        rs = None if w[2] == "none" else int(w[2])
        return out.split()[1] == C.ints(py_nonce_offsets(raw, rs, int(w[3])))
    if stream == "mz":
        raw, c = C.unhx(w[3]), int(w[2])
        if c + 8 > len(raw):
            return None
        r = py_mz(roll_decode(raw[c + 8:], raw[c:c + 4]))
        return out == ("ok none" if r is None else f"ok {r}")
    if stream == "detectlog":
        return detectlog_verdict(line, out)
    if stream in ("detect", "detectm", "detectfull"):
        raw, maxrange = C.unhx(w[3]), int(w[2])
        exp = py_detect(raw, maxrange, int(w[4]) if stream == "detectfull" else io.DEFAULT_BUFFER_SIZE)
        if exp is None:
            return None
        if exp == "ValueError":
            return out == "exc ValueError"
        nonce, enc = raw[exp:exp + 4], raw[exp + 8:]
        plain = bytearray()
        prev = nonce
        for i in range(0, min(len(enc), 12), 4):      # independent rolling-xor decode of the first 12 bytes
            chunk = enc[i:i + 4]
            plain += bytes(a ^ b for a, b in zip(chunk, prev))
            prev = chunk
        return out == f"ok {exp} {exp + 8} 0 {C.hx(bytes(plain[:12]))}"
    return None


def detectlog_verdict(line, out):
    """independent statement of real_hits_characterised / size_offsets_exact / mostCommon_order / detect_sound_real"""
    w, o = line.split(), out.split()
    raw, maxrange, bs = C.unhx(w[3]), int(w[2]), int(w[4])
    if o[0] == "exc":
        if o[1] != "ValueError":
            return False
        res, lists = None, o[2:]
    else:
        res, lists = int(o[1]), o[5:]
        if (int(o[2]), int(o[3])) != (res + 8, 0):
            return False
    eofs, nonces, tried, counts = (C.unints(t) for t in lists)
    occ = occurrences(raw, MARKER)
    hits = [e - 3 for e in eofs]
    if any(h not in occ for h in hits) or any(a >= b for a, b in zip(hits, hits[1:])):
        return False                                             # only true occurrences, ascending, no duplicates
    if any(h not in hits for h in occ if maxrange == 0 or h + 3 <= maxrange):
        return False                                             # every occurrence ending at or before the limit
    if maxrange and any(h > 2 * maxrange for h in hits):
        return False
    if maxrange and bs >= maxrange + 3 and hits != [h for h in occ if h <= maxrange]:
        return False                                             # exact when the buffer holds the limited range
    if nonces != py_nonce_offsets(raw, None, maxrange):
        return False
    order = py_most_common(eofs + nonces)
    cnt = collections.Counter(eofs + nonces)
    if tried != order[:len(tried)] or counts != [cnt[c] for c in tried]:
        return False
    if any(c + 8 > len(raw) for c in tried):
        return None                                              # view outside the file: outside the oracle's domain
    verdicts = [py_mz(roll_decode(raw[c + 8:], raw[c:c + 4])) is not None for c in tried]
    if res is None:
        return tried == order and not any(verdicts)
    return bool(tried) and tried[-1] == res and verdicts[-1] and not any(verdicts[:-1])


def nontrivial(stream, line, out):
    if stream == "g-arg":
        return not out.startswith("exc ")
    if stream.startswith("g-"):
        return nontrivial(stream[2:], line[1:], out)
    if stream == "histneg":
        return any(t.startswith("e") or (t.startswith("b") and len(t) > 1) for t in out.split(" "))
    if stream == "detectlog":
        return out.split()[-2] != "l"                            # at least one candidate was tried
    if out.startswith("exc "):
        return stream.startswith("detect")  # a rejected input is a meaningful detection outcome
    if stream.startswith("hist"):
        return any(t.startswith("b") and len(t) > 1 for t in out.split(" "))
    if stream == "ino":
        return out.split()[1] != "l"
    if stream == "mz":
        return out != "ok none"
    if stream == "counter":
        return line.strip() != "counter l"
    return True


def shrink(stream, line):
    if stream == "g-arg":
        return
    if stream.startswith("g-"):
        for cand in shrink(stream[2:], line[1:]):
            yield "g" + cand
        return
    w = line.split(" ")
    if stream.startswith("hist"):
        ops = w[4].split(",")
        for i in range(len(ops)):
            if len(ops) > 1:
                yield " ".join(w[:4] + [",".join(ops[:i] + ops[i + 1:])])
        # shorten the stub (keeps the layout): drop leading stub bytes
        off = int(w[2])
        raw = C.unhx(w[3])
        for cut in (off, off // 2, 1):
            if 0 < cut <= off:
                yield " ".join([w[0], w[1], str(off - cut), C.hx(raw[cut:]), w[4]])
        # drop trailing encoded bytes
        for cut in (len(raw) - off - 8) // 2, 4, 1:
            if 0 < cut <= len(raw) - off - 8:
                yield " ".join([w[0], w[1], w[2], C.hx(raw[:-cut]), w[4]])
        return
    yield from C.shrink_tokens(line)

#!/usr/bin/env python3
"""Development tool (run once; the result is committed as corpus/C06/ws_blobs.txt).

Valid RSA ciphertexts of one well-formed metadata whose FIRST or LAST two bytes look like transport white space / padding
(CR LF, two blanks, two LFs, '==', two NULs, two tabs).  A ciphertext is uniformly distributed, so a decoder that trims its
input (strip / rstrip / removesuffix(CRLF) …) fails on 1 blob in 65536 only; these are those blobs.  Found by varying the
PKCS#1 v1.5 padding string of a hand-made encryption block (textbook RSA with the public key), deterministic.
"""
import struct, sys
from pathlib import Path
from Crypto.PublicKey import RSA

CORPUS = Path(__file__).resolve().parent.parent / "corpus" / "C06"
PATS = [b"\r\n", b"  ", b"\n\n", b"==", b"\x00\x00", b"\t\t", b"\r\r", b" \n"]


def metadata(info=b"ws-blob"):
    body = bytes(range(1, 17)) + struct.pack(">HH", 1252, 437) + struct.pack(">IIH", 0x1234, 0x77, 22) + bytes([4, 6, 2]) + \
        struct.pack(">H", 9200) + struct.pack(">IIII", 0x10, 0x20, 0x30, 0x0A000001)
    assert len(body) == 51
    return struct.pack(">II", 0xBEEF, 51 + len(info)) + body + info


def main():
    out = []
    for kid in ("k1024a", "k1024b", "k2048a", "k2048b"):
        k = RSA.import_key((CORPUS / f"{kid}.pem").read_bytes())
        kb = k.size_in_bytes()
        pt = metadata()
        ps = kb - 3 - len(pt)
        want = {("suffix", p) for p in PATS} | {("prefix", p) for p in PATS}
        ctr = 0
        while want:
            ctr += 1
            pad = bytearray(b"\xaa" * ps)
            c = ctr
            for i in range(4):                      # 4 varying non-zero bytes
                pad[i] = 1 + (c % 255)
                c //= 255
            em = b"\x00\x02" + bytes(pad) + b"\x00" + pt
            blob = pow(int.from_bytes(em, "big"), k.e, k.n).to_bytes(kb, "big")
            for how, p in (("suffix", blob[-2:]), ("prefix", blob[:2])):
                if (how, p) in want:
                    want.discard((how, p))
                    out.append(f"{kid} {how} {p.hex()} {blob.hex()}")
                    print(kid, how, p.hex(), ctr, file=sys.stderr)
    (CORPUS / "ws_blobs.txt").write_text("\n".join(sorted(out)) + "\n")


if __name__ == "__main__":
    main()

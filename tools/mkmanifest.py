#!/usr/bin/env python3
"""Regenerates MANIFEST.json from the per-property table below (keeps it schema-valid)."""
import json
from pathlib import Path

ROOT = Path(__file__).resolve().parent.parent
ALL = [f"C{i:02d}" for i in range(1, 21)]

COMMON_NOTE = ("Trusted: Lean 4.33 kernel (+leanchecker in the thorough tier); axioms propext/Classical.choice/Quot.sound only "
               "(audited per theorem on every run, no sorry/native_decide/bv_decide/own axioms); tools/translate.py; the correspondence "
               "harness (generators, adapters, line protocol); the hand-written model is tied to the code by differential "
               "execution, not by proof. ")

CLAIMED = {
    "C20": dict(
        text="Lean theorems over the model of utils.xor / netbios / pack / unpack / checksum8 / stager classifiers / random_stager_uri / "
             "find_staged_beacon gate, for all inputs (xor_involutive, xor_length, xor_identity, netbios_decode_encode, netbios_roundtrip, "
             "unpack_pack, pack_unpack, pack_overflow_iff, isStagerX86_iff, isStagerX64_iff, randomStagerUri_sound, staged_gate); model tied to "
             "the code by an exhaustive+random correspondence run (all URIs up to length 2/3 over printable ASCII, length grids, width limits).",
        note="CPython built-ins (int.from_bytes/to_bytes incl. the width-0 quirk, bytes(), re.match) are modelled, not verified; "
             "random.choice is a scripted stream; BeaconConfig.from_bytes is stubbed in the gate stream.",
        design="§4 C20",
    ),
    "C05": dict(
        text="Lean 4 proof over an executable model of pad, encrypt_data, decrypt_data, encrypt_packet, decrypt_packet, raise_for_signature, "
             "dumps and the client/server iter_encrypted_packets: the round trip returns plaintext plus 1-16 bytes of 'A'; the signature is "
             "HMAC[:16] over the ciphertext; with verification, acceptance is exactly 'key present, non-empty and MAC equal'; rejection is "
             "ValueError with AES never invoked (call-log theorem); client and server framings invert concatenation for all packet lists "
             "(client_frames_roundtrip by induction). AES-CBC and HMAC-SHA256 are parameters constrained only by CryptoLaws (satisfiable toy "
             "instance given); rejection of a modified ciphertext / different key is proved under the explicit hypothesis that the truncated MACs differ.",
        note="Model tied to the code by running the real library against the compiled model with primitive results supplied from pycryptodome/hmac "
             "called directly and the ordered primitive-call log compared: every plaintext length 0-48, every single-bit flip and truncation of "
             "ciphertext and signature of 20 (quick) / 300 (thorough) packets, HMAC-key faults, verify=False, streams of 1-6 packets, malformed "
             "frames. BytesIO, cstruct uint32 and int.to_bytes semantics are modelled; crypto hardness is not assumed silently.",
        design="§4 C05, §1.2",
    ),
    "C06": dict(
        text="Lean 4 proof: for every metadata whose integer fields fit their declared widths, every 16-byte aes_rand and every info with "
             "59+|info| <= k-11 (RSA-1024/2048 as corollaries), decrypt_metadata(encrypt_metadata(m)) returns m field for field with "
             "size = |dumps|-8, under explicit assumptions on RSA/PKCS#1 v1.5 (CryptoLaws, satisfiable). Every blob that fails to decrypt, has "
             "the wrong length, is short, truncated or lacks the 0xBEEF magic yields ValueError and nothing else (decrypt_only_valueError). "
             "AES and HMAC keys are the two 16-byte halves of SHA-256(aes_rand). The struct layout is a generated table re-proved by decide.",
        note="RSA and SHA-256 are model parameters, not verified; dissect.cstruct read/write semantics are modelled from measurements and "
             "exercised by dedicated dumps/parse streams against the real package. Layout from tools/gen/c2struct.py. Correspondence uses "
             "pycryptodome keys from corpus/C06/*.pem plus one seed-derived key, against the compiled model and an independent struct.pack oracle.",
        design="§4 C06, §1.2",
    ),
    "C15": dict(
        text="Lean theorems over the executable model of iter_find_needle and iter_artifactkit_payloads: for every file content, position, file "
             "kind, non-empty needle, buffer size B>=1 and start, the no-limit scan returns exactly the occurrences >= start, ascending "
             "(needle_exact, via the carry-buffer loop invariant; buffer-size independence, no duplicates, non-negativity as corollaries); under a "
             "limit the result is a sublist of that answer with soundness (needle_limit_sound) and completeness for occurrences ending before "
             "the limit (needle_limit_complete). The ArtifactKit scanner reports exactly artifactHits with payload = xor(slice, key) "
             "(artifact_exact, artifact_offsets_iff, artifact_payload). Loops are well-founded recursions (termination proved, no fuel).",
        note="CPython bytes.find, slicing and file-object semantics are modelled (bytesFind?/PyFile) and exercised by dedicated streams, not verified; "
             "u32/xor reuse the C20 models. Correspondence: exhaustive over alphabet {00,01,ff} (haystacks <=7 x needles <=3 x B 1..5 x start x limit), "
             "planted boundary-straddling occurrences for B in {1,3,7,64,8192}, BytesIO and real files. Under a limit the exact cut depends on B and is "
             "compared as correspondence-only. Empty needle and B=0 are outside the property.",
        design="§4 C15",
    ),
    "C16": dict(
        text="Lean theorems over an executable model of parse_raw_http: the body is everything after the first CRLFCRLF (body_preserved); a start "
             "line that is not three tokens gives exactly ValueError and no other exception is possible for any input (malformed_rejected, "
             "only_valueError); every well-formed response (any HTTP/ version token, any status of at most 4300 digits, any single-token reason) and "
             "every well-formed request (any admissible ASCII path incl. ';', ':', '@', '%', arbitrary parameter bytes percent-encoded on the wire, "
             "header maps, any body) round-trips through render and parse (response_roundtrip, request_roundtrip); percent-decoding inverts "
             "percent-encoding (unquote_quote); headers and parameters have dict semantics.",
        note="CPython 3.12.1 built-ins (bytes.partition/split/rstrip/upper, UTF-8 and ASCII-ignore decoding, int(str) incl. Unicode digits from "
             "generated tables and the 4300-digit limit, urllib.parse.urlsplit on bytes incl. netloc/IPv6 checks, parse_qsl, dict) are modelled and "
             "checked by exhaustive (all URI targets of length <=4 over a 15-letter alphabet) and random correspondence streams, not verified.",
        design="§4 C16",
    ),
}

REASON_PENDING = "not claimed yet: model/theorems/correspondence for this property are not built in this revision (see DESIGN.md §7 build order)"


def main():
    checks = []
    for pid, c in CLAIMED.items():
        checks.append({
            "property_id": pid,
            "quick_cmd": f"tools/check.py {pid} --tier quick",
            "thorough_cmd": f"tools/check.py {pid} --tier thorough",
            "evidence_file": f"evidence/{pid}.json",
            "replay_cmd_template": f"tools/check.py {pid} --replay {{path}}",
            "engine": "lean4-proof+correspondence",
            "level_claimed": {"category": "proof", "text": c["text"], "design_ref": c["design"]},
            "level_note": COMMON_NOTE + c["note"],
            "technique": "Lean 4 theorems about an executable model + model/implementation correspondence check",
        })
    man = {
        "version": 1,
        "setup_cmd": "tools/setup.sh",
        "hooks": {
            "guard": "FOX_IT_DISSECT_COBALTSTRIKE_VERIF",
            "enable": "tools/check.py exports FOX_IT_DISSECT_COBALTSTRIKE_VERIF=1; no hook commits exist (the harness patches module attributes in-process only)",
            "baseline_off_cmd": "cd /repo && /venv/bin/python -m pytest -ra -q -p no:cacheprovider --timeout=900 --continue-on-collection-errors",
            "source_commits": [],
            "add_only": True,
        },
        "engines": [{
            "name": "lean4-proof+correspondence",
            "path": "tools/check.py",
            "serves_properties": sorted(CLAIMED),
            "kind_free_text": "Lean 4 model + theorems (lean/CsVerif), tables regenerated by tools/translate.py, compiled model drivers compared with the real library by tools/harness/*",
        }],
        "checks": checks,
        "not_applicable": [{"property_id": p, "reason": REASON_PENDING} for p in ALL if p not in CLAIMED],
        "notes": "See DESIGN.md. known_findings.json lists recorded/fixed defects.",
    }
    (ROOT / "MANIFEST.json").write_text(json.dumps(man, indent=1) + "\n")


if __name__ == "__main__":
    main()
